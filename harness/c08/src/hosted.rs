//! The agent-hosted downlinks: a real agent (real `AgentModel` + agent runtime inside the vsim
//! executor) opens a value or map downlink in `on_start`; the harness answers the agent's
//! `LinkRequest::Downlink` with byte channels it controls. Local writes are performed by a handler
//! of the agent (command lane `ctl`, the command is the op index) through the downlink handle.

use crate::drive::{drain, nz, snap_of, Cfg, Rec, Sys};
use crate::model::{Cb, Ctl, DOp, Kind, Write};
use parking_lot::Mutex;
use std::collections::HashMap;
use std::sync::atomic::AtomicU64;
use std::sync::Arc;
use swimos::agent::agent_lifecycle::HandlerContext;
use swimos::agent::agent_model::downlink::{MapDownlinkHandle, ValueDownlinkHandle};
use swimos::agent::agent_model::AgentModel;
use swimos::agent::config::{MapDownlinkConfig, SimpleDownlinkConfig};
use swimos::agent::event_handler::{EventHandler, HandlerActionExt};
use swimos::agent::lanes::CommandLane;
use swimos::agent::{lifecycle, projections, AgentLaneModel};
use swimos_api::agent::DownlinkKind;
use swimos_runtime::agent::LinkRequest;
use swimos_utilities::byte_channel::{byte_channel, ByteReader, ByteWriter};
use vsim::{Req, Sim, SimParams};

#[projections]
#[derive(AgentLaneModel)]
pub struct DlAgent {
    ctl: CommandLane<i32>,
}

pub struct HostShared {
    pub rec: Arc<Rec>,
    pub kind: Kind,
    pub ewns: bool,
    pub term: bool,
    pub ops: Vec<DOp>,
    pub vhandle: Mutex<Option<ValueDownlinkHandle<i32>>>,
    pub mhandle: Mutex<Option<MapDownlinkHandle<i32, i32>>>,
    /// Local writes the handle refused (downlink stopped).
    pub refused: Mutex<usize>,
}

#[derive(Clone)]
pub struct DlLifecycle {
    shared: Arc<HostShared>,
}

type Ctx = HandlerContext<DlAgent>;

#[lifecycle(DlAgent)]
impl DlLifecycle {
    #[on_start]
    fn on_start(&self, context: Ctx) -> impl EventHandler<DlAgent> {
        let sh = self.shared.clone();
        let open_value = if sh.kind == Kind::Value {
            let config = SimpleDownlinkConfig {
                events_when_not_synced: sh.ewns,
                terminate_on_unlinked: sh.term,
            };
            let (r1, r2, r3, r4, r5, r6) = (
                sh.rec.clone(),
                sh.rec.clone(),
                sh.rec.clone(),
                sh.rec.clone(),
                sh.rec.clone(),
                sh.rec.clone(),
            );
            let sh2 = sh.clone();
            let open = context
                .value_downlink_builder::<i32>(None, "/remote", "lane", config)
                .on_linked(move |context: Ctx| {
                    let r = r1.clone();
                    context.effect(move || r.rec(Cb::Linked))
                })
                .on_synced(move |context: Ctx, v: &i32| {
                    let r = r2.clone();
                    let v = *v;
                    context.effect(move || r.rec(Cb::SyncedV(v)))
                })
                .on_event(move |context: Ctx, v: &i32| {
                    let r = r3.clone();
                    let v = *v;
                    context.effect(move || r.rec(Cb::Event(v)))
                })
                .on_set(move |context: Ctx, prev: Option<i32>, new: &i32| {
                    let r = r4.clone();
                    let new = *new;
                    context.effect(move || r.rec(Cb::Set { prev, new }))
                })
                .on_unlinked(move |context: Ctx| {
                    let r = r5.clone();
                    context.effect(move || r.rec(Cb::Unlinked))
                })
                .on_failed(move |context: Ctx| {
                    let r = r6.clone();
                    context.effect(move || r.rec(Cb::Failed))
                })
                .done();
            Some(open.and_then(move |handle| {
                context.effect(move || {
                    *sh2.vhandle.lock() = Some(handle);
                })
            }))
        } else {
            None
        };
        let open_map = if sh.kind == Kind::Map {
            let config = MapDownlinkConfig {
                events_when_not_synced: sh.ewns,
                terminate_on_unlinked: sh.term,
            };
            let (r1, r2, r3, r4, r5, r6, r7) = (
                sh.rec.clone(),
                sh.rec.clone(),
                sh.rec.clone(),
                sh.rec.clone(),
                sh.rec.clone(),
                sh.rec.clone(),
                sh.rec.clone(),
            );
            let sh2 = sh.clone();
            let open = context
                .map_downlink_builder::<i32, i32>(None, "/remote", "lane", config)
                .on_linked(move |context: Ctx| {
                    let r = r1.clone();
                    context.effect(move || r.rec(Cb::Linked))
                })
                .on_synced(move |context: Ctx, map: &HashMap<i32, i32>| {
                    let r = r2.clone();
                    let s = snap_of(map.iter());
                    context.effect(move || r.rec(Cb::SyncedM(s)))
                })
                .on_update(
                    move |context: Ctx, key: i32, map: &HashMap<i32, i32>, prev: Option<i32>, new: &i32| {
                        let r = r3.clone();
                        let s = snap_of(map.iter());
                        let new = *new;
                        context.effect(move || r.rec(Cb::Update { key, map: s, prev, new }))
                    },
                )
                .on_remove(move |context: Ctx, key: i32, map: &HashMap<i32, i32>, prev: i32| {
                    let r = r4.clone();
                    let s = snap_of(map.iter());
                    context.effect(move || r.rec(Cb::Remove { key, map: s, prev }))
                })
                .on_clear(move |context: Ctx, old: HashMap<i32, i32>| {
                    let r = r5.clone();
                    let s = snap_of(old.iter());
                    context.effect(move || r.rec(Cb::Clear { old: s }))
                })
                .on_unlinked(move |context: Ctx| {
                    let r = r6.clone();
                    context.effect(move || r.rec(Cb::Unlinked))
                })
                .on_failed(move |context: Ctx| {
                    let r = r7.clone();
                    context.effect(move || r.rec(Cb::Failed))
                })
                .done();
            Some(open.and_then(move |handle| {
                context.effect(move || {
                    *sh2.mhandle.lock() = Some(handle);
                })
            }))
        } else {
            None
        };
        open_value.discard().followed_by(open_map.discard())
    }

    #[on_command(ctl)]
    fn on_ctl(&self, context: Ctx, value: &i32) -> impl EventHandler<DlAgent> {
        let sh = self.shared.clone();
        let idx = *value as usize;
        context.effect(move || {
            let w = match sh.ops.get(idx).copied() {
                Some(DOp::W(w)) => w,
                Some(DOp::C(Ctl::DropWriters)) => {
                    *sh.vhandle.lock() = None;
                    *sh.mhandle.lock() = None;
                    return;
                }
                Some(DOp::C(Ctl::Reconnect)) => {
                    // the write that will fail (the harness has dropped the output's reader)
                    match sh.kind {
                        Kind::Value => Write::Set(-1),
                        Kind::Map => Write::Upd(0, -1),
                    }
                }
                Some(DOp::C(Ctl::Stop)) => {
                    if let Some(h) = sh.vhandle.lock().as_mut() {
                        h.stop();
                    }
                    if let Some(h) = sh.mhandle.lock().as_mut() {
                        h.stop();
                    }
                    return;
                }
                _ => return,
            };
            let ok = match w {
                Write::Set(v) => match sh.vhandle.lock().as_mut() {
                    Some(h) => h.set(v).is_ok(),
                    None => false,
                },
                Write::Upd(k, v) => match sh.mhandle.lock().as_ref() {
                    Some(h) => h.update(k, v).is_ok(),
                    None => false,
                },
                Write::Rem(k) => match sh.mhandle.lock().as_ref() {
                    Some(h) => h.remove(k).is_ok(),
                    None => false,
                },
                Write::Clear => match sh.mhandle.lock().as_ref() {
                    Some(h) => h.clear().is_ok(),
                    None => false,
                },
            };
            if !ok {
                *sh.refused.lock() += 1;
            }
        })
    }
}

pub struct HostedSys {
    sim: Sim,
    in_tx: Option<ByteWriter>,
    out_rx: Option<ByteReader>,
    #[allow(dead_code)]
    pub shared: Arc<HostShared>,
    pub setup_error: Option<String>,
    in_cap: usize,
    pub reconnects: usize,
}

const OUT_CAP: usize = 1 << 16;

impl HostedSys {
    /// Must be called inside `block_on_paused`.
    pub fn new(cfg: &Cfg, rec: Arc<Rec>, ops: &[DOp]) -> HostedSys {
        let shared = Arc::new(HostShared {
            rec,
            kind: cfg.kind,
            ewns: cfg.ewns,
            term: cfg.term,
            ops: ops.to_vec(),
            vhandle: Mutex::new(None),
            mhandle: Mutex::new(None),
            refused: Mutex::new(0),
        });
        let sh_hook = shared.clone();
        shared.rec.set_hook(move || {
            *sh_hook.vhandle.lock() = None;
            *sh_hook.mhandle.lock() = None;
        });
        let lifecycle = DlLifecycle { shared: shared.clone() };
        let agent = AgentModel::new(DlAgent::default, lifecycle.into_lifecycle());
        let params = SimParams {
            seed: cfg.seed,
            budget: cfg.budget.max(2),
            ..SimParams::default()
        };
        let clock = Arc::new(AtomicU64::new(1));
        let mut sim = Sim::start(&agent, &params, clock, None);
        // initialisation + on_start (which issues the downlink request); not part of the property
        sim.run_until_idle();
        let mut setup_error = None;
        let mut in_tx = None;
        let mut out_rx = None;
        match sim.link_rx.try_recv() {
            Ok(LinkRequest::Downlink(req)) => {
                let want = match cfg.kind {
                    Kind::Value => DownlinkKind::Value,
                    Kind::Map => DownlinkKind::Map,
                };
                if req.kind != want {
                    setup_error = Some(format!("downlink request of kind {:?}", req.kind));
                }
                let (ntx, nrx) = byte_channel(nz(cfg.in_cap));
                let (otx, orx) = byte_channel(nz(OUT_CAP));
                if req.promise.send(Ok((otx, nrx))).is_err() {
                    setup_error = Some("the agent dropped the downlink promise".into());
                }
                in_tx = Some(ntx);
                out_rx = Some(orx);
            }
            Ok(_) => setup_error = Some("unexpected link request".into()),
            Err(e) => setup_error = Some(format!("no downlink request after on_start: {:?}", e)),
        }
        sim.run_until_idle();
        // the remote that carries the `ctl` commands
        sim.attach(4096, 4096);
        sim.settle();
        HostedSys {
            sim,
            in_tx,
            out_rx,
            shared,
            setup_error,
            in_cap: cfg.in_cap,
            reconnects: 0,
        }
    }
}

impl Sys for HostedSys {
    fn poll_idle(&mut self) -> Result<usize, String> {
        // `settle` pumps the ctl remote, polls the agent until idle and reads the remote's frames;
        // it panics on a livelock (reported by the runner with the vsim location)
        let before = self.sim.polls;
        self.sim.settle();
        Ok((self.sim.polls - before) as usize)
    }

    fn writer(&mut self) -> &mut Option<ByteWriter> {
        &mut self.in_tx
    }

    fn drain_out(&mut self) -> usize {
        drain(&mut self.out_rx)
    }

    fn local_write(&mut self, idx: usize, _w: &Write) {
        self.sim.remotes[0].send("ctl", Req::Command(idx.to_string().into_bytes()));
    }

    fn control(&mut self, idx: usize, c: &Ctl) {
        match c {
            Ctl::DropWriters | Ctl::Stop => {
                self.sim.remotes[0].send("ctl", Req::Command(idx.to_string().into_bytes()));
            }
            Ctl::DropOutput => {}
            Ctl::Reconnect => {
                self.out_rx = None;
                self.sim.remotes[0].send("ctl", Req::Command(idx.to_string().into_bytes()));
                self.sim.settle();
                match self.sim.link_rx.try_recv() {
                    Ok(LinkRequest::Downlink(req)) => {
                        let (ntx, nrx) = byte_channel(nz(self.in_cap));
                        let (otx, orx) = byte_channel(nz(OUT_CAP));
                        if req.promise.send(Ok((otx, nrx))).is_err() {
                            self.setup_error = Some("the agent dropped the reconnect promise".into());
                        }
                        self.in_tx = Some(ntx);
                        self.out_rx = Some(orx);
                        self.reconnects += 1;
                    }
                    _ => {
                        self.setup_error =
                            Some("no new downlink request after a failed write (terminate_on_unlinked = false)".into());
                    }
                }
                self.sim.settle();
            }
        }
    }

    fn finished(&self) -> Option<Result<(), String>> {
        self.sim.result.clone()
    }
}
