//! The agent under test: 2 value + 2 map lanes and a control lane, a lifecycle built with the real
//! `#[lifecycle]` macro whose handler bodies are produced by interpreting the generated program tables
//! (AST -> boxed handler: `Sequentially`, `followed_by`, `and_then`, `context.effect`, `context.suspend`,
//! `context.run_after`, `context.fail`, `context.stop`). Every observation is appended to a trace through
//! `context.effect` closures.

use crate::ast::{arm_of, burst_key, to_val, try_fails, xform, How, Obs, Src, Tables, HK, P, V};
use parking_lot::Mutex;
use serde::{Deserialize, Serialize};
use std::collections::{BTreeMap, HashMap};
use std::sync::Arc;
use std::time::Duration;
use swimos::agent::agent_lifecycle::HandlerContext;
use swimos::agent::agent_model::AgentModel;
use swimos::agent::event_handler::{
    join, join3, BoxEventHandler, BoxHandlerAction, Either, EventHandlerError, HandlerActionExt, Sequentially,
    TryHandlerActionExt,
};
use swimos::agent::lanes::{CommandLane, MapLane, ValueLane};
use swimos::agent::{lifecycle, projections, AgentLaneModel};

#[projections]
#[derive(AgentLaneModel)]
pub struct HAgent {
    v0: ValueLane<i32>,
    m0: MapLane<i32, i32>,
    #[item(name = "second_value")]
    v1: ValueLane<i32>,
    #[item(name = "otherMap")]
    m1: MapLane<i32, i32, BTreeMap<i32, i32>>,
    ctl: CommandLane<i32>,
}

/// A top-level program.
#[derive(Clone, Copy, Debug, PartialEq, Eq, Serialize, Deserialize)]
pub enum Top {
    Start,
    Stop,
    Run(u16),
    Spawned(u16),
}

#[derive(Clone, Debug, PartialEq, Eq, Serialize, Deserialize)]
pub enum Rec {
    Begin(Top),
    End(Top),
    OnEvent { lane: u8, v: i32 },
    OnSet { lane: u8, v: i32, prev: Option<i32> },
    /// `map` is the map the handler was given (contents after the update).
    OnUpdate { lane: u8, k: i32, prev: Option<i32>, v: i32, map: Vec<(i32, i32)> },
    OnRemove { lane: u8, k: i32, prev: i32, map: Vec<(i32, i32)> },
    OnClear { lane: u8, prev: Vec<(i32, i32)> },
    /// End of a lane handler.
    Leave { lane: u8, kind: HK },
    Eff(u32),
    Got(Src, Obs),
    /// What the continuation closure of an `and_then_contextual` read directly from the agent.
    CtxGot(Src, Obs),
    /// Recorded immediately before the `suspend` step.
    Spawn(u16),
}

impl Rec {
    pub fn kind(&self) -> &'static str {
        match self {
            Rec::Begin(_) => "Begin",
            Rec::End(_) => "End",
            Rec::OnEvent { .. } => "OnEvent",
            Rec::OnSet { .. } => "OnSet",
            Rec::OnUpdate { .. } => "OnUpdate",
            Rec::OnRemove { .. } => "OnRemove",
            Rec::OnClear { .. } => "OnClear",
            Rec::Leave { .. } => "Leave",
            Rec::Eff(_) => "Eff",
            Rec::Got(..) => "Got",
            Rec::CtxGot(..) => "CtxGot",
            Rec::Spawn(_) => "Spawn",
        }
    }
}

pub struct Shared {
    pub tables: Tables,
    pub trace: Mutex<Vec<Rec>>,
}

impl Shared {
    pub fn new(tables: Tables) -> Arc<Shared> {
        Arc::new(Shared { tables, trace: Mutex::new(vec![]) })
    }
    fn rec(&self, r: Rec) {
        self.trace.lock().push(r);
    }
    pub fn trace_len(&self) -> usize {
        self.trace.lock().len()
    }
    pub fn trace(&self) -> Vec<Rec> {
        self.trace.lock().clone()
    }
}

type Ctx = HandlerContext<HAgent>;
type Handler = BoxEventHandler<'static, HAgent>;

#[derive(Debug)]
pub struct UserFailure;
impl std::fmt::Display for UserFailure {
    fn fmt(&self, f: &mut std::fmt::Formatter<'_>) -> std::fmt::Result {
        write!(f, "generated handler failure")
    }
}
impl std::error::Error for UserFailure {}

fn sorted(m: &HashMap<i32, i32>) -> Vec<(i32, i32)> {
    let mut v: Vec<(i32, i32)> = m.iter().map(|(k, v)| (*k, *v)).collect();
    v.sort();
    v
}

fn ordered(m: &BTreeMap<i32, i32>) -> Vec<(i32, i32)> {
    m.iter().map(|(k, v)| (*k, *v)).collect()
}

fn eff(sh: &Arc<Shared>, r: Rec) -> Handler {
    let ctx: Ctx = HandlerContext::default();
    let sh = sh.clone();
    ctx.effect(move || sh.rec(r)).boxed()
}

fn get(src: Src) -> BoxHandlerAction<'static, HAgent, Obs> {
    let ctx: Ctx = HandlerContext::default();
    match src {
        Src::Val(0) => ctx.get_value(HAgent::V0).map(Obs::V).boxed(),
        Src::Val(_) => ctx.get_value(HAgent::V1).map(Obs::V).boxed(),
        Src::Entry(1, k) => ctx.get_entry(HAgent::M0, k).map(Obs::E).boxed(),
        // (get_entry is only available for HashMap-backed maps)
        Src::Entry(_, k) => ctx
            .with_entry(HAgent::M1, k, |v: Option<&i32>| Obs::E(v.copied()))
            .boxed(),
        Src::Map(1) => ctx
            .get_map(HAgent::M0)
            .map(|m: HashMap<i32, i32>| Obs::M(sorted(&m)))
            .boxed(),
        Src::Map(_) => ctx
            .get_map(HAgent::M1)
            .map(|m: BTreeMap<i32, i32>| Obs::M(ordered(&m)))
            .boxed(),
    }
}

type Value = BoxHandlerAction<'static, HAgent, i64>;

fn failure() -> EventHandlerError {
    EventHandlerError::EffectError(Box::new(UserFailure))
}

/// Read a source directly from the agent (what an `and_then_contextual` closure can do).
fn read_direct(agent: &HAgent, src: Src) -> Obs {
    match src {
        Src::Val(0) => Obs::V(agent.v0.read(|v| *v)),
        Src::Val(_) => Obs::V(agent.v1.read(|v| *v)),
        Src::Entry(1, k) => Obs::E(agent.m0.get(&k, |v| v.copied())),
        Src::Entry(_, k) => Obs::E(agent.m1.get(&k, |v| v.copied())),
        Src::Map(1) => Obs::M(agent.m0.get_map(sorted)),
        Src::Map(_) => Obs::M(agent.m1.get_map(ordered)),
    }
}

/// `first.and_then(k)` / `.and_then_contextual(k)` / `.and_then_try(k)` (fails when `try_fails(x)`).
fn bind<T, K>(sh: &Arc<Shared>, first: Value, how: How, k: K) -> BoxHandlerAction<'static, HAgent, T>
where
    T: Send + 'static,
    K: FnOnce(i64) -> BoxHandlerAction<'static, HAgent, T> + Send + 'static,
{
    match how {
        How::Then => first.and_then(k).boxed(),
        How::Ctx(src) => {
            let sh = sh.clone();
            first
                .and_then_contextual(move |agent: &HAgent, x: i64| {
                    sh.rec(Rec::CtxGot(src, read_direct(agent, src)));
                    k(x)
                })
                .boxed()
        }
        How::Try => first
            .and_then_try(move |x: i64| if try_fails(x) { Err(failure()) } else { Ok(k(x)) })
            .boxed(),
    }
}

/// AST -> value producing action.
pub fn build_v(sh: &Arc<Shared>, v: &V) -> Value {
    let ctx: Ctx = HandlerContext::default();
    match v {
        V::Get(src) => {
            let (sh, src) = (sh.clone(), *src);
            get(src)
                .and_then(move |o: Obs| {
                    let c: Ctx = HandlerContext::default();
                    let x = o.scalar();
                    c.effect(move || {
                        sh.rec(Rec::Got(src, o));
                        x
                    })
                })
                .boxed()
        }
        V::Const(c) => ctx.value(*c as i64).boxed(),
        V::After(p, v) => build(sh, p).followed_by(build_v(sh, v)).boxed(),
        V::Of(p, c) => {
            let c = *c as i64;
            build(sh, p).map(move |_: ()| c).boxed()
        }
        V::Map(v, c) => {
            let c = *c as i64;
            build_v(sh, v).map(move |x: i64| x.wrapping_add(c)).boxed()
        }
        V::Bind { first, how, arms } => {
            let (sh2, arms) = (sh.clone(), arms.clone());
            bind(sh, build_v(sh, first), *how, move |x| build_v(&sh2, &arms[arm_of(x, arms.len())]))
        }
        V::Join(a, b) => join(build_v(sh, a), build_v(sh, b))
            .map(|(x, y): (i64, i64)| x.wrapping_add(y))
            .boxed(),
        V::Join3(a, b, c) => join3(build_v(sh, a), build_v(sh, b), build_v(sh, c))
            .map(|(x, y, z): (i64, i64, i64)| x.wrapping_add(y).wrapping_add(z))
            .boxed(),
        V::Opt(v) => {
            let inner: Either<Value, Value> = Either::Left(build_v(sh, v));
            HandlerActionExt::<HAgent>::map(Some(inner), |o: Option<i64>| o.unwrap_or(0)).boxed()
        }
        V::Try(v) => build_v(sh, v)
            .map(|x: i64| if try_fails(x) { Err(UserFailure) } else { Ok(x) })
            .try_handler()
            .boxed(),
    }
}

/// Step `i` of a burst.
pub fn burst_step(lane: u8, i: u16, v: i32) -> P {
    if crate::ast::is_value(lane) {
        P::Set { lane, v: to_val(v as i64, i as i32) }
    } else {
        P::Upd { lane, k: burst_key(i), v }
    }
}

/// AST -> handler. Nothing is read from the agent while the handler is being built; all reads and
/// writes happen in `step`.
pub fn build(sh: &Arc<Shared>, p: &P) -> Handler {
    let ctx: Ctx = HandlerContext::default();
    match p {
        P::Seq(ps) => {
            let hs: Vec<Handler> = ps.iter().map(|p| build(sh, p)).collect();
            Sequentially::new(hs).boxed()
        }
        P::Then(a, b) => build(sh, a).followed_by(build(sh, b)).boxed(),
        P::Set { lane: 0, v } => ctx.set_value(HAgent::V0, *v).boxed(),
        P::Set { v, .. } => ctx.set_value(HAgent::V1, *v).boxed(),
        P::Upd { lane: 1, k, v } => ctx.update(HAgent::M0, *k, *v).boxed(),
        P::Upd { k, v, .. } => ctx.update(HAgent::M1, *k, *v).boxed(),
        P::Rem { lane: 1, k } => ctx.remove(HAgent::M0, *k).boxed(),
        P::Rem { k, .. } => ctx.remove(HAgent::M1, *k).boxed(),
        P::Clr { lane: 1 } => ctx.clear(HAgent::M0).boxed(),
        P::Clr { .. } => ctx.clear(HAgent::M1).boxed(),
        P::XformV { lane, add } => {
            let add = *add;
            if *lane == 0 {
                ctx.transform_value(HAgent::V0, move |v: &i32| to_val(*v as i64, add)).boxed()
            } else {
                ctx.transform_value(HAgent::V1, move |v: &i32| to_val(*v as i64, add)).boxed()
            }
        }
        P::XformE { lane, k, op, c } => {
            let (op, c) = (*op, *c);
            if *lane == 1 {
                ctx.transform_entry(HAgent::M0, *k, move |e: Option<&i32>| xform(op, e.copied(), c)).boxed()
            } else {
                ctx.transform_entry(HAgent::M1, *k, move |e: Option<&i32>| xform(op, e.copied(), c)).boxed()
            }
        }
        P::Replace { lane, entries } => {
            if *lane == 1 {
                ctx.replace_map(HAgent::M0, entries.clone()).boxed()
            } else {
                ctx.replace_map(HAgent::M1, entries.clone()).boxed()
            }
        }
        P::Burst { lane, n, v } => {
            let hs: Vec<Handler> = (0..*n).map(|i| build(sh, &burst_step(*lane, i, *v))).collect();
            Sequentially::new(hs).boxed()
        }
        P::Discard(v) => build_v(sh, v).discard().annotated("discard").boxed(),
        P::Branch { first, how, arms } => {
            let (sh2, arms) = (sh.clone(), arms.clone());
            bind(sh, build_v(sh, first), *how, move |x| build(&sh2, &arms[arm_of(x, arms.len())]))
        }
        P::MutV { first, how, target, off } => {
            let (sh2, target, off) = (sh.clone(), target.clone(), *off);
            bind(sh, build_v(sh, first), *how, move |x| build(&sh2, &target.with_value(to_val(x, off))))
        }
        P::Eff(l) => eff(sh, Rec::Eff(*l)),
        P::Suspend { prog, delay_ms } => {
            let prog = *prog;
            let note = eff(sh, Rec::Spawn(prog));
            if *delay_ms == 0 {
                let sh2 = sh.clone();
                // an immediately ready future that yields the program
                note.followed_by(ctx.suspend(async move { build_top(&sh2, Top::Spawned(prog)) }))
                    .boxed()
            } else {
                let h = build_top(sh, Top::Spawned(prog));
                note.followed_by(ctx.run_after(Duration::from_millis(*delay_ms), h)).boxed()
            }
        }
        P::Fail => ctx.fail::<(), UserFailure>(UserFailure).boxed(),
        P::Stop => ctx.stop().boxed(),
    }
}

pub fn build_top(sh: &Arc<Shared>, top: Top) -> Handler {
    static EMPTY: P = P::Seq(vec![]);
    let t = &sh.tables;
    let body: &P = match top {
        Top::Start => &t.start,
        Top::Stop => &t.stop,
        Top::Run(i) => t.run.get(i as usize).unwrap_or(&EMPTY),
        Top::Spawned(i) => t.spawn.get(i as usize).unwrap_or(&EMPTY),
    };
    eff(sh, Rec::Begin(top))
        .followed_by(build(sh, body))
        .followed_by(eff(sh, Rec::End(top)))
        .boxed()
}

fn lane_handler(sh: &Arc<Shared>, lane: u8, kind: HK, enter: Rec) -> Handler {
    let body = &sh.tables.lane[lane as usize][kind.slot()];
    eff(sh, enter)
        .followed_by(build(sh, body))
        .followed_by(eff(sh, Rec::Leave { lane, kind }))
        .boxed()
}

#[derive(Clone)]
pub struct HLifecycle {
    pub sh: Arc<Shared>,
}

#[lifecycle(HAgent)]
impl HLifecycle {
    #[on_start]
    fn on_start(&self, _context: Ctx) -> impl swimos::agent::event_handler::EventHandler<HAgent> {
        build_top(&self.sh, Top::Start)
    }

    #[on_stop]
    fn on_stop(&self, _context: Ctx) -> impl swimos::agent::event_handler::EventHandler<HAgent> {
        build_top(&self.sh, Top::Stop)
    }

    #[on_command(ctl)]
    fn on_ctl(&self, _context: Ctx, value: &i32) -> impl swimos::agent::event_handler::EventHandler<HAgent> {
        build_top(&self.sh, Top::Run((*value).clamp(0, u16::MAX as i32) as u16))
    }

    #[on_event(v0)]
    fn v0_event(&self, _context: Ctx, value: &i32) -> impl swimos::agent::event_handler::EventHandler<HAgent> {
        lane_handler(&self.sh, 0, HK::OnEvent, Rec::OnEvent { lane: 0, v: *value })
    }

    #[on_set(v0)]
    fn v0_set(
        &self,
        _context: Ctx,
        value: &i32,
        prev: Option<i32>,
    ) -> impl swimos::agent::event_handler::EventHandler<HAgent> {
        lane_handler(&self.sh, 0, HK::OnSet, Rec::OnSet { lane: 0, v: *value, prev })
    }

    #[on_event(v1)]
    fn v1_event(&self, _context: Ctx, value: &i32) -> impl swimos::agent::event_handler::EventHandler<HAgent> {
        lane_handler(&self.sh, 2, HK::OnEvent, Rec::OnEvent { lane: 2, v: *value })
    }

    #[on_set(v1)]
    fn v1_set(
        &self,
        _context: Ctx,
        value: &i32,
        prev: Option<i32>,
    ) -> impl swimos::agent::event_handler::EventHandler<HAgent> {
        lane_handler(&self.sh, 2, HK::OnSet, Rec::OnSet { lane: 2, v: *value, prev })
    }

    #[on_update(m0)]
    fn m0_update(
        &self,
        _context: Ctx,
        map: &HashMap<i32, i32>,
        key: i32,
        prev: Option<i32>,
        new_value: &i32,
    ) -> impl swimos::agent::event_handler::EventHandler<HAgent> {
        let enter = Rec::OnUpdate { lane: 1, k: key, prev, v: *new_value, map: sorted(map) };
        lane_handler(&self.sh, 1, HK::OnUpdate, enter)
    }

    #[on_remove(m0)]
    fn m0_remove(
        &self,
        _context: Ctx,
        map: &HashMap<i32, i32>,
        key: i32,
        prev: i32,
    ) -> impl swimos::agent::event_handler::EventHandler<HAgent> {
        let enter = Rec::OnRemove { lane: 1, k: key, prev, map: sorted(map) };
        lane_handler(&self.sh, 1, HK::OnRemove, enter)
    }

    #[on_clear(m0)]
    fn m0_clear(
        &self,
        _context: Ctx,
        prev: HashMap<i32, i32>,
    ) -> impl swimos::agent::event_handler::EventHandler<HAgent> {
        lane_handler(&self.sh, 1, HK::OnClear, Rec::OnClear { lane: 1, prev: sorted(&prev) })
    }

    #[on_update(m1)]
    fn m1_update(
        &self,
        _context: Ctx,
        map: &BTreeMap<i32, i32>,
        key: i32,
        prev: Option<i32>,
        new_value: &i32,
    ) -> impl swimos::agent::event_handler::EventHandler<HAgent> {
        let enter = Rec::OnUpdate { lane: 3, k: key, prev, v: *new_value, map: ordered(map) };
        lane_handler(&self.sh, 3, HK::OnUpdate, enter)
    }

    #[on_remove(m1)]
    fn m1_remove(
        &self,
        _context: Ctx,
        map: &BTreeMap<i32, i32>,
        key: i32,
        prev: i32,
    ) -> impl swimos::agent::event_handler::EventHandler<HAgent> {
        let enter = Rec::OnRemove { lane: 3, k: key, prev, map: ordered(map) };
        lane_handler(&self.sh, 3, HK::OnRemove, enter)
    }

    #[on_clear(m1)]
    fn m1_clear(
        &self,
        _context: Ctx,
        prev: BTreeMap<i32, i32>,
    ) -> impl swimos::agent::event_handler::EventHandler<HAgent> {
        lane_handler(&self.sh, 3, HK::OnClear, Rec::OnClear { lane: 3, prev: ordered(&prev) })
    }
}

pub fn make_agent(sh: Arc<Shared>) -> impl swimos::api::Agent + Send + 'static {
    let lifecycle = HLifecycle { sh };
    AgentModel::new(HAgent::default, lifecycle.into_lifecycle())
}
