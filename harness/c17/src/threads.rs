//! Real-thread stress tier: one OS thread per voter running a generated script, one receiver thread.
//! Only schedule independent invariants are asserted (each is implied by the property statement for
//! EVERY interleaving, see NOTES.md), so the verdict does not depend on how the threads were scheduled.
use crate::model::CountWaker;
use proptest::prelude::*;
use serde::{Deserialize, Serialize};
use std::future::Future;
use std::pin::Pin;
use std::sync::atomic::{AtomicBool, Ordering};
use std::sync::{Arc, Barrier, Mutex};
use std::task::{Context, Poll, Waker};
use swimos_runtime::verif_hooks::{
    agent_timeout_coordinator, downlink_timeout_coordinator, Receiver, VoteResult, Voter,
};
use vcommon::Verdict;

#[derive(Clone, Copy, Debug, PartialEq, Eq, Serialize, Deserialize)]
pub enum TOp {
    V,
    R,
    /// give the other threads a chance (std::thread::yield_now)
    Y,
}

#[derive(Clone, Debug, Serialize, Deserialize)]
pub struct ThreadCase {
    parties: u8,
    /// rescind only with an own vote outstanding; stop (keep the voter, do nothing more) once told Unanimous
    callers_only: bool,
    /// receiver thread waits for its waker to fire between polls (otherwise it polls in a loop)
    park: bool,
    /// each script is run `rounds` times
    rounds: u16,
    /// spin iterations of the receiver thread before each of its polls
    rx_delay: u16,
    scripts: Vec<Vec<TOp>>,
    /// whether party i drops its voter at the end of its script (on its own thread)
    drops: Vec<bool>,
}

pub fn strategy() -> impl Strategy<Value = ThreadCase> {
    let general = (2u8..=3, any::<bool>(), any::<bool>(), 1u16..=40, 0u16..=64).prop_flat_map(|(parties, callers_only, park, rounds, rx_delay)| {
        let top = prop_oneof![6 => Just(TOp::V), 6 => Just(TOp::R), 1 => Just(TOp::Y)];
        (
            proptest::collection::vec(proptest::collection::vec(top, 1..=24), parties as usize),
            proptest::collection::vec(prop_oneof![3 => Just(false), 1 => Just(true)], parties as usize),
        )
            .prop_map(move |(scripts, drops)| ThreadCase {
                parties,
                callers_only,
                park,
                rounds,
                rx_delay,
                scripts,
                drops,
            })
    });
    // "Pulse" cases: everybody votes at once while a parked receiver makes its one and only poll after a
    // generated delay: aims the completing vote at the inside of Receiver::poll (load / register / load).
    let pulse = (2u8..=3, 0u16..=400, proptest::collection::vec(0u8..=3, 3)).prop_map(|(parties, rx_delay, pre)| ThreadCase {
        parties,
        callers_only: false,
        park: true,
        rounds: 1,
        rx_delay,
        scripts: (0..parties as usize)
            .map(|i| {
                let mut s = vec![TOp::Y; (pre[i] % 2) as usize];
                if pre[i] >= 2 {
                    s.extend([TOp::V, TOp::R]);
                }
                s.push(TOp::V);
                s
            })
            .collect(),
        drops: vec![false; parties as usize],
    });
    prop_oneof![3 => general, 2 => pulse]
}

#[derive(Default)]
struct PartyReport {
    /// vote() calls that returned Unanimous
    vote_unanimous: u32,
    /// rescind() told Unanimous with / without an own vote outstanding
    rescind_unanimous_own: u32,
    rescind_unanimous_no_own: u32,
    rescind_pending: u32,
    /// the party's last word: its vote is withdrawn (rescind told UnanimityPending, no vote since)
    withdrawn_at_end: bool,
    /// own vote outstanding at the end by local knowledge
    own_at_end: bool,
    dropped_own: bool,
    voter: Option<Voter>,
    fails: Vec<(String, String)>,
}

struct Shared {
    n: usize,
    /// set by the receiver thread after its poll returned Ready
    ready_seen: AtomicBool,
    voters_done: AtomicBool,
    barrier: Barrier,
}

fn party_thread(shared: &Shared, case: &ThreadCase, i: usize, voter: Voter) -> PartyReport {
    let mut rep = PartyReport::default();
    let n = shared.n;
    let mut own = false;
    let mut withdrawn = false;
    let mut told = false;
    shared.barrier.wait();
    'outer: for _ in 0..case.rounds {
        for op in &case.scripts[i] {
            if case.callers_only && told {
                break 'outer;
            }
            match op {
                TOp::Y => std::thread::yield_now(),
                TOp::V => {
                    if withdrawn && shared.ready_seen.load(Ordering::SeqCst) {
                        rep.fails.push((
                            format!("stopped-while-vote-withdrawn:{}p/threads", n),
                            format!("party {} was told UnanimityPending by rescind and had not voted again, yet the receiver completed", i),
                        ));
                    }
                    let r = voter.vote();
                    own = true;
                    withdrawn = false;
                    if r == VoteResult::Unanimous {
                        rep.vote_unanimous += 1;
                        told = true;
                    }
                }
                TOp::R => {
                    if case.callers_only && !own {
                        continue;
                    }
                    let seen_before = shared.ready_seen.load(Ordering::SeqCst);
                    match voter.rescind() {
                        VoteResult::Unanimous => {
                            told = true;
                            if own {
                                rep.rescind_unanimous_own += 1;
                            } else {
                                rep.rescind_unanimous_no_own += 1;
                            }
                        }
                        VoteResult::UnanimityPending => {
                            rep.rescind_pending += 1;
                            if seen_before {
                                rep.fails.push((
                                    format!("rescind-pending-after-unanimity:{}p/threads", n),
                                    format!("party {}: the receiver had already completed before rescind() was called, but it returned UnanimityPending", i),
                                ));
                            }
                            if own {
                                withdrawn = true;
                            }
                            own = false;
                            if shared.ready_seen.load(Ordering::SeqCst) && !seen_before {
                                rep.fails.push((
                                    format!("stopped-while-vote-withdrawn:{}p/threads", n),
                                    format!("party {}: rescind() returned UnanimityPending but the receiver completed by the time it returned", i),
                                ));
                            }
                        }
                    }
                }
            }
        }
    }
    rep.withdrawn_at_end = withdrawn;
    rep.own_at_end = own;
    if case.drops[i] {
        drop(voter);
        rep.dropped_own = true;
    } else {
        rep.voter = Some(voter);
    }
    rep
}

enum RxEnd {
    Ready,
    /// last poll returned Pending with this wake count
    Pending(usize),
}

fn rx_thread(shared: &Shared, park: bool, delay: u16, mut rx: Receiver, w: Arc<CountWaker>) -> (Receiver, RxEnd, u64) {
    let waker = Waker::from(w.clone());
    let mut cx = Context::from_waker(&waker);
    let mut polls = 0u64;
    shared.barrier.wait();
    loop {
        polls += 1;
        for _ in 0..delay {
            std::hint::spin_loop();
        }
        // wake count BEFORE the poll: a wake that arrives at any time after the poll started counts
        let c0 = w.count();
        match Pin::new(&mut rx).poll(&mut cx) {
            Poll::Ready(()) => {
                shared.ready_seen.store(true, Ordering::SeqCst);
                return (rx, RxEnd::Ready, polls);
            }
            Poll::Pending => {
                if park {
                    loop {
                        if w.count() > c0 {
                            break;
                        }
                        if shared.voters_done.load(Ordering::SeqCst) {
                            return (rx, RxEnd::Pending(c0), polls);
                        }
                        std::thread::yield_now();
                    }
                } else {
                    if shared.voters_done.load(Ordering::SeqCst) {
                        return (rx, RxEnd::Pending(c0), polls);
                    }
                    std::thread::yield_now();
                }
            }
        }
    }
}

pub fn check(case: &ThreadCase) -> Verdict {
    let mut v = Verdict::new();
    let n = case.parties as usize;
    if case.scripts.len() != n || case.drops.len() != n {
        return v;
    }
    let (voters, rx): (Vec<Voter>, Receiver) = if n == 2 {
        let (a, b, rx) = downlink_timeout_coordinator();
        (vec![a, b], rx)
    } else {
        let (a, b, c, rx) = agent_timeout_coordinator();
        (vec![a, b, c], rx)
    };
    let shared = Shared {
        n,
        ready_seen: AtomicBool::new(false),
        voters_done: AtomicBool::new(false),
        barrier: Barrier::new(n + 1),
    };
    let w = CountWaker::new();
    let reports: Mutex<Vec<Option<PartyReport>>> = Mutex::new((0..n).map(|_| None).collect());
    let (mut rx, rx_end, _polls) = std::thread::scope(|scope| {
        let shared = &shared;
        let rxh = {
            let w = w.clone();
            let park = case.park;
            let delay = case.rx_delay;
            scope.spawn(move || rx_thread(shared, park, delay, rx, w))
        };
        let handles: Vec<_> = voters
            .into_iter()
            .enumerate()
            .map(|(i, voter)| scope.spawn(move || party_thread(shared, case, i, voter)))
            .collect();
        let mut panicked = false;
        for (i, h) in handles.into_iter().enumerate() {
            // a panic in the code under test must not hang the receiver thread
            match h.join() {
                Ok(rep) => reports.lock().unwrap()[i] = Some(rep),
                Err(_) => panicked = true,
            }
        }
        shared.voters_done.store(true, Ordering::SeqCst);
        let r = rxh.join();
        if panicked || r.is_err() {
            panic!("a voter or receiver thread panicked inside the coordinator (message on stderr)");
        }
        r.unwrap()
    });
    // Single-threaded from here on.
    let mut reports: Vec<PartyReport> = reports.into_inner().unwrap().into_iter().map(|r| r.unwrap()).collect();
    for r in reports.iter_mut() {
        for (s, d) in r.fails.drain(..) {
            v.fail(s, d);
        }
    }
    let waker = Waker::from(w.clone());
    let mut cx = Context::from_waker(&waker);
    let mut ready = matches!(rx_end, RxEnd::Ready);
    if let RxEnd::Pending(c0) = rx_end {
        // All voter threads have finished: nothing changes any more.
        let woken = w.count() > c0;
        if let Poll::Ready(()) = Pin::new(&mut rx).poll(&mut cx) {
            ready = true;
            if case.park && !woken {
                v.fail(
                    format!("receiver-not-woken:{}p/threads", n),
                    "the receiver's last poll returned Pending, its waker was never woken afterwards, yet unanimity was reached: a parked receiver would sleep forever".to_string(),
                );
            }
        }
    }
    let vote_unanimous: u32 = reports.iter().map(|r| r.vote_unanimous).sum();
    let resc_own: u32 = reports.iter().map(|r| r.rescind_unanimous_own).sum();
    let resc_no_own: u32 = reports.iter().map(|r| r.rescind_unanimous_no_own).sum();
    let resc_pending: u32 = reports.iter().map(|r| r.rescind_pending).sum();
    if vote_unanimous > 1 {
        v.fail(
            format!("unanimity-reached-twice:{}p/threads", n),
            format!("{} vote() calls were told they completed unanimity; it can only be reached once if it is never undone", vote_unanimous),
        );
    }
    if !ready {
        // told Unanimous => will see the runtime stop. Nothing can change any more except drops.
        if vote_unanimous > 0 {
            v.fail(
                format!("vote-unanimous-without-unanimity:{}p/threads", n),
                "a vote() was told Unanimous but the receiver never completed".to_string(),
            );
        }
        if resc_own > 0 {
            v.fail(
                format!("rescind-unanimous-without-unanimity:{}p/own-vote-outstanding", n),
                "[threads] a rescind() was told Unanimous but the receiver never completed".to_string(),
            );
        }
        if resc_no_own > 0 {
            v.fail(
                format!("rescind-unanimous-without-unanimity:{}p/no-own-vote", n),
                "[threads] a rescind() by a party without an outstanding vote was told Unanimous but the receiver never completed".to_string(),
            );
        }
    } else {
        // The stop happened: every party must have an outstanding vote or be gone (nothing was dropped by
        // the harness yet, and a finished thread cannot change its mind).
        for (i, r) in reports.iter().enumerate() {
            if !(r.own_at_end || r.dropped_own) {
                let sig = if r.withdrawn_at_end {
                    format!("stopped-while-vote-withdrawn:{}p/threads", n)
                } else {
                    format!("receiver-ready-without-unanimity:{}p/threads", n)
                };
                v.fail(
                    sig,
                    format!("the receiver completed although party {} ended without an outstanding vote (its last word was {}) and its voter was still alive", i, if r.withdrawn_at_end { "a rescind told UnanimityPending" } else { "never to vote / a rescind without vote" }),
                );
            }
        }
    }
    // Every task disappears: the receiver must complete.
    let withdrawn_dropped = reports.iter().any(|r| r.withdrawn_at_end);
    let any_script_drop = reports.iter().any(|r| r.dropped_own);
    for r in reports.iter_mut() {
        r.voter = None;
    }
    if !ready {
        match Pin::new(&mut rx).poll(&mut cx) {
            Poll::Ready(()) => {}
            Poll::Pending => {
                let sig = if withdrawn_dropped {
                    format!("drop-after-rescind-not-counted:{}p", n)
                } else {
                    format!("receiver-pending-after-unanimity:{}p/threads", n)
                };
                v.fail(sig, "[threads] every voter has been dropped but the receiver is still pending".to_string());
            }
        }
    }
    v.class_if(ready, "unanimity-reached");
    v.class_if(resc_pending > 0, "rescind-withdrew-vote");
    v.class_if(resc_own + resc_no_own > 0, "rescind-told-unanimous");
    v.class_if(case.park, "receiver-parks");
    v.class_if(any_script_drop, "script-drops-voter");
    if resc_pending > 0 && (ready || any_script_drop) {
        v.nontrivial();
    }
    v
}
