//! C14 Supply lanes, command lanes and agent-sent commands are never coalesced.
//!
//! Three sub-checks, all on the real agent model + agent runtime inside the `vsim` executor:
//!   supply-lane     (sup.rs)     SimAgent.sup, bursts of 1-500 items, slow / linking / unlinking remotes
//!   command-lane    (cmdlane.rs) SimAgent.cmd and .ctl, bursts of command envelopes from several remotes
//!   agent-commands  (sent.rs)    own agent (cagent.rs) using send_command / SendCommand / Commander to
//!                                1-3 targets; the harness serves LinkRequest::Commander (vsim::links)

mod boundary;
mod cagent;
mod cmdlane;
mod sent;
mod sup;
mod util;

use vcommon::Ctx;

fn main() {
    let args: Vec<String> = std::env::args().skip(1).collect();
    if std::env::var("VERIF_TRACE_LOG").is_ok() {
        // development aid: the runtime's own tracing output on stderr (use with --replay)
        tracing_subscriber::fmt()
            .with_max_level(tracing::Level::TRACE)
            .with_writer(std::io::stderr)
            .init();
    }
    let mut ctx = Ctx::new("C14", &args);
    ctx.rule(
        "op lists owning the schedule (remote/target writes <=n bytes, reads <=n bytes, poll system <=k, settle, advance) \
         with byte channels of 1..4096 bytes, generated lane buffer sizes, coop budget and select seed. \
         supply-lane: programs push bursts of 1-500 unique items to SimAgent.sup (optionally interleaved with value lane sets \
         sharing the remote's writer) while 1-4 remotes link/unlink/sync/read slowly; non-trivial = some remote that had read \
         `linked` before a burst read nothing from the start of the burst until the system went idle after it, and more bytes \
         of that burst than its channel capacity were still undelivered at that point. \
         command-lane: bursts of 1-300 command envelopes from 1-4 remotes to the lanes cmd and ctl; non-trivial = some remote \
         burst was larger than its request channel and a write of it blocked on the full channel (agent stalled) and >=2 \
         of its commands were handled. \
         agent-commands: programs of 1-400 sends to 1-3 targets (local lanes, two lanes on one remote host, second host) through \
         send_command / SendCommand(overwrite=false) / Commander::send / Commander::send_queued; the harness answers the \
         commander link requests with channels of generated capacity (possibly late) and drains them at a generated pace; \
         non-trivial = for some program and target channel, the target read nothing from the start of the program until \
         the system went idle after it and more bytes of that program's commands than the channel capacity were forwarded \
         after that point. agent-commands-boundary: one agent creates and keeps 65 530-65 540 commanders for distinct targets in 2-3 chunks and sends through the first, numbers 65 533-65 537, the last and random ones before and after the end of the u16 id space; non-trivial = >=65 536 distinct registrations were attempted and >=2 commands went through commanders numbered >=65 530. Distinct by the Debug form of the case.",
    );
    ctx.assume("the agent-side traces (program begin/end, on_command, send records) are the ground truth for what was pushed / handled / sent and in which order (handlers run synchronously on the agent task)");
    ctx.assume("single-threaded harness-owned schedule; byte-level interleavings of agent task vs remotes and targets; oracles are invariants over the global sequence-numbered history");
    ctx.assume("targets never fail or refuse a channel (a failed target legitimately loses commands); no store; the agent is not stopped during a case");

    let max_ops = ctx.pick(70, 160);
    let n = ctx.pick(6_500, 150_000);
    ctx.prop("supply-lane", n, move || sup::arb_case(max_ops), sup::check);
    let n = ctx.pick(4_000, 80_000);
    ctx.prop("command-lane", n, move || cmdlane::arb_case(max_ops), cmdlane::check);
    let n = ctx.pick(6_500, 150_000);
    ctx.prop("agent-commands", n, move || sent::arb_case(max_ops, false), sent::check);
    let n = ctx.pick(6_500, 150_000);
    ctx.prop("agent-commands-commander", n, move || sent::arb_case(max_ops, true), sent::check);
    // boundary regime: big cases (65 540 commander registrations each), a small number per run
    let n = ctx.pick(320, 20_000);
    ctx.prop("agent-commands-boundary", n, boundary::arb_case, boundary::check);
    ctx.finish();
}
