//! The codec families under test: for each *decoder* exported by the repository, the encoder(s)
//! whose output the repository feeds it, conversions between the harness model and the real
//! message types, and the wire layout (field offsets) used to aim mutations.
use crate::model::*;
use bytes::{BufMut, Bytes, BytesMut};
use proptest::prelude::*;
use std::fmt::Debug;
use swimos_agent_protocol::encoding::{command::*, downlink::*, lane::*, map::*, store::*};
use swimos_agent_protocol::{
    CommandMessage, DownlinkNotification, DownlinkOperation, LaneRequest, LaneResponse, MapMessage,
    MapOperation, StoreInitMessage, StoreInitialized, StoreResponse,
};
use swimos_api::address::{Address, RelativeAddress};
use swimos_form::read::RecognizerReadable;
use swimos_messages::protocol::{
    Notification, Operation, RawRequestMessageDecoder, RawRequestMessageEncoder,
    RawResponseMessageDecoder, RawResponseMessageEncoder, RequestMessage, RequestMessageDecoder,
    ResponseMessage, ResponseMessageEncoder,
};
use swimos_model::Value;
use swimos_recon::{WithLenRecognizerDecoder, WithLenReconEncoder};
use swimos_utilities::encoding::{BytesStr, WithLengthBytesCodec};
use tokio_util::codec::{Decoder, Encoder};
use uuid::Uuid;
use vgen::V;

type VRec = <Value as RecognizerReadable>::Rec;

// ---------------------------------------------------------------------------------------------
// Type-erased decoder

pub trait Dec {
    fn decode(&mut self, buf: &mut BytesMut) -> Result<Option<Msg>, String>;
    fn decode_eof(&mut self, buf: &mut BytesMut) -> Result<Option<Msg>, String>;
}

struct Adapt<D, F>(D, F);

impl<D, F> Dec for Adapt<D, F>
where
    D: Decoder,
    D::Error: Debug,
    F: Fn(D::Item) -> Msg,
{
    fn decode(&mut self, buf: &mut BytesMut) -> Result<Option<Msg>, String> {
        self.0.decode(buf).map(|o| o.map(&self.1)).map_err(|e| format!("{:?}", e))
    }
    fn decode_eof(&mut self, buf: &mut BytesMut) -> Result<Option<Msg>, String> {
        self.0.decode_eof(buf).map(|o| o.map(&self.1)).map_err(|e| format!("{:?}", e))
    }
}

fn adapt<D, F>(d: D, f: F) -> Box<dyn Dec>
where
    D: Decoder + 'static,
    D::Error: Debug,
    F: Fn(D::Item) -> Msg + 'static,
{
    Box::new(Adapt(d, f))
}

fn enc<E: Encoder<T>, T>(mut e: E, item: T, dst: &mut BytesMut)
where
    E::Error: Debug,
{
    e.encode(item, dst).expect("harness: encoder failed");
}

// ---------------------------------------------------------------------------------------------
// Model <-> real body types

pub trait ScIn: Sized {
    fn of(s: &Sc) -> Self;
}
impl ScIn for Vec<u8> {
    fn of(s: &Sc) -> Self {
        s.wire()
    }
}
impl ScIn for Value {
    fn of(s: &Sc) -> Self {
        s.value()
    }
}

pub trait BIn: Sized {
    fn of(b: &Bd) -> Self;
}
impl BIn for Vec<u8> {
    fn of(b: &Bd) -> Self {
        match b {
            Bd::S(s) => s.wire(),
            o => panic!("harness: scalar body expected, got {:?}", o),
        }
    }
}
impl BIn for Value {
    fn of(b: &Bd) -> Self {
        match b {
            Bd::S(s) => s.value(),
            o => panic!("harness: scalar body expected, got {:?}", o),
        }
    }
}
impl<B: ScIn> BIn for MapMessage<B, B> {
    fn of(b: &Bd) -> Self {
        match b {
            Bd::Upd(k, v) => MapMessage::Update { key: B::of(k), value: B::of(v) },
            Bd::Rem(k) => MapMessage::Remove { key: B::of(k) },
            Bd::Clear => MapMessage::Clear,
            Bd::Take(n) => MapMessage::Take(*n),
            Bd::Drop(n) => MapMessage::Drop(*n),
            o => panic!("harness: map body expected, got {:?}", o),
        }
    }
}
impl<B: ScIn> BIn for MapOperation<B, B> {
    fn of(b: &Bd) -> Self {
        match b {
            Bd::Upd(k, v) => MapOperation::Update { key: B::of(k), value: B::of(v) },
            Bd::Rem(k) => MapOperation::Remove { key: B::of(k) },
            Bd::Clear => MapOperation::Clear,
            o => panic!("harness: map operation expected, got {:?}", o),
        }
    }
}

pub trait ScOut {
    fn sc(self) -> Sc;
}
impl ScOut for BytesMut {
    fn sc(self) -> Sc {
        Sc::Bytes(self.to_vec())
    }
}
impl ScOut for Bytes {
    fn sc(self) -> Sc {
        Sc::Bytes(self.to_vec())
    }
}
impl ScOut for Value {
    fn sc(self) -> Sc {
        Sc::Recon(V::from_value(&self))
    }
}
impl ScOut for i32 {
    fn sc(self) -> Sc {
        Sc::Recon(V::I32(self))
    }
}

pub trait BOut {
    fn bd(self) -> Bd;
}
impl BOut for BytesMut {
    fn bd(self) -> Bd {
        Bd::S(self.sc())
    }
}
impl BOut for Bytes {
    fn bd(self) -> Bd {
        Bd::S(self.sc())
    }
}
impl BOut for Value {
    fn bd(self) -> Bd {
        Bd::S(self.sc())
    }
}
impl BOut for i32 {
    fn bd(self) -> Bd {
        Bd::S(self.sc())
    }
}
impl<K: ScOut, W: ScOut> BOut for MapMessage<K, W> {
    fn bd(self) -> Bd {
        match self {
            MapMessage::Update { key, value } => Bd::Upd(key.sc(), value.sc()),
            MapMessage::Remove { key } => Bd::Rem(key.sc()),
            MapMessage::Clear => Bd::Clear,
            MapMessage::Take(n) => Bd::Take(n),
            MapMessage::Drop(n) => Bd::Drop(n),
        }
    }
}
impl<K: ScOut, W: ScOut> BOut for MapOperation<K, W> {
    fn bd(self) -> Bd {
        match self {
            MapOperation::Update { key, value } => Bd::Upd(key.sc(), value.sc()),
            MapOperation::Remove { key } => Bd::Rem(key.sc()),
            MapOperation::Clear => Bd::Clear,
        }
    }
}

fn bare<B: BIn>(m: &Msg) -> B {
    match m {
        Msg::Body(b) => B::of(b),
        o => panic!("harness: bare body expected, got {:?}", o),
    }
}
fn from_bare<B: BOut>(b: B) -> Msg {
    Msg::Body(b.bd())
}

fn lane_req<B: BIn>(m: &Msg) -> LaneRequest<B> {
    match m {
        Msg::ReqCommand(b) => LaneRequest::Command(B::of(b)),
        Msg::ReqInit => LaneRequest::InitComplete,
        Msg::ReqSync(id) => LaneRequest::Sync(Uuid::from_u128(*id)),
        o => panic!("harness: lane request expected, got {:?}", o),
    }
}
fn from_lane_req<B: BOut>(r: LaneRequest<B>) -> Msg {
    match r {
        LaneRequest::Command(b) => Msg::ReqCommand(b.bd()),
        LaneRequest::InitComplete => Msg::ReqInit,
        LaneRequest::Sync(id) => Msg::ReqSync(id.as_u128()),
    }
}
fn lane_resp<B: BIn>(m: &Msg) -> LaneResponse<B> {
    match m {
        Msg::RespEvent(b) => LaneResponse::StandardEvent(B::of(b)),
        Msg::RespInit => LaneResponse::Initialized,
        Msg::RespSyncEvent(id, b) => LaneResponse::SyncEvent(Uuid::from_u128(*id), B::of(b)),
        Msg::RespSynced(id) => LaneResponse::Synced(Uuid::from_u128(*id)),
        o => panic!("harness: lane response expected, got {:?}", o),
    }
}
fn from_lane_resp<B: BOut>(r: LaneResponse<B>) -> Msg {
    match r {
        LaneResponse::StandardEvent(b) => Msg::RespEvent(b.bd()),
        LaneResponse::Initialized => Msg::RespInit,
        LaneResponse::SyncEvent(id, b) => Msg::RespSyncEvent(id.as_u128(), b.bd()),
        LaneResponse::Synced(id) => Msg::RespSynced(id.as_u128()),
    }
}
fn store_init<B: BIn>(m: &Msg) -> StoreInitMessage<B> {
    match m {
        Msg::StoreCommand(b) => StoreInitMessage::Command(B::of(b)),
        Msg::StoreInitDone => StoreInitMessage::InitComplete,
        o => panic!("harness: store init message expected, got {:?}", o),
    }
}
fn from_store_init<B: BOut>(r: StoreInitMessage<B>) -> Msg {
    match r {
        StoreInitMessage::Command(b) => Msg::StoreCommand(b.bd()),
        StoreInitMessage::InitComplete => Msg::StoreInitDone,
    }
}
fn store_resp<B: BIn>(m: &Msg) -> StoreResponse<B> {
    match m {
        Msg::StoreResp(b) => StoreResponse::new(B::of(b)),
        o => panic!("harness: store response expected, got {:?}", o),
    }
}
fn from_store_resp<B: BOut>(r: StoreResponse<B>) -> Msg {
    Msg::StoreResp(r.message.bd())
}
fn from_notif<B: BOut>(r: DownlinkNotification<B>) -> Msg {
    match r {
        DownlinkNotification::Linked => Msg::Linked,
        DownlinkNotification::Synced => Msg::Synced,
        DownlinkNotification::Unlinked => Msg::Unlinked,
        DownlinkNotification::Event { body } => Msg::Event(body.bd()),
    }
}
fn addr(host: &Option<String>, node: &str, lane: &str) -> Address<String> {
    Address { host: host.clone(), node: node.to_string(), lane: lane.to_string() }
}
fn cmd<B: ScIn>(m: &Msg) -> CommandMessage<String, B> {
    match m {
        Msg::CmdRegister { host, node, lane, id } => CommandMessage::Register { address: addr(host, node, lane), id: *id },
        Msg::CmdAddressed { host, node, lane, body, ow } => CommandMessage::Addressed {
            target: addr(host, node, lane),
            command: B::of(body),
            overwrite_permitted: *ow,
        },
        Msg::CmdRegistered { id, body, ow } => CommandMessage::Registered {
            target: *id,
            command: B::of(body),
            overwrite_permitted: *ow,
        },
        o => panic!("harness: command message expected, got {:?}", o),
    }
}
fn from_cmd<S: AsRef<str>, B: ScOut>(r: CommandMessage<S, B>) -> Msg {
    match r {
        CommandMessage::Register { address: Address { host, node, lane }, id } => Msg::CmdRegister {
            host: host.map(|h| h.as_ref().to_string()),
            node: node.as_ref().to_string(),
            lane: lane.as_ref().to_string(),
            id,
        },
        CommandMessage::Addressed { target: Address { host, node, lane }, command, overwrite_permitted } => {
            Msg::CmdAddressed {
                host: host.map(|h| h.as_ref().to_string()),
                node: node.as_ref().to_string(),
                lane: lane.as_ref().to_string(),
                body: command.sc(),
                ow: overwrite_permitted,
            }
        }
        CommandMessage::Registered { target, command, overwrite_permitted } => {
            Msg::CmdRegistered { id: target, body: command.sc(), ow: overwrite_permitted }
        }
    }
}
fn routed_req(m: &Msg) -> RequestMessage<String, Vec<u8>> {
    match m {
        Msg::Routed { origin, node, lane, env } => RequestMessage {
            origin: Uuid::from_u128(*origin),
            path: RelativeAddress::new(node.clone(), lane.clone()),
            envelope: match env {
                Env::Link => Operation::Link,
                Env::Sync => Operation::Sync,
                Env::Unlink => Operation::Unlink,
                Env::Command(s) => Operation::Command(s.wire()),
                o => panic!("harness: request envelope expected, got {:?}", o),
            },
        },
        o => panic!("harness: routed message expected, got {:?}", o),
    }
}
fn from_routed_req<P: AsRef<str>, B: ScOut>(r: RequestMessage<P, B>) -> Msg {
    Msg::Routed {
        origin: r.origin.as_u128(),
        node: r.path.node.as_ref().to_string(),
        lane: r.path.lane.as_ref().to_string(),
        env: match r.envelope {
            Operation::Link => Env::Link,
            Operation::Sync => Env::Sync,
            Operation::Unlink => Env::Unlink,
            Operation::Command(b) => Env::Command(b.sc()),
        },
    }
}
fn routed_resp<B: ScIn>(m: &Msg) -> ResponseMessage<String, B, Vec<u8>> {
    match m {
        Msg::Routed { origin, node, lane, env } => ResponseMessage {
            origin: Uuid::from_u128(*origin),
            path: RelativeAddress::new(node.clone(), lane.clone()),
            envelope: match env {
                Env::Linked => Notification::Linked,
                Env::Synced => Notification::Synced,
                Env::Unlinked(b) => Notification::Unlinked(b.clone()),
                Env::Event(s) => Notification::Event(B::of(s)),
                o => panic!("harness: response envelope expected, got {:?}", o),
            },
        },
        o => panic!("harness: routed message expected, got {:?}", o),
    }
}
fn from_routed_resp<P: AsRef<str>>(r: ResponseMessage<P, Bytes, Bytes>) -> Msg {
    Msg::Routed {
        origin: r.origin.as_u128(),
        node: r.path.node.as_ref().to_string(),
        lane: r.path.lane.as_ref().to_string(),
        env: match r.envelope {
            Notification::Linked => Env::Linked,
            Notification::Synced => Env::Synced,
            Notification::Unlinked(b) => Env::Unlinked(b.map(|b| b.to_vec())),
            Notification::Event(b) => Env::Event(b.sc()),
        },
    }
}

// ---------------------------------------------------------------------------------------------
// Wire layout

#[derive(Clone, Copy, Debug, PartialEq, Eq)]
pub enum FK {
    /// One-byte tag and the values the decoder under test must accept at this position.
    Tag(&'static [u8]),
    /// Tag in the top three bits of the byte (routed messages).
    Tag3(&'static [u8]),
    Len64,
    /// 61 bit length below a three bit tag.
    Len61,
    Len32,
    Uuid,
    /// Fixed width number that is not a length (ids, take/drop counts).
    Num,
    /// Command flags (every bit pattern is accepted by `from_bits_truncate`).
    Flags,
    Body,
}

impl FK {
    pub fn name(&self) -> &'static str {
        match self {
            FK::Tag(_) | FK::Tag3(_) => "Tag",
            FK::Len64 | FK::Len61 | FK::Len32 => "Len",
            FK::Uuid => "Uuid",
            FK::Num => "Num",
            FK::Flags => "Flags",
            FK::Body => "Body",
        }
    }
    pub fn is_len(&self) -> bool {
        matches!(self, FK::Len64 | FK::Len61 | FK::Len32)
    }
    pub fn is_tag(&self) -> bool {
        matches!(self, FK::Tag(_) | FK::Tag3(_) | FK::Flags)
    }
}

#[derive(Clone, Copy, Debug)]
pub struct Field {
    pub off: usize,
    pub width: usize,
    pub kind: FK,
    /// Length field that alone decides where the frame ends and after which no other length is
    /// read from a position that depends on it (so enlarging it on the last frame of a stream
    /// provably leaves the frame incomplete).
    pub extent: bool,
}

pub const MSG_TAGS: &[u8] = &[0, 1, 2, 3, 4];
pub const OP_TAGS: &[u8] = &[0, 1, 2];
const REQ_TAGS: &[u8] = &[0, 1, 4];
const RESP_TAGS: &[u8] = &[3, 5, 1, 2];
const STORE_INIT_TAGS: &[u8] = &[0, 4];
const STORE_INITIALIZED_TAGS: &[u8] = &[5];
const STORE_RESP_TAGS: &[u8] = &[3];
const NOTIF_TAGS: &[u8] = &[1, 2, 3, 4];
pub const ROUTED_REQ_TAGS: &[u8] = &[0, 1, 2, 3];
pub const ROUTED_RESP_TAGS: &[u8] = &[4, 5, 6, 7];

struct Lay {
    off: usize,
    out: Vec<Field>,
}
impl Lay {
    fn put(&mut self, width: usize, kind: FK) {
        self.out.push(Field { off: self.off, width, kind, extent: false });
        self.off += width;
    }
    fn ext(&mut self, width: usize, kind: FK) {
        self.out.push(Field { off: self.off, width, kind, extent: true });
        self.off += width;
    }
    fn scalar(&mut self, s: &Sc) {
        self.ext(8, FK::Len64);
        self.put(s.wire().len(), FK::Body);
    }
    fn map(&mut self, b: &Bd, tags: &'static [u8]) {
        self.ext(8, FK::Len64);
        self.put(1, FK::Tag(tags));
        match b {
            Bd::Upd(k, v) => {
                self.put(8, FK::Len64);
                self.put(k.wire().len(), FK::Body);
                self.put(v.wire().len(), FK::Body);
            }
            Bd::Rem(k) => self.put(k.wire().len(), FK::Body),
            Bd::Clear => {}
            Bd::Take(_) | Bd::Drop(_) => self.put(8, FK::Num),
            Bd::S(_) => unreachable!(),
        }
    }
    fn body(&mut self, b: &Bd, tags: &'static [u8]) {
        match b {
            Bd::S(s) => self.scalar(s),
            m => self.map(m, tags),
        }
    }
    fn address(&mut self, host: &Option<String>, node: &str, lane: &str, last: bool) {
        // In a `Register` frame nothing length-dependent follows the address; in an `Addressed`
        // frame the body length is read from a position that depends on these three.
        let put = if last { Lay::ext } else { Lay::put };
        if host.is_some() {
            put(self, 8, FK::Len64);
        }
        put(self, 8, FK::Len64);
        put(self, 8, FK::Len64);
        if let Some(h) = host {
            self.put(h.len(), FK::Body);
        }
        self.put(node.len(), FK::Body);
        self.put(lane.len(), FK::Body);
    }
}

/// Field offsets of the frame that encodes `m` for family `fam` (offsets relative to the frame).
pub fn layout(fam: &Fam, m: &Msg, frame_len: usize) -> Vec<Field> {
    let mut l = Lay { off: 0, out: vec![] };
    let mt = fam.map_tags;
    match m {
        Msg::Body(b) => l.body(b, mt),
        Msg::ReqCommand(b) => {
            l.put(1, FK::Tag(REQ_TAGS));
            l.body(b, mt);
        }
        Msg::ReqInit => l.put(1, FK::Tag(REQ_TAGS)),
        Msg::ReqSync(_) => {
            l.put(1, FK::Tag(REQ_TAGS));
            l.put(16, FK::Uuid);
        }
        Msg::RespEvent(b) => {
            l.put(1, FK::Tag(RESP_TAGS));
            l.body(b, mt);
        }
        Msg::RespInit => l.put(1, FK::Tag(RESP_TAGS)),
        Msg::RespSyncEvent(_, b) => {
            l.put(1, FK::Tag(RESP_TAGS));
            l.put(16, FK::Uuid);
            l.body(b, mt);
        }
        Msg::RespSynced(_) => {
            l.put(1, FK::Tag(RESP_TAGS));
            l.put(16, FK::Uuid);
        }
        Msg::StoreCommand(b) => {
            l.put(1, FK::Tag(STORE_INIT_TAGS));
            l.body(b, mt);
        }
        Msg::StoreInitDone => l.put(1, FK::Tag(STORE_INIT_TAGS)),
        Msg::StoreInitialized => l.put(1, FK::Tag(STORE_INITIALIZED_TAGS)),
        Msg::StoreResp(b) => {
            l.put(1, FK::Tag(STORE_RESP_TAGS));
            l.body(b, mt);
        }
        Msg::Linked | Msg::Synced | Msg::Unlinked => l.put(1, FK::Tag(NOTIF_TAGS)),
        Msg::Event(b) => {
            l.put(1, FK::Tag(NOTIF_TAGS));
            match b {
                Bd::S(s) => l.scalar(s),
                m => {
                    l.ext(8, FK::Len64);
                    l.map(m, mt);
                }
            }
        }
        Msg::CmdRegister { host, node, lane, .. } => {
            l.put(1, FK::Flags);
            l.address(host, node, lane, true);
            l.put(2, FK::Num);
        }
        Msg::CmdAddressed { host, node, lane, body, .. } => {
            l.put(1, FK::Flags);
            l.address(host, node, lane, false);
            l.scalar(body);
        }
        Msg::CmdRegistered { body, .. } => {
            l.put(1, FK::Flags);
            l.put(2, FK::Num);
            l.scalar(body);
        }
        Msg::Routed { node, lane, env, .. } => {
            l.put(16, FK::Uuid);
            l.ext(4, FK::Len32);
            l.ext(4, FK::Len32);
            l.out.push(Field { off: l.off, width: 1, kind: FK::Tag3(fam.map_tags), extent: false });
            l.ext(8, FK::Len61);
            l.put(node.len(), FK::Body);
            l.put(lane.len(), FK::Body);
            let n = match env {
                Env::Command(s) | Env::Event(s) => s.wire().len(),
                Env::Unlinked(Some(b)) => b.len(),
                _ => 0,
            };
            l.put(n, FK::Body);
        }
    }
    assert!(
        l.off == frame_len,
        "harness: layout of {:?} for {} covers {} bytes but the frame has {}",
        m,
        fam.name,
        l.off,
        frame_len
    );
    l.out
}

// ---------------------------------------------------------------------------------------------
// Family table

pub struct Fam {
    pub name: &'static str,
    pub group: &'static str,
    /// The decoder yields byte bodies (held to the re-encode rule).
    pub raw_dec: bool,
    /// Typed decoder instantiated with `i32` (keys and values): most bodies are ill-typed for it.
    pub strict: bool,
    pub enc_raw: bool,
    pub enc_typed: bool,
    /// Valid tags of nested map bodies (or, for routed messages, of the 3 bit tag).
    pub map_tags: &'static [u8],
    pub msgs: fn(ScMode) -> BoxedStrategy<Msg>,
    pub enc: fn(&Msg, bool, &mut BytesMut),
    pub dec: fn() -> Box<dyn Dec>,
    /// Encodes a *decoded* message with the raw encoder of the same wire format.
    pub reenc: Option<fn(&Msg, &mut BytesMut)>,
}

impl Fam {
    pub fn sc_mode(&self) -> ScMode {
        if self.strict {
            ScMode::Strict
        } else if !self.enc_raw {
            ScMode::Compact
        } else if self.raw_dec {
            ScMode::Any
        } else {
            ScMode::ReconText
        }
    }
    /// Encode one message; `typed` asks for the Recon-printing encoder where one exists and can
    /// express the message.
    pub fn encode(&self, m: &Msg, typed: bool, dst: &mut BytesMut) -> bool {
        let can_typed = self.enc_typed && m.scalars().iter().all(|s| s.compact());
        let typed = if !self.enc_raw { true } else { typed && can_typed };
        (self.enc)(m, typed, dst);
        typed
    }
}

fn lane_req_msgs(body: BoxedStrategy<Bd>) -> BoxedStrategy<Msg> {
    prop_oneof![
        5 => body.prop_map(Msg::ReqCommand),
        1 => Just(Msg::ReqInit),
        2 => arb_u128().prop_map(Msg::ReqSync),
    ]
    .boxed()
}
fn lane_resp_msgs(body: BoxedStrategy<Bd>) -> BoxedStrategy<Msg> {
    prop_oneof![
        3 => body.clone().prop_map(Msg::RespEvent),
        1 => Just(Msg::RespInit),
        3 => (arb_u128(), body).prop_map(|(i, b)| Msg::RespSyncEvent(i, b)),
        2 => arb_u128().prop_map(Msg::RespSynced),
    ]
    .boxed()
}
fn store_init_msgs(body: BoxedStrategy<Bd>) -> BoxedStrategy<Msg> {
    prop_oneof![5 => body.prop_map(Msg::StoreCommand), 1 => Just(Msg::StoreInitDone)].boxed()
}
fn notif_msgs(body: BoxedStrategy<Bd>) -> BoxedStrategy<Msg> {
    prop_oneof![
        1 => Just(Msg::Linked),
        1 => Just(Msg::Synced),
        1 => Just(Msg::Unlinked),
        5 => body.prop_map(Msg::Event),
    ]
    .boxed()
}
fn cmd_msgs(mode: ScMode) -> BoxedStrategy<Msg> {
    prop_oneof![
        2 => (arb_host(), arb_name(), arb_name(), prop_oneof![any::<u16>(), 0u16..4])
            .prop_map(|(host, node, lane, id)| Msg::CmdRegister { host, node, lane, id }),
        3 => (arb_host(), arb_name(), arb_name(), arb_sc(mode), any::<bool>())
            .prop_map(|(host, node, lane, body, ow)| Msg::CmdAddressed { host, node, lane, body, ow }),
        3 => (prop_oneof![any::<u16>(), 0u16..4], arb_sc(mode), any::<bool>())
            .prop_map(|(id, body, ow)| Msg::CmdRegistered { id, body, ow }),
    ]
    .boxed()
}
fn routed_req_msgs(mode: ScMode) -> BoxedStrategy<Msg> {
    (
        arb_u128(),
        arb_name(),
        arb_name(),
        prop_oneof![
            1 => Just(Env::Link),
            1 => Just(Env::Sync),
            1 => Just(Env::Unlink),
            4 => arb_sc(mode).prop_map(Env::Command),
        ],
    )
        .prop_map(|(origin, node, lane, env)| Msg::Routed { origin, node, lane, env })
        .boxed()
}
fn routed_resp_msgs(mode: ScMode) -> BoxedStrategy<Msg> {
    (
        arb_u128(),
        arb_name(),
        arb_name(),
        prop_oneof![
            1 => Just(Env::Linked),
            1 => Just(Env::Synced),
            1 => Just(Env::Unlinked(None)),
            1 => proptest::collection::vec(any::<u8>(), 0..12).prop_map(|b| Env::Unlinked(Some(b))),
            4 => arb_sc(mode).prop_map(Env::Event),
        ],
    )
        .prop_map(|(origin, node, lane, env)| Msg::Routed { origin, node, lane, env })
        .boxed()
}

fn notif_enc(m: &Msg, typed: bool, dst: &mut BytesMut) {
    let n: DownlinkNotification<Vec<u8>> = match m {
        Msg::Linked => DownlinkNotification::Linked,
        Msg::Synced => DownlinkNotification::Synced,
        Msg::Unlinked => DownlinkNotification::Unlinked,
        Msg::Event(Bd::S(s)) => DownlinkNotification::Event { body: s.wire() },
        Msg::Event(b) => {
            // The runtime re-encodes the remote map event as a binary map message
            // (swimos_runtime::downlink::interpretation::MapInterpretation).
            let mut t = BytesMut::new();
            if typed {
                enc(MapMessageEncoder::default(), <MapMessage<Value, Value>>::of(b), &mut t);
            } else {
                enc(RawMapMessageEncoder::default(), <MapMessage<Vec<u8>, Vec<u8>>>::of(b), &mut t);
            }
            DownlinkNotification::Event { body: t.to_vec() }
        }
        o => panic!("harness: notification expected, got {:?}", o),
    };
    enc(DownlinkNotificationEncoder, n, dst);
}

type Rmm = MapMessage<Vec<u8>, Vec<u8>>;
type Tmm = MapMessage<Value, Value>;
type Rmo = MapOperation<Vec<u8>, Vec<u8>>;
type Tmo = MapOperation<Value, Value>;

pub fn families() -> Vec<Fam> {
    vec![
        // ---- swimos_utilities::encoding / swimos_recon::encoding -------------------------------
        Fam {
            name: "len-bytes",
            group: "utilities-encoding",
            raw_dec: true,
            strict: false,
            enc_raw: true,
            enc_typed: true,
            map_tags: OP_TAGS,
            msgs: |m| arb_scalar_body(m).prop_map(Msg::Body).boxed(),
            enc: |m, typed, dst| {
                if typed {
                    enc(WithLenReconEncoder, bare::<Value>(m), dst)
                } else {
                    enc(WithLengthBytesCodec, bare::<Vec<u8>>(m), dst)
                }
            },
            dec: || adapt(WithLengthBytesCodec, from_bare::<BytesMut>),
            reenc: Some(|m, dst| enc(WithLengthBytesCodec, bare::<Vec<u8>>(m), dst)),
        },
        Fam {
            name: "len-recon",
            group: "recon-encoding",
            raw_dec: false,
            strict: false,
            enc_raw: true,
            enc_typed: true,
            map_tags: OP_TAGS,
            msgs: |m| arb_scalar_body(m).prop_map(Msg::Body).boxed(),
            enc: |m, typed, dst| {
                if typed {
                    enc(WithLenReconEncoder, bare::<Value>(m), dst)
                } else {
                    enc(WithLengthBytesCodec, bare::<Vec<u8>>(m), dst)
                }
            },
            dec: || adapt(WithLenRecognizerDecoder::new(Value::make_recognizer()), from_bare::<Value>),
            reenc: None,
        },
        // ---- lane requests ---------------------------------------------------------------------
        Fam {
            name: "lane-req-value-raw",
            group: "lane",
            raw_dec: true,
            strict: false,
            enc_raw: true,
            enc_typed: true,
            map_tags: MSG_TAGS,
            msgs: |m| lane_req_msgs(arb_scalar_body(m)),
            enc: |m, typed, dst| {
                if typed {
                    enc(ValueLaneRequestEncoder::default(), lane_req::<Value>(m), dst)
                } else {
                    enc(RawValueLaneRequestEncoder::default(), lane_req::<Vec<u8>>(m), dst)
                }
            },
            dec: || adapt(RawValueLaneRequestDecoder::default(), from_lane_req::<BytesMut>),
            reenc: Some(|m, dst| enc(RawValueLaneRequestEncoder::default(), lane_req::<Vec<u8>>(m), dst)),
        },
        Fam {
            name: "lane-req-value",
            group: "lane",
            raw_dec: false,
            strict: false,
            enc_raw: true,
            enc_typed: true,
            map_tags: MSG_TAGS,
            msgs: |m| lane_req_msgs(arb_scalar_body(m)),
            enc: |m, typed, dst| {
                if typed {
                    enc(ValueLaneRequestEncoder::default(), lane_req::<Value>(m), dst)
                } else {
                    enc(RawValueLaneRequestEncoder::default(), lane_req::<Vec<u8>>(m), dst)
                }
            },
            dec: || adapt(ValueLaneRequestDecoder::<Value>::default(), from_lane_req::<Value>),
            reenc: None,
        },
        Fam {
            name: "lane-req-map-raw",
            group: "lane",
            raw_dec: true,
            strict: false,
            enc_raw: true,
            enc_typed: true,
            map_tags: MSG_TAGS,
            msgs: |m| lane_req_msgs(arb_map_body(m, true)),
            enc: |m, typed, dst| {
                if typed {
                    enc(MapLaneRequestEncoder::default(), lane_req::<Tmm>(m), dst)
                } else {
                    enc(RawMapLaneRequestEncoder::default(), lane_req::<Rmm>(m), dst)
                }
            },
            dec: || adapt(RawMapLaneRequestDecoder::default(), from_lane_req::<MapMessage<BytesMut, BytesMut>>),
            reenc: Some(|m, dst| enc(RawMapLaneRequestEncoder::default(), lane_req::<Rmm>(m), dst)),
        },
        Fam {
            name: "lane-req-map",
            group: "lane",
            raw_dec: false,
            strict: false,
            enc_raw: true,
            enc_typed: true,
            map_tags: MSG_TAGS,
            msgs: |m| lane_req_msgs(arb_map_body(m, true)),
            enc: |m, typed, dst| {
                if typed {
                    enc(MapLaneRequestEncoder::default(), lane_req::<Tmm>(m), dst)
                } else {
                    enc(RawMapLaneRequestEncoder::default(), lane_req::<Rmm>(m), dst)
                }
            },
            dec: || adapt(MapLaneRequestDecoder::<Value, Value>::default(), from_lane_req::<Tmm>),
            reenc: None,
        },
        // ---- lane responses --------------------------------------------------------------------
        Fam {
            name: "lane-resp-value-raw",
            group: "lane",
            raw_dec: true,
            strict: false,
            enc_raw: true,
            enc_typed: true,
            map_tags: OP_TAGS,
            msgs: |m| lane_resp_msgs(arb_scalar_body(m)),
            enc: |m, typed, dst| {
                if typed {
                    enc(ValueLaneResponseEncoder::default(), lane_resp::<Value>(m), dst)
                } else {
                    enc(RawValueLaneResponseEncoder::default(), lane_resp::<Vec<u8>>(m), dst)
                }
            },
            dec: || adapt(RawValueLaneResponseDecoder::default(), from_lane_resp::<BytesMut>),
            reenc: Some(|m, dst| enc(RawValueLaneResponseEncoder::default(), lane_resp::<Vec<u8>>(m), dst)),
        },
        Fam {
            name: "lane-resp-value",
            group: "lane",
            raw_dec: false,
            strict: false,
            enc_raw: true,
            enc_typed: true,
            map_tags: OP_TAGS,
            msgs: |m| lane_resp_msgs(arb_scalar_body(m)),
            enc: |m, typed, dst| {
                if typed {
                    enc(ValueLaneResponseEncoder::default(), lane_resp::<Value>(m), dst)
                } else {
                    enc(RawValueLaneResponseEncoder::default(), lane_resp::<Vec<u8>>(m), dst)
                }
            },
            dec: || adapt(ValueLaneResponseDecoder::<Value>::default(), from_lane_resp::<Value>),
            reenc: None,
        },
        Fam {
            name: "lane-resp-map-raw",
            group: "lane",
            raw_dec: true,
            strict: false,
            enc_raw: true,
            enc_typed: true,
            map_tags: OP_TAGS,
            msgs: |m| lane_resp_msgs(arb_map_body(m, false)),
            enc: |m, typed, dst| {
                if typed {
                    enc(MapLaneResponseEncoder::default(), lane_resp::<Tmo>(m), dst)
                } else {
                    enc(RawMapLaneResponseEncoder::default(), lane_resp::<Rmo>(m), dst)
                }
            },
            dec: || adapt(RawMapLaneResponseDecoder::default(), from_lane_resp::<MapOperation<BytesMut, BytesMut>>),
            reenc: Some(|m, dst| enc(RawMapLaneResponseEncoder::default(), lane_resp::<Rmo>(m), dst)),
        },
        Fam {
            name: "lane-resp-map",
            group: "lane",
            raw_dec: false,
            strict: false,
            enc_raw: true,
            enc_typed: true,
            map_tags: OP_TAGS,
            msgs: |m| lane_resp_msgs(arb_map_body(m, false)),
            enc: |m, typed, dst| {
                if typed {
                    enc(MapLaneResponseEncoder::default(), lane_resp::<Tmo>(m), dst)
                } else {
                    enc(RawMapLaneResponseEncoder::default(), lane_resp::<Rmo>(m), dst)
                }
            },
            dec: || adapt(MapLaneResponseDecoder::<Value, Value>::default(), from_lane_resp::<Tmo>),
            reenc: None,
        },
        // ---- map messages / operations ---------------------------------------------------------
        Fam {
            name: "map-msg-raw",
            group: "map",
            raw_dec: true,
            strict: false,
            enc_raw: true,
            enc_typed: true,
            map_tags: MSG_TAGS,
            msgs: |m| arb_map_body(m, true).prop_map(Msg::Body).boxed(),
            enc: |m, typed, dst| {
                if typed {
                    enc(MapMessageEncoder::default(), bare::<Tmm>(m), dst)
                } else {
                    enc(RawMapMessageEncoder::default(), bare::<Rmm>(m), dst)
                }
            },
            dec: || adapt(RawMapMessageDecoder::default(), from_bare::<MapMessage<BytesMut, BytesMut>>),
            reenc: Some(|m, dst| enc(RawMapMessageEncoder::default(), bare::<Rmm>(m), dst)),
        },
        Fam {
            name: "map-msg",
            group: "map",
            raw_dec: false,
            strict: false,
            enc_raw: true,
            enc_typed: true,
            map_tags: MSG_TAGS,
            msgs: |m| arb_map_body(m, true).prop_map(Msg::Body).boxed(),
            enc: |m, typed, dst| {
                if typed {
                    enc(MapMessageEncoder::default(), bare::<Tmm>(m), dst)
                } else {
                    enc(RawMapMessageEncoder::default(), bare::<Rmm>(m), dst)
                }
            },
            dec: || adapt(MapMessageDecoder::<Value, Value>::default(), from_bare::<Tmm>),
            reenc: None,
        },
        Fam {
            name: "map-op-raw",
            group: "map",
            raw_dec: true,
            strict: false,
            enc_raw: true,
            enc_typed: true,
            map_tags: OP_TAGS,
            msgs: |m| arb_map_body(m, false).prop_map(Msg::Body).boxed(),
            enc: |m, typed, dst| {
                if typed {
                    enc(MapOperationEncoder, bare::<Tmo>(m), dst)
                } else {
                    enc(RawMapOperationEncoder, bare::<Rmo>(m), dst)
                }
            },
            dec: || adapt(RawMapOperationDecoder, from_bare::<MapOperation<BytesMut, BytesMut>>),
            reenc: Some(|m, dst| enc(RawMapOperationEncoder, bare::<Rmo>(m), dst)),
        },
        Fam {
            name: "map-op",
            group: "map",
            raw_dec: false,
            strict: false,
            enc_raw: true,
            enc_typed: true,
            map_tags: OP_TAGS,
            msgs: |m| arb_map_body(m, false).prop_map(Msg::Body).boxed(),
            enc: |m, typed, dst| {
                if typed {
                    enc(MapOperationEncoder, bare::<Tmo>(m), dst)
                } else {
                    enc(RawMapOperationEncoder, bare::<Rmo>(m), dst)
                }
            },
            dec: || adapt(MapOperationDecoder::<Value, Value>::default(), from_bare::<Tmo>),
            reenc: None,
        },
        // ---- stores ----------------------------------------------------------------------------
        Fam {
            name: "store-init-value-raw",
            group: "store",
            raw_dec: true,
            strict: false,
            enc_raw: true,
            enc_typed: false,
            map_tags: MSG_TAGS,
            msgs: |m| store_init_msgs(arb_scalar_body(m)),
            enc: |m, _typed, dst| enc(RawValueStoreInitEncoder::default(), store_init::<Vec<u8>>(m), dst),
            dec: || adapt(RawValueStoreInitDecoder::default(), from_store_init::<BytesMut>),
            reenc: Some(|m, dst| enc(RawValueStoreInitEncoder::default(), store_init::<Vec<u8>>(m), dst)),
        },
        Fam {
            name: "store-init-value",
            group: "store",
            raw_dec: false,
            strict: false,
            enc_raw: true,
            enc_typed: false,
            map_tags: MSG_TAGS,
            msgs: |m| store_init_msgs(arb_scalar_body(m)),
            enc: |m, _typed, dst| enc(RawValueStoreInitEncoder::default(), store_init::<Vec<u8>>(m), dst),
            dec: || adapt(ValueStoreInitDecoder::<Value>::default(), from_store_init::<Value>),
            reenc: None,
        },
        Fam {
            name: "store-init-map-raw",
            group: "store",
            raw_dec: true,
            strict: false,
            enc_raw: true,
            enc_typed: false,
            map_tags: MSG_TAGS,
            msgs: |m| store_init_msgs(arb_map_body(m, true)),
            enc: |m, _typed, dst| enc(RawMapStoreInitEncoder::default(), store_init::<Rmm>(m), dst),
            dec: || adapt(RawMapStoreInitDecoder::default(), from_store_init::<MapMessage<BytesMut, BytesMut>>),
            reenc: Some(|m, dst| enc(RawMapStoreInitEncoder::default(), store_init::<Rmm>(m), dst)),
        },
        Fam {
            name: "store-init-map",
            group: "store",
            raw_dec: false,
            strict: false,
            enc_raw: true,
            enc_typed: false,
            map_tags: MSG_TAGS,
            msgs: |m| store_init_msgs(arb_map_body(m, true)),
            enc: |m, _typed, dst| enc(RawMapStoreInitEncoder::default(), store_init::<Rmm>(m), dst),
            dec: || adapt(MapStoreInitDecoder::<Value, Value>::default(), from_store_init::<Tmm>),
            reenc: None,
        },
        Fam {
            name: "store-initialized",
            group: "store",
            raw_dec: true,
            strict: false,
            enc_raw: true,
            enc_typed: false,
            map_tags: OP_TAGS,
            msgs: |_m| Just(Msg::StoreInitialized).boxed(),
            enc: |_m, _typed, dst| enc(StoreInitializedCodec, StoreInitialized, dst),
            dec: || adapt(StoreInitializedCodec, |_: StoreInitialized| Msg::StoreInitialized),
            reenc: Some(|_m, dst| enc(StoreInitializedCodec, StoreInitialized, dst)),
        },
        Fam {
            name: "store-resp-value-raw",
            group: "store",
            raw_dec: true,
            strict: false,
            enc_raw: false,
            enc_typed: true,
            map_tags: OP_TAGS,
            msgs: |m| arb_scalar_body(m).prop_map(Msg::StoreResp).boxed(),
            enc: |m, _typed, dst| enc(ValueStoreResponseEncoder::default(), store_resp::<Value>(m), dst),
            dec: || adapt(RawValueStoreResponseDecoder::default(), from_store_resp::<BytesMut>),
            // No raw store response encoder is exported: EVENT tag + the raw body codec.
            reenc: Some(|m, dst| {
                dst.put_u8(3);
                enc(WithLengthBytesCodec, store_resp::<Vec<u8>>(m).message, dst)
            }),
        },
        Fam {
            name: "store-resp-map-raw",
            group: "store",
            raw_dec: true,
            strict: false,
            enc_raw: false,
            enc_typed: true,
            map_tags: OP_TAGS,
            msgs: |m| arb_map_body(m, false).prop_map(Msg::StoreResp).boxed(),
            enc: |m, _typed, dst| enc(MapStoreResponseEncoder::default(), store_resp::<Tmo>(m), dst),
            dec: || adapt(RawMapStoreResponseDecoder::default(), from_store_resp::<MapOperation<BytesMut, BytesMut>>),
            reenc: Some(|m, dst| {
                dst.put_u8(3);
                enc(RawMapOperationEncoder, store_resp::<Rmo>(m).message, dst)
            }),
        },
        // ---- downlinks -------------------------------------------------------------------------
        Fam {
            name: "dl-notif-value",
            group: "downlink",
            raw_dec: false,
            strict: false,
            enc_raw: true,
            enc_typed: false,
            map_tags: MSG_TAGS,
            msgs: |m| notif_msgs(arb_scalar_body(m)),
            enc: notif_enc,
            dec: || adapt(ValueNotificationDecoder::<Value>::default(), from_notif::<Value>),
            reenc: None,
        },
        Fam {
            name: "dl-notif-map",
            group: "downlink",
            raw_dec: false,
            strict: false,
            enc_raw: true,
            enc_typed: true,
            map_tags: MSG_TAGS,
            msgs: |m| notif_msgs(arb_map_body(m, true)),
            enc: notif_enc,
            dec: || adapt(MapNotificationDecoder::<Value, Value>::default(), from_notif::<Tmm>),
            reenc: None,
        },
        Fam {
            name: "dl-op",
            group: "downlink",
            raw_dec: true,
            strict: false,
            enc_raw: false,
            enc_typed: true,
            map_tags: OP_TAGS,
            msgs: |m| arb_scalar_body(m).prop_map(Msg::Body).boxed(),
            enc: |m, _typed, dst| enc(DownlinkOperationEncoder::default(), DownlinkOperation::new(bare::<Value>(m)), dst),
            dec: || adapt(DownlinkOperationDecoder, |o: DownlinkOperation<Bytes>| Msg::Body(o.body.bd())),
            // The wire format is the length-prefixed byte codec.
            reenc: Some(|m, dst| enc(WithLengthBytesCodec, bare::<Vec<u8>>(m), dst)),
        },
        // ---- ad hoc commands -------------------------------------------------------------------
        Fam {
            name: "command-raw",
            group: "command",
            raw_dec: true,
            strict: false,
            enc_raw: true,
            enc_typed: true,
            map_tags: OP_TAGS,
            msgs: cmd_msgs,
            enc: |m, typed, dst| {
                if typed {
                    enc(CommandMessageEncoder::default(), cmd::<Value>(m), dst)
                } else {
                    enc(RawCommandMessageEncoder::default(), cmd::<Vec<u8>>(m), dst)
                }
            },
            dec: || adapt(RawCommandMessageDecoder::<BytesStr>::default(), from_cmd::<BytesStr, BytesMut>),
            reenc: Some(|m, dst| enc(RawCommandMessageEncoder::default(), cmd::<Vec<u8>>(m), dst)),
        },
        Fam {
            name: "command",
            group: "command",
            raw_dec: false,
            strict: false,
            enc_raw: true,
            enc_typed: true,
            map_tags: OP_TAGS,
            msgs: cmd_msgs,
            enc: |m, typed, dst| {
                if typed {
                    enc(CommandMessageEncoder::default(), cmd::<Value>(m), dst)
                } else {
                    enc(RawCommandMessageEncoder::default(), cmd::<Vec<u8>>(m), dst)
                }
            },
            dec: || adapt(CommandMessageDecoder::<String, Value>::default(), from_cmd::<String, Value>),
            reenc: None,
        },
        // ---- routed request / response messages (swimos_messages::protocol) --------------------
        Fam {
            name: "routed-req-raw",
            group: "messages",
            raw_dec: true,
            strict: false,
            enc_raw: true,
            enc_typed: false,
            map_tags: ROUTED_REQ_TAGS,
            msgs: routed_req_msgs,
            enc: |m, _typed, dst| enc(RawRequestMessageEncoder, routed_req(m), dst),
            dec: || adapt(RawRequestMessageDecoder, from_routed_req::<BytesStr, Bytes>),
            reenc: Some(|m, dst| enc(RawRequestMessageEncoder, routed_req(m), dst)),
        },
        Fam {
            name: "routed-req",
            group: "messages",
            raw_dec: false,
            strict: false,
            enc_raw: true,
            enc_typed: false,
            map_tags: ROUTED_REQ_TAGS,
            msgs: routed_req_msgs,
            enc: |m, _typed, dst| {
                let r = routed_req(m);
                enc(RawRequestMessageEncoder, &r, dst)
            },
            dec: || {
                adapt(
                    RequestMessageDecoder::<Value, VRec>::new(Value::make_recognizer()),
                    from_routed_req::<swimos_model::Text, Value>,
                )
            },
            reenc: None,
        },
        Fam {
            name: "routed-resp-raw",
            group: "messages",
            raw_dec: true,
            strict: false,
            enc_raw: true,
            enc_typed: true,
            map_tags: ROUTED_RESP_TAGS,
            msgs: routed_resp_msgs,
            enc: |m, typed, dst| {
                if typed {
                    enc(ResponseMessageEncoder, routed_resp::<Value>(m), dst)
                } else {
                    enc(RawResponseMessageEncoder, routed_resp::<Vec<u8>>(m), dst)
                }
            },
            dec: || adapt(RawResponseMessageDecoder, from_routed_resp::<BytesStr>),
            reenc: Some(|m, dst| enc(RawResponseMessageEncoder, routed_resp::<Vec<u8>>(m), dst)),
        },
    ]
}

/// Not a C10 family (the bare `RecognizerDecoder` has no framing; it is C09's subject): only for
/// `--trace recognizer`, to tell a framing defect from a defect of the Recon stream parser below it.
pub fn bare_recognizer_family() -> Fam {
    Fam {
        name: "recognizer",
        group: "none",
        raw_dec: false,
        strict: false,
        enc_raw: true,
        enc_typed: false,
        map_tags: OP_TAGS,
        msgs: |m| arb_scalar_body(m).prop_map(Msg::Body).boxed(),
        enc: |m, _typed, dst| dst.extend_from_slice(&bare::<Vec<u8>>(m)),
        dec: || adapt(swimos_recon::parser::RecognizerDecoder::new(Value::make_recognizer()), from_bare::<Value>),
        reenc: None,
    }
}

// ---------------------------------------------------------------------------------------------
// Strict families: the typed decoders instantiated with `i32`, fed well-framed bodies most of
// which are not an `i32` (sub-check `illtyped:<family>`).

type IRec = <i32 as RecognizerReadable>::Rec;

fn strict_of(base: &str, name: &'static str, fams: &[Fam], dec: fn() -> Box<dyn Dec>) -> Fam {
    let b = fams.iter().find(|f| f.name == base).expect("harness: base family");
    Fam {
        name,
        group: b.group,
        raw_dec: false,
        strict: true,
        enc_raw: b.enc_raw,
        enc_typed: b.enc_typed,
        map_tags: b.map_tags,
        msgs: b.msgs,
        enc: b.enc,
        dec,
        reenc: None,
    }
}

pub fn strict_families() -> Vec<Fam> {
    let f = families();
    vec![
        strict_of("len-recon", "len-recon-i32", &f, || {
            adapt(WithLenRecognizerDecoder::<IRec>::new(i32::make_recognizer()), from_bare::<i32>)
        }),
        strict_of("lane-req-value", "lane-req-value-i32", &f, || {
            adapt(ValueLaneRequestDecoder::<i32>::default(), from_lane_req::<i32>)
        }),
        strict_of("lane-req-map", "lane-req-map-i32", &f, || {
            adapt(MapLaneRequestDecoder::<i32, i32>::default(), from_lane_req::<MapMessage<i32, i32>>)
        }),
        strict_of("lane-resp-value", "lane-resp-value-i32", &f, || {
            adapt(ValueLaneResponseDecoder::<i32>::default(), from_lane_resp::<i32>)
        }),
        strict_of("lane-resp-map", "lane-resp-map-i32", &f, || {
            adapt(MapLaneResponseDecoder::<i32, i32>::default(), from_lane_resp::<MapOperation<i32, i32>>)
        }),
        strict_of("map-msg", "map-msg-i32", &f, || {
            adapt(MapMessageDecoder::<i32, i32>::default(), from_bare::<MapMessage<i32, i32>>)
        }),
        strict_of("map-op", "map-op-i32", &f, || {
            adapt(MapOperationDecoder::<i32, i32>::default(), from_bare::<MapOperation<i32, i32>>)
        }),
        strict_of("store-init-value", "store-init-value-i32", &f, || {
            adapt(ValueStoreInitDecoder::<i32>::default(), from_store_init::<i32>)
        }),
        strict_of("store-init-map", "store-init-map-i32", &f, || {
            adapt(MapStoreInitDecoder::<i32, i32>::default(), from_store_init::<MapMessage<i32, i32>>)
        }),
        strict_of("dl-notif-value", "dl-notif-value-i32", &f, || {
            adapt(ValueNotificationDecoder::<i32>::default(), from_notif::<i32>)
        }),
        strict_of("dl-notif-map", "dl-notif-map-i32", &f, || {
            adapt(MapNotificationDecoder::<i32, i32>::default(), from_notif::<MapMessage<i32, i32>>)
        }),
        strict_of("command", "command-i32", &f, || {
            adapt(CommandMessageDecoder::<String, i32>::default(), from_cmd::<String, i32>)
        }),
        strict_of("routed-req", "routed-req-i32", &f, || {
            adapt(
                RequestMessageDecoder::<i32, IRec>::new(i32::make_recognizer()),
                from_routed_req::<swimos_model::Text, i32>,
            )
        }),
    ]
}
