//! Handler programs: the generated ("raw") form with lane selectors, its resolution into concrete
//! programs, and the proptest strategies.
//!
//! Lanes are indexed 0..4 in the order `v0, m0, v1, m1` (even = value lane, odd = map lane). Every
//! program is resolved against a *level*: it may only mutate lanes with index >= level. The top-level
//! programs (on_start, on_stop, Run(i)) have level 0, the handlers of lane `i` have level `i + 1`
//! (so the trigger graph is acyclic by construction), a spawned (suspended) program `j` has its own
//! generated level and may only spawn programs with index > j and level >= its own. Along every
//! spawn edge the pair (level, index) strictly increases, so every case terminates.

use proptest::prelude::*;
use serde::{Deserialize, Serialize};
use vcommon::pick_index;

pub const NLANES: u8 = 4;
/// External lane names (what remotes address). `v1` and `m1` are renamed with `#[item(name = ..)]`, so their
/// external names differ from the field names the lifecycle uses.
pub const LANE_NAMES: [&str; 5] = ["v0", "m0", "second_value", "otherMap", "ctl"];
pub const CTL: u8 = 4;
pub const NKEYS: i32 = 3;

pub fn is_value(lane: u8) -> bool {
    lane % 2 == 0
}

/// What a `Get` reads.
#[derive(Clone, Copy, Debug, PartialEq, Eq, Serialize, Deserialize)]
pub enum Src {
    Val(u8),
    Entry(u8, i32),
    Map(u8),
}

impl Src {
    pub fn lane(&self) -> u8 {
        match self {
            Src::Val(l) | Src::Entry(l, _) | Src::Map(l) => *l,
        }
    }
}

/// What a `Get` observed.
#[derive(Clone, Debug, PartialEq, Eq, Serialize, Deserialize)]
pub enum Obs {
    V(i32),
    E(Option<i32>),
    M(Vec<(i32, i32)>),
}

impl Obs {
    /// The scalar an `and_then` continuation branches on.
    pub fn scalar(&self) -> i64 {
        match self {
            Obs::V(v) => *v as i64,
            Obs::E(None) => 0,
            Obs::E(Some(v)) => *v as i64 + 1,
            Obs::M(m) => m.len() as i64 + m.iter().map(|(_, v)| *v as i64).sum::<i64>(),
        }
    }
}

/// How a continuation is attached to a value producing action.
#[derive(Clone, Copy, Debug, PartialEq, Eq, Serialize, Deserialize)]
pub enum How {
    /// `and_then`
    Then,
    /// `and_then_contextual`; the continuation closure reads this source directly from the agent
    /// (recorded as `CtxGot`) before it builds the next handler.
    Ctx(Src),
    /// `and_then_try` (the closure fails when `try_fails(x)`).
    Try,
}

/// The shared rule for the fallible combinators (`and_then_try`, `try_handler`): both the agent and the
/// reference interpreter fail on exactly these values.
pub fn try_fails(x: i64) -> bool {
    x.rem_euclid(29) == 28
}

/// Lane value computed from an observed scalar (always < 1000, so it never collides with the unique
/// values >= 1000 that remotes send).
pub fn to_val(x: i64, off: i32) -> i32 {
    x.wrapping_add(off as i64).rem_euclid(1000) as i32
}

/// The closure given to `transform_entry`. op 0: increment or insert `c`; 1: remove (absent: nothing); 2: increment
/// (absent: nothing).
pub fn xform(op: u8, cur: Option<i32>, c: i32) -> Option<i32> {
    match (op % 3, cur) {
        (0, Some(v)) | (2, Some(v)) => Some(to_val(v as i64, 1)),
        (0, None) => Some(c),
        _ => None,
    }
}

/// Key `i` of a burst (distinct from the keys 0..NKEYS used everywhere else, and below them in key order).
pub fn burst_key(i: u16) -> i32 {
    -1000 - i as i32
}

pub fn arm_of(x: i64, n: usize) -> usize {
    x.rem_euclid(n as i64) as usize
}

/// Generated program (selectors unresolved). Always valid: resolution maps every selector into range.
#[derive(Clone, Debug, PartialEq, Eq, Serialize, Deserialize)]
pub enum RP {
    Seq(Vec<RP>),
    Then(Box<RP>, Box<RP>),
    /// Mutate a lane of index >= level. kind: 0,1 = update, 2 = remove, 3 = clear (map lanes).
    Mut { sel: u16, kind: u8, k: i32, v: i32 },
    /// `transform_value` (value lanes) / `transform_entry` (map lanes) of a lane of index >= level.
    Xform { sel: u16, op: u8, k: i32, c: i32 },
    /// `replace_map` of a map lane of index >= level.
    Replace { sel: u16, entries: Vec<(i32, i32)> },
    /// `n` consecutive sets / updates (distinct keys) of one lane in a single handler.
    Burst { sel: u16, n: u16, v: i32 },
    /// `value.discard()`.
    Discard(RV),
    /// `first.and_then*(|x| arms[x mod len])`.
    Branch { first: RV, how: u16, arms: Vec<RP> },
    /// `first.and_then*(|x| mutate(lane, to_val(x, off)))`.
    MutV { first: RV, how: u16, sel: u16, kind: u8, k: i32, off: i32 },
    Eff,
    Suspend { sel: u16, delay: u8 },
    Fail,
    Stop,
}

/// Generated value producing action (completion = i64).
#[derive(Clone, Debug, PartialEq, Eq, Serialize, Deserialize)]
pub enum RV {
    Get { sel: u16, how: u8, k: i32 },
    Const(i32),
    /// `program.followed_by(value)`.
    After(Box<RP>, Box<RV>),
    /// `program.map(|_| c)`: the value producer's own last step may be a lane mutation.
    Of(Box<RP>, i32),
    /// `value.map(|x| x + c)`.
    Map(Box<RV>, i32),
    /// `first.and_then*(|x| arms[x mod len])` producing a value.
    Bind { first: Box<RV>, how: u16, arms: Vec<RV> },
    /// `join(a, b).map(|(x, y)| x + y)`.
    Join(Box<RV>, Box<RV>),
    /// `join3(a, b, c).map(|(x, y, z)| x + y + z)`.
    Join3(Box<RV>, Box<RV>, Box<RV>),
    /// `Some(Either::Left(value)).map(unwrap)` (the `Option` and `Either` handler impls).
    Opt(Box<RV>),
    /// `value.map(|x| if try_fails(x) { Err } else { Ok(x) }).try_handler()`.
    Try(Box<RV>),
}

/// Concrete program.
#[derive(Clone, Debug, PartialEq, Eq, Serialize, Deserialize)]
pub enum P {
    Seq(Vec<P>),
    Then(Box<P>, Box<P>),
    Set { lane: u8, v: i32 },
    Upd { lane: u8, k: i32, v: i32 },
    Rem { lane: u8, k: i32 },
    Clr { lane: u8 },
    /// `transform_value(lane, |v| to_val(v, add))`
    XformV { lane: u8, add: i32 },
    /// `transform_entry(lane, k, |e| xform(op, e, c))`
    XformE { lane: u8, k: i32, op: u8, c: i32 },
    /// `replace_map(lane, entries)` = clear, then the updates in order
    Replace { lane: u8, entries: Vec<(i32, i32)> },
    /// value lane: `set(v), set(v+1), ..`; map lane: `update(burst_key(i), v)` for i in 0..n
    Burst { lane: u8, n: u16, v: i32 },
    Discard(V),
    Branch { first: V, how: How, arms: Vec<P> },
    /// `target` is a Set / Upd / Rem / Clr whose value is replaced by `to_val(x, off)`.
    MutV { first: V, how: How, target: Box<P>, off: i32 },
    Eff(u32),
    Suspend { prog: u16, delay_ms: u64 },
    Fail,
    Stop,
}

/// Concrete value producing action.
#[derive(Clone, Debug, PartialEq, Eq, Serialize, Deserialize)]
pub enum V {
    Get(Src),
    Const(i32),
    After(Box<P>, Box<V>),
    Of(Box<P>, i32),
    Map(Box<V>, i32),
    Bind { first: Box<V>, how: How, arms: Vec<V> },
    Join(Box<V>, Box<V>),
    Join3(Box<V>, Box<V>, Box<V>),
    Opt(Box<V>),
    Try(Box<V>),
}

impl P {
    /// The mutation `self` (a Set/Upd/Rem/Clr) with its value replaced.
    pub fn with_value(&self, v: i32) -> P {
        match self {
            P::Set { lane, .. } => P::Set { lane: *lane, v },
            P::Upd { lane, k, .. } => P::Upd { lane: *lane, k: *k, v },
            other => other.clone(),
        }
    }
}

/// Lifecycle events of a lane. Value lanes: OnEvent, OnSet. Map lanes: OnUpdate, OnRemove, OnClear.
#[derive(Clone, Copy, Debug, PartialEq, Eq, Serialize, Deserialize)]
pub enum HK {
    OnEvent = 0,
    OnSet = 1,
    OnUpdate = 2,
    OnRemove = 3,
    OnClear = 4,
}

impl HK {
    /// Slot of the handler program in `Tables::lane[lane]`.
    pub fn slot(&self) -> usize {
        match self {
            HK::OnEvent | HK::OnUpdate => 0,
            HK::OnSet | HK::OnRemove => 1,
            HK::OnClear => 2,
        }
    }
}

#[derive(Clone, Debug, Serialize, Deserialize)]
pub struct RawTables {
    pub start: RP,
    /// on_start may contain Fail / Stop (otherwise they are replaced by effects there).
    pub start_abort: bool,
    pub stop: RP,
    pub run: Vec<RP>,
    /// (level, body)
    pub spawn: Vec<(u8, RP)>,
    /// 4 lanes x 3 slots (value lanes use 2).
    pub lane: Vec<Vec<RP>>,
}

#[derive(Clone, Debug, PartialEq, Eq, Serialize, Deserialize)]
pub struct Tables {
    pub start: P,
    pub stop: P,
    /// The last entry is the probe (reads every lane) appended by `resolve`.
    pub run: Vec<P>,
    pub spawn: Vec<P>,
    pub lane: Vec<Vec<P>>,
}

impl Tables {
    pub fn probe_index(&self) -> usize {
        self.run.len() - 1
    }
    pub fn has_burst(&self) -> bool {
        self.run.iter().any(|p| matches!(p, P::Burst { .. }))
    }
}

struct Resolver<'a> {
    levels: &'a [u8],
    next_label: u32,
}

#[derive(Clone, Copy)]
struct RCtx {
    level: u8,
    spawn_floor: usize,
    allow_abort: bool,
}

pub const DELAYS: [u64; 4] = [0, 0, 1, 20];

fn src_of(sel: u16, how: u8, k: i32) -> Src {
    let lane = pick_index(sel, NLANES as usize) as u8;
    if is_value(lane) {
        Src::Val(lane)
    } else if how % 2 == 0 {
        Src::Entry(lane, k.rem_euclid(NKEYS))
    } else {
        Src::Map(lane)
    }
}

impl<'a> Resolver<'a> {
    fn eff(&mut self) -> P {
        self.next_label += 1;
        P::Eff(self.next_label)
    }

    fn res(&mut self, rp: &RP, cx: RCtx) -> P {
        match rp {
            RP::Seq(ps) => P::Seq(ps.iter().map(|p| self.res(p, cx)).collect()),
            RP::Then(a, b) => P::Then(Box::new(self.res(a, cx)), Box::new(self.res(b, cx))),
            RP::Mut { sel, kind, k, v } => {
                if cx.level >= NLANES {
                    return self.eff();
                }
                let lane = cx.level + pick_index(*sel, (NLANES - cx.level) as usize) as u8;
                let k = k.rem_euclid(NKEYS);
                if is_value(lane) {
                    P::Set { lane, v: *v }
                } else {
                    match kind % 4 {
                        0 | 1 => P::Upd { lane, k, v: *v },
                        2 => P::Rem { lane, k },
                        _ => P::Clr { lane },
                    }
                }
            }
            RP::Xform { sel, op, k, c } => {
                if cx.level >= NLANES {
                    return self.eff();
                }
                let lane = cx.level + pick_index(*sel, (NLANES - cx.level) as usize) as u8;
                if is_value(lane) {
                    P::XformV { lane, add: *c }
                } else {
                    P::XformE { lane, k: k.rem_euclid(NKEYS), op: op % 3, c: *c }
                }
            }
            RP::Replace { sel, entries } => {
                let maps: Vec<u8> = [1u8, 3].into_iter().filter(|l| *l >= cx.level).collect();
                if maps.is_empty() {
                    return self.eff();
                }
                let lane = maps[pick_index(*sel, maps.len())];
                P::Replace { lane, entries: entries.iter().map(|(k, v)| (k.rem_euclid(NKEYS), *v)).collect() }
            }
            RP::Burst { sel, n, v } => {
                // only lanes whose handlers are cheap (index >= 1) and only at top level
                if cx.level > 0 {
                    return self.eff();
                }
                P::Burst { lane: 1 + pick_index(*sel, 3) as u8, n: 260 + n % 140, v: *v }
            }
            RP::Discard(v) => P::Discard(self.resv(v, cx)),
            RP::Branch { first, how, arms } => {
                let first = self.resv(first, cx);
                if arms.is_empty() {
                    return P::Discard(first);
                }
                P::Branch { first, how: self.how(*how, cx), arms: arms.iter().map(|p| self.res(p, cx)).collect() }
            }
            RP::MutV { first, how, sel, kind, k, off } => {
                let first = self.resv(first, cx);
                let target = self.res(&RP::Mut { sel: *sel, kind: *kind, k: *k, v: 0 }, cx);
                if matches!(target, P::Eff(_)) {
                    return P::Then(Box::new(P::Discard(first)), Box::new(target));
                }
                P::MutV { first, how: self.how(*how, cx), target: Box::new(target), off: *off }
            }
            RP::Eff => self.eff(),
            RP::Suspend { sel, delay } => {
                let cands: Vec<usize> = (cx.spawn_floor..self.levels.len())
                    .filter(|j| self.levels[*j] >= cx.level)
                    .collect();
                if cands.is_empty() {
                    self.eff()
                } else {
                    P::Suspend {
                        prog: cands[pick_index(*sel, cands.len())] as u16,
                        delay_ms: DELAYS[(*delay as usize) % DELAYS.len()],
                    }
                }
            }
            RP::Fail => {
                if cx.allow_abort {
                    P::Fail
                } else {
                    self.eff()
                }
            }
            RP::Stop => {
                if cx.allow_abort {
                    P::Stop
                } else {
                    self.eff()
                }
            }
        }
    }

    /// `and_then_try` can fail: only where aborts are allowed.
    fn how(&self, how: u16, cx: RCtx) -> How {
        let kind = if cx.allow_abort { how % 3 } else { how % 2 };
        let sel = how / 3;
        match kind {
            0 => How::Then,
            1 => How::Ctx(src_of(sel.wrapping_mul(3), sel as u8, sel as i32)),
            _ => How::Try,
        }
    }

    fn resv(&mut self, rv: &RV, cx: RCtx) -> V {
        match rv {
            RV::Get { sel, how, k } => V::Get(src_of(*sel, *how, *k)),
            RV::Const(c) => V::Const(*c),
            RV::After(p, v) => V::After(Box::new(self.res(p, cx)), Box::new(self.resv(v, cx))),
            RV::Of(p, c) => V::Of(Box::new(self.res(p, cx)), *c),
            RV::Map(v, c) => V::Map(Box::new(self.resv(v, cx)), *c),
            RV::Bind { first, how, arms } => {
                let first = self.resv(first, cx);
                if arms.is_empty() {
                    return first;
                }
                V::Bind { first: Box::new(first), how: self.how(*how, cx), arms: arms.iter().map(|v| self.resv(v, cx)).collect() }
            }
            RV::Join(a, b) => V::Join(Box::new(self.resv(a, cx)), Box::new(self.resv(b, cx))),
            RV::Join3(a, b, c) => V::Join3(Box::new(self.resv(a, cx)), Box::new(self.resv(b, cx)), Box::new(self.resv(c, cx))),
            RV::Opt(v) => V::Opt(Box::new(self.resv(v, cx))),
            RV::Try(v) => {
                if cx.allow_abort {
                    V::Try(Box::new(self.resv(v, cx)))
                } else {
                    self.resv(v, cx)
                }
            }
        }
    }
}

pub fn resolve(raw: &RawTables) -> Tables {
    let levels: Vec<u8> = raw.spawn.iter().map(|(l, _)| (*l).min(NLANES)).collect();
    let mut r = Resolver { levels: &levels, next_label: 0 };
    let top = RCtx { level: 0, spawn_floor: 0, allow_abort: true };
    let start = r.res(&raw.start, RCtx { allow_abort: raw.start_abort, ..top });
    let stop = r.res(&raw.stop, top);
    let mut run: Vec<P> = raw.run.iter().map(|p| r.res(p, top)).collect();
    let spawn: Vec<P> = raw
        .spawn
        .iter()
        .enumerate()
        .map(|(j, (_, p))| r.res(p, RCtx { level: levels[j], spawn_floor: j + 1, allow_abort: true }))
        .collect();
    let mut lane = vec![];
    for i in 0..NLANES {
        let slots = if is_value(i) { 2 } else { 3 };
        let mut row = vec![];
        for s in 0..slots {
            let rp = raw.lane.get(i as usize).and_then(|r| r.get(s)).cloned().unwrap_or(RP::Eff);
            row.push(r.res(&rp, RCtx { level: i + 1, spawn_floor: 0, allow_abort: true }));
        }
        lane.push(row);
    }
    // the probe: reads every lane (whole maps)
    run.push(P::Seq(vec![
        P::Discard(V::Get(Src::Val(0))),
        P::Discard(V::Get(Src::Map(1))),
        P::Discard(V::Get(Src::Val(2))),
        P::Discard(V::Get(Src::Map(3))),
    ]));
    Tables { start, stop, run, spawn, lane }
}

// ------------------------------------------------------------------------------------------------
// strategies

fn arb_val() -> impl Strategy<Value = i32> {
    prop_oneof![4 => 1i32..60, 1 => -3i32..4]
}

fn arb_get() -> impl Strategy<Value = RV> {
    (any::<u16>(), 0u8..2, 0i32..NKEYS).prop_map(|(sel, how, k)| RV::Get { sel, how, k })
}

fn arb_leaf(abort_w: u32) -> impl Strategy<Value = RP> {
    prop_oneof![
        50 => (any::<u16>(), 0u8..4, 0i32..NKEYS, arb_val()).prop_map(|(sel, kind, k, v)| RP::Mut { sel, kind, k, v }),
        30 => arb_get().prop_map(RP::Discard),
        8 => Just(RP::Eff),
        10 => (any::<u16>(), 0u8..4).prop_map(|(sel, delay)| RP::Suspend { sel, delay }),
        10 => (any::<u16>(), 0u8..3, 0i32..NKEYS, arb_val()).prop_map(|(sel, op, k, c)| RP::Xform { sel, op, k, c }),
        3 => (any::<u16>(), proptest::collection::vec((0i32..NKEYS, arb_val()), 0..4))
            .prop_map(|(sel, entries)| RP::Replace { sel, entries }),
        abort_w => prop_oneof![Just(RP::Fail), Just(RP::Stop)],
    ]
}

/// Value producing actions over arbitrary sub-programs `p` (so that every combinator is reached with a
/// first operand that takes several steps and changes a lane in a step that is not its last).
fn arb_value(p: BoxedStrategy<RP>, depth: u32) -> BoxedStrategy<RV> {
    let leaf = prop_oneof![6 => arb_get(), 1 => (0i32..40).prop_map(RV::Const)];
    if depth == 0 {
        return leaf.boxed();
    }
    let sub = arb_value(p.clone(), depth - 1);
    prop_oneof![
        5 => leaf,
        6 => (p.clone(), sub.clone()).prop_map(|(p, v)| RV::After(Box::new(p), Box::new(v))),
        4 => (p, 0i32..40).prop_map(|(p, c)| RV::Of(Box::new(p), c)),
        2 => (sub.clone(), 0i32..20).prop_map(|(v, c)| RV::Map(Box::new(v), c)),
        3 => (sub.clone(), any::<u16>(), proptest::collection::vec(sub.clone(), 1..3))
            .prop_map(|(first, how, arms)| RV::Bind { first: Box::new(first), how, arms }),
        2 => (sub.clone(), sub.clone()).prop_map(|(a, b)| RV::Join(Box::new(a), Box::new(b))),
        1 => (sub.clone(), sub.clone(), sub.clone()).prop_map(|(a, b, c)| RV::Join3(Box::new(a), Box::new(b), Box::new(c))),
        1 => sub.clone().prop_map(|v| RV::Opt(Box::new(v))),
        1 => sub.prop_map(|v| RV::Try(Box::new(v))),
    ]
    .boxed()
}

/// A program of at most ~`size` nodes.
pub fn arb_prog(depth: u32, size: u32, abort_w: u32) -> impl Strategy<Value = RP> {
    arb_leaf(abort_w).prop_recursive(depth, size, 4, |inner| {
        let value = arb_value(inner.clone().boxed(), 2);
        prop_oneof![
            4 => proptest::collection::vec(inner.clone(), 1..5).prop_map(RP::Seq),
            2 => (inner.clone(), inner.clone()).prop_map(|(a, b)| RP::Then(Box::new(a), Box::new(b))),
            2 => value.clone().prop_map(RP::Discard),
            2 => (value.clone(), any::<u16>(), proptest::collection::vec(inner, 1..4))
                .prop_map(|(first, how, arms)| RP::Branch { first, how, arms }),
            2 => (value, any::<u16>(), any::<u16>(), 0u8..4, 0i32..NKEYS, 0i32..30)
                .prop_map(|(first, how, sel, kind, k, off)| RP::MutV { first, how, sel, kind, k, off }),
        ]
    })
}

/// `big` selects the thorough-tier size bounds.
pub fn arb_tables(big: bool) -> impl Strategy<Value = RawTables> {
    let (d, top, lane) = if big { (4u32, 24u32, 10u32) } else { (3u32, 10u32, 5u32) };
    // aborts are rare: one aborting node ends the whole cascade (and often the agent)
    let abort_w = 1u32;
    (
        arb_prog(d, top, abort_w),
        proptest::bool::weighted(0.25),
        arb_prog(d, top / 2 + 1, abort_w),
        proptest::collection::vec(arb_prog(d, top, abort_w), 1..4),
        proptest::collection::vec((0u8..=NLANES, arb_prog(d, top / 2 + 1, abort_w)), 0..4),
        proptest::collection::vec(proptest::collection::vec(arb_prog(d - 1, lane, abort_w), 3), 4),
    )
        .prop_map(|(start, start_abort, stop, run, spawn, lane)| RawTables {
            start,
            start_abort,
            stop,
            run,
            spawn,
            lane,
        })
        .prop_flat_map(|t| (Just(t), proptest::option::weighted(0.02, (any::<u16>(), any::<u16>(), 0i32..50))))
        .prop_map(|(mut t, burst)| {
            // rarely: a very long acyclic chain (hundreds of changes of one lane inside a single top-level handler)
            if let Some((sel, n, v)) = burst {
                t.run.push(RP::Burst { sel, n, v });
            }
            t
        })
}
