//! C03 Sync gives a consistent snapshot, then a gap-free tail.
//!
//! Real `AgentModel` (value lanes v0 v1 vt, map lanes m0 m1 mt, control lane) inside the real agent runtime. Update bursts
//! (command envelopes from remotes, handler programs, cascades) with `sync` envelopes at generated positions, by 1-4
//! remotes, with or without a preceding `link`, with small lane <-> runtime buffers and small remote channels so that lane
//! events are still queued when the snapshot is taken; the op list owns the schedule (the syncing remote reads or stalls
//! as generated).
//!
//! Oracle, per (remote, lane): frames are `linked` (exactly once, first), events, `synced` (one per request); at the j-th
//! `synced`, read at t1, the replica built from the frames so far holds for every key (value lane: its single value) a
//! state the lane held at some instant of [t0, t1], t0 = when the j-th sync request was fully written; afterwards the
//! C01 / C02 rules (nothing invented, per-key order, convergence at quiescence) hold for the tail and for every other
//! remote (already linked observers, concurrently syncing remotes).

use maporacle::*;
use proptest::prelude::*;
use serde::{Deserialize, Serialize};
use std::collections::{HashMap, HashSet};
use vcommon::{pick_index, Ctx, Verdict};
use vsim::agent::{Act, AgentFlags, Ev};
use vsim::{arb_cap, arb_sched_op, FrameKind, Op, Req, SimParams};

const ALL: [&str; 7] = ["v0", "v1", "vt", "m0", "m1", "mt", "ctl"];

#[derive(Clone, Debug, Serialize, Deserialize)]
struct Case {
    params: SimParams,
    flags: AgentFlags,
    programs: Vec<Vec<Act>>,
    ops: Vec<Op>,
}

fn arb_params() -> impl Strategy<Value = SimParams> {
    (
        any::<u64>(),
        prop_oneof![Just(1usize), Just(2), Just(4), Just(16)],
        prop_oneof![2 => 8usize..64, 1 => arb_cap()],
        // small lane output buffers: lane events are still queued in the lane when the snapshot is taken
        prop_oneof![4 => 8usize..40, 1 => arb_cap()],
        prop_oneof![Just(2usize), Just(3), Just(8), Just(64)],
        // a short prune delay (with clock advances of a fraction of it) exercises the detachment of idle remotes
        prop_oneof![3 => Just(30_000u64), 2 => 100u64..2000],
    )
        .prop_map(|(seed, attachment_queue, lane_in_buf, lane_out_buf, budget, prune_remote_delay_ms)| SimParams {
            seed,
            attachment_queue,
            lane_in_buf: lane_in_buf.max(8),
            lane_out_buf: lane_out_buf.max(8),
            budget,
            prune_remote_delay_ms,
            ..SimParams::default()
        })
}

#[derive(Clone, Debug)]
enum GOp {
    Plain(Op),
    Link { r: u16, l: u8 },
    Sync { r: u16, l: u8 },
    Mut { r: u16, l: u8, cmd: MapCmd },
    /// commands written back to back, optionally with a sync request of the same remote among them
    Burst { r: u16, l: u8, cmds: Vec<MapCmd>, sync_at: Option<u8> },
    Prog { r: u16, p: usize },
    /// mutations are executed while the lane's writer is busy, then (a few polls later) another remote syncs: the sync
    /// request is written after the mutations happened but may reach the lane while their events are still queued
    LateSync { r: u16, r2: u16, l: u8, cmds: Vec<MapCmd>, polls: usize },
    Unlink { r: u16, l: u8 },
    /// a stalled remote syncs, the system runs until idle (everything that can happen without the remote reading has
    /// happened: the tail of the sync waits behind its busy writer), it unlinks, and syncs again
    Resync { r: u16, l: u8, cmds: Vec<MapCmd>, polls: usize },
}

fn arb_cmd(nkeys: usize) -> impl Strategy<Value = MapCmd> {
    prop_oneof![
        12 => (0..nkeys, any::<u16>()).prop_map(|(key, spelling)| MapCmd::Update { key, spelling, v: 0 }),
        4 => (0..nkeys, any::<u16>()).prop_map(|(key, spelling)| MapCmd::Remove { key, spelling }),
        1 => Just(MapCmd::Clear),
        1 => (0u64..4).prop_map(MapCmd::Take),
        1 => (0u64..4).prop_map(MapCmd::Drop),
    ]
}

fn arb_gop(nprogs: usize, nkeys: usize, prune_ms: u64) -> impl Strategy<Value = GOp> {
    // clock advances of 1/8 .. 10/8 of the prune delay (small steps when the delay is the default 30 s)
    let unit = if prune_ms >= 30_000 { 20 } else { (prune_ms / 8).max(1) };
    prop_oneof![
        3 => (1u64..=10).prop_map(move |f| GOp::Plain(Op::Advance { ms: unit * f })),
        1 => (any::<u16>(), any::<u8>()).prop_map(|(r, l)| GOp::Unlink { r, l }),
        3 => (any::<u16>(), any::<u8>(), proptest::collection::vec(arb_cmd(nkeys), 0..4), prop_oneof![1usize..4, Just(1000usize)])
            .prop_map(|(r, l, cmds, polls)| GOp::Resync { r, l, cmds, polls }),
        2 => arb_attach().prop_map(GOp::Plain),
        2 => (any::<u16>(), any::<u8>()).prop_map(|(r, l)| GOp::Link { r, l }),
        6 => (any::<u16>(), any::<u8>()).prop_map(|(r, l)| GOp::Sync { r, l }),
        10 => (any::<u16>(), any::<u8>(), arb_cmd(nkeys)).prop_map(|(r, l, cmd)| GOp::Mut { r, l, cmd }),
        5 => (any::<u16>(), any::<u8>(), proptest::collection::vec(arb_cmd(nkeys), 2..7), proptest::option::weighted(0.6, any::<u8>()))
            .prop_map(|(r, l, cmds, sync_at)| GOp::Burst { r, l, cmds, sync_at }),
        3 => (any::<u16>(), 0..nprogs.max(1)).prop_map(|(r, p)| GOp::Prog { r, p }),
        3 => (any::<u16>(), any::<u16>(), any::<u8>(), proptest::collection::vec(arb_cmd(nkeys), 2..5), 1usize..5)
            .prop_map(|(r, r2, l, cmds, polls)| GOp::LateSync { r, r2, l, cmds, polls }),
        14 => arb_sched_op().prop_map(GOp::Plain),
    ]
}

/// `maps`: the case exercises map lanes (else value lanes). `active`: the lanes (indices into ALL) the case uses.
fn finish(maps: bool, active: &[usize], programs: &mut [Vec<Act>], gops: Vec<GOp>) -> Vec<Op> {
    let mut next = 1i64;
    for p in programs.iter_mut() {
        for a in p.iter_mut() {
            match a {
                Act::Upd { v, .. } | Act::SetV { v, .. } => {
                    *v = 1_000_000 + next;
                    next += 1;
                }
                _ => {}
            }
        }
    }
    let mut all = vec![Op::Attach { in_cap: 64, out_cap: 16 }];
    let mut nrem = 1usize;
    // A remote links at most once per lane and only before its first sync of that lane, so exactly one `linked`
    // frame is expected per (remote, lane).
    let mut opened: HashSet<(usize, usize)> = HashSet::new();
    let lane_of = |l: u8| active[(l as usize) % active.len()];
    let render = |lane: usize, mut cmd: MapCmd, next: &mut i64| -> String {
        if maps {
            if let MapCmd::Update { v, .. } = &mut cmd {
                *v = *next;
                *next += 1;
            }
            render_cmd(lane - 3, &cmd)
        } else {
            let s = next.to_string();
            *next += 1;
            s
        }
    };
    for g in gops {
        match g {
            GOp::Plain(op) => {
                if matches!(op, Op::Attach { .. }) {
                    nrem += 1;
                }
                all.push(op);
            }
            GOp::Link { r, l } => {
                let lane = lane_of(l);
                if opened.insert((pick_index(r, nrem), lane)) {
                    all.push(Op::Link { r, lane: lane as u8 });
                }
            }
            GOp::Sync { r, l } => {
                let lane = lane_of(l);
                opened.insert((pick_index(r, nrem), lane));
                all.push(Op::Sync { r, lane: lane as u8 });
            }
            GOp::Mut { r, l, cmd } => {
                let lane = lane_of(l);
                let body = render(lane, cmd, &mut next);
                all.push(Op::Cmd { r, lane: lane as u8, body });
            }
            GOp::Burst { r, l, cmds, sync_at } => {
                let lane = lane_of(l);
                let at = sync_at.map(|a| 1 + (a as usize) % cmds.len());
                for (i, cmd) in cmds.into_iter().enumerate() {
                    let body = render(lane, cmd, &mut next);
                    all.push(Op::Cmd { r, lane: lane as u8, body });
                    if at == Some(i + 1) {
                        opened.insert((pick_index(r, nrem), lane));
                        all.push(Op::Sync { r, lane: lane as u8 });
                    }
                }
                all.push(Op::Pump { r, n: usize::MAX });
            }
            GOp::Prog { r, p } => all.push(Op::Cmd { r, lane: 6, body: p.to_string() }),
            GOp::Unlink { r, l } => {
                let lane = lane_of(l);
                opened.remove(&(pick_index(r, nrem), lane));
                all.push(Op::Unlink { r, lane: lane as u8 });
            }
            GOp::Resync { r, l, cmds, polls } => {
                let lane = lane_of(l);
                for cmd in cmds {
                    let body = render(lane, cmd, &mut next);
                    all.push(Op::Cmd { r, lane: lane as u8, body });
                }
                opened.insert((pick_index(r, nrem), lane));
                all.push(Op::Sync { r, lane: lane as u8 });
                all.push(Op::Pump { r, n: usize::MAX });
                all.push(Op::Poll { k: 1000 });
                all.push(Op::Poll { k: 1000 });
                all.push(Op::Unlink { r, lane: lane as u8 });
                all.push(Op::Pump { r, n: usize::MAX });
                all.push(Op::Poll { k: polls });
                all.push(Op::Sync { r, lane: lane as u8 });
                all.push(Op::Pump { r, n: usize::MAX });
                all.push(Op::Poll { k: 1000 });
            }
            GOp::LateSync { r, r2, l, cmds, polls } => {
                let lane = lane_of(l);
                for cmd in cmds {
                    let body = render(lane, cmd, &mut next);
                    all.push(Op::Cmd { r, lane: lane as u8, body });
                }
                all.push(Op::Pump { r, n: usize::MAX });
                all.push(Op::Poll { k: polls });
                opened.insert((pick_index(r2, nrem), lane));
                all.push(Op::Sync { r: r2, lane: lane as u8 });
                all.push(Op::Pump { r: r2, n: usize::MAX });
            }
        }
    }
    all
}

fn arb_case(maps: bool, max_ops: usize) -> impl Strategy<Value = Case> {
    // 1-2 active lanes out of the three of the kind
    let active = prop_oneof![
        3 => (0usize..3).prop_map(|a| vec![a]),
        2 => (0usize..3, 1usize..3).prop_map(|(a, d)| vec![a, (a + d) % 3]),
    ];
    (arb_params(), any::<bool>(), 1usize..=6, active)
        .prop_flat_map(move |(params, cascade, nkeys, active)| {
            let lanes = active.clone();
            let act = prop_oneof![
                8 => (0..lanes.len(), 0..nkeys).prop_map({
                    let lanes = lanes.clone();
                    move |(i, k)| {
                        let m = lanes[i];
                        if maps {
                            Act::Upd { map: m as u8, k: act_key(m, k), v: 0 }
                        } else {
                            Act::SetV { lane: m as u8, v: 0 }
                        }
                    }
                }),
                3 => (0..lanes.len(), 0..nkeys).prop_map({
                    let lanes = lanes.clone();
                    move |(i, k)| {
                        let m = lanes[i];
                        if maps {
                            Act::Rem { map: m as u8, k: act_key(m, k) }
                        } else {
                            Act::SetV { lane: m as u8, v: 0 }
                        }
                    }
                }),
                1 => (0..lanes.len()).prop_map({
                    let lanes = lanes.clone();
                    move |i| {
                        let m = lanes[i];
                        if maps {
                            Act::Clr { map: m as u8 }
                        } else {
                            Act::SetV { lane: m as u8, v: 0 }
                        }
                    }
                }),
            ];
            let progs = proptest::collection::vec(proptest::collection::vec(act, 1..7), 0..4);
            (Just(params), Just(cascade), Just(nkeys), Just(active), progs)
        })
        .prop_flat_map(move |(params, cascade, nkeys, active, programs)| {
            let n = programs.len();
            let prune_ms = params.prune_remote_delay_ms;
            (
                Just(params),
                Just(cascade),
                Just(active),
                Just(programs),
                proptest::collection::vec(arb_gop(n, nkeys, prune_ms), 1..max_ops),
            )
        })
        .prop_map(move |(params, cascade, active, mut programs, gops)| {
            let lanes: Vec<usize> = active.iter().map(|a| if maps { a + 3 } else { *a }).collect();
            let ops = finish(maps, &lanes, &mut programs, gops);
            Case {
                params,
                flags: AgentFlags {
                    cascade_value: cascade && !maps,
                    cascade_map: cascade && maps,
                    ..Default::default()
                },
                programs,
                ops,
            }
        })
}

#[derive(Default)]
struct Stats {
    syncs_completed: usize,
    syncs_racing: usize,
    implicit: usize,
    explicit: usize,
    events_before_synced: bool,
    coalesced: bool,
    windows: Vec<(u64, u64, usize)>,
}

/// `linked` first in every session, exactly once if the remote never unlinks, every sync request answered; a remote is not
/// detached before its own prune delay.
fn check_order(v: &mut Verdict, ri: usize, lane: &str, rem: &RemoteObs, quiescent: bool, prune_delay_ms: u64) {
    let frames: Vec<&vsim::Frame> = rem.frames.iter().filter(|f| f.lane == lane).collect();
    let reqs: Vec<&(String, Req, u64, Option<u64>)> = rem.sent.iter().filter(|s| s.0 == lane).collect();
    let written = |want: Req| reqs.iter().filter(|s| s.1 == want && s.3.is_some()).count();
    let (n_link, n_sync) = (written(Req::Link), written(Req::Sync));
    let unlink_requests = reqs.iter().filter(|s| s.1 == Req::Unlink).count();
    let mut in_session = false;
    for f in &frames {
        match &f.kind {
            FrameKind::Linked => in_session = true,
            FrameKind::Unlinked(_) => in_session = false,
            _ => {
                if !in_session {
                    v.fail(
                        "order:first-frame-not-linked",
                        format!("remote {} lane {}: {} (seq {}) received while not linked: a session must start with linked", ri, lane, describe_frame(f), f.seq),
                    );
                    break;
                }
            }
        }
    }
    let n_linked = frames.iter().filter(|f| f.kind == FrameKind::Linked).count();
    let n_unlinked = frames.iter().filter(|f| matches!(f.kind, FrameKind::Unlinked(_))).count();
    let n_synced = frames.iter().filter(|f| f.kind == FrameKind::Synced).count();
    if n_unlinked == 0 && unlink_requests == 0 && n_linked > 1 {
        v.fail(
            "order:linked-more-than-once",
            format!("remote {} lane {}: {} linked frames for {} link request(s) (sent before any sync) and {} sync request(s)", ri, lane, n_linked, n_link, n_sync),
        );
    }
    if n_synced > n_sync {
        v.fail(
            "order:more-synced-than-requests",
            format!("remote {} lane {}: {} synced frames for {} sync requests", ri, lane, n_synced, n_sync),
        );
    }
    // A remote without links may be detached, but only by a check that was scheduled `prune_remote_delay` after it attached
    // (or after it lost its last link, which is later still): never before attach time + delay. A remote detached earlier
    // whose link / sync requests then go unanswered did not get what the property promises.
    let last_sync_q = reqs.iter().filter(|s| s.1 == Req::Sync).map(|s| s.2).max();
    let last_synced = frames.iter().filter(|f| f.kind == FrameKind::Synced).map(|f| f.seq).max();
    let sync_unanswered = last_sync_q.map(|q| last_synced.map(|t1| t1 < q).unwrap_or(true)).unwrap_or(false);
    if let Some((t_d, reason)) = &rem.detached {
        if reason == "RemoteTimedOut" && *t_d < rem.attach_ms + prune_delay_ms && sync_unanswered && rem.connected {
            v.fail(
                "order:remote-detached-before-its-prune-delay",
                format!(
                    "remote {} lane {}: attached at {} ms, detached as idle ({}) at {} ms although prune_remote_delay is {} ms; its sync request queued at seq {:?} was never answered",
                    ri, lane, rem.attach_ms, reason, t_d, prune_delay_ms, last_sync_q
                ),
            );
        }
    }
    if quiescent && rem.connected && !rem.eof && rem.detached.is_none() && rem.decode_error.is_none() {
        // Several outstanding sync requests of one remote may be answered by a single `synced` (the uplink keeps one
        // `send_synced` flag), so the rule is: every request is followed by a `synced` - unless the remote asked to unlink
        // after it (the unlink discards what is pending for the lane).
        let last_req = reqs.iter().filter(|s| s.1 == Req::Sync).filter_map(|s| s.3.map(|w| (s.2, w))).max();
        if let Some((q, t0)) = last_req {
            let abandoned = reqs.iter().any(|s| s.1 == Req::Unlink && s.2 > q);
            if !abandoned && last_synced.map(|t1| t1 < t0).unwrap_or(true) {
                v.fail(
                    "order:sync-not-answered",
                    format!(
                        "remote {} lane {}: agent quiescent and everything delivered but the sync request written at seq {} is not followed by a synced frame ({} synced frames, last at {:?})",
                        ri, lane, t0, n_synced, last_synced
                    ),
                );
            }
        }
        if unlink_requests == 0 && n_link + n_sync > 0 && n_linked == 0 {
            v.fail(
                "order:link-not-answered",
                format!("remote {} lane {}: agent quiescent and everything delivered but no linked frame for {} link / {} sync request(s)", ri, lane, n_link, n_sync),
            );
        }
    }
}

fn parse_i64(body: &[u8]) -> Option<i64> {
    std::str::from_utf8(body).ok()?.trim().parse().ok()
}

/// C01 rules + the snapshot rule for a value lane.
fn check_value_lane(v: &mut Verdict, st: &mut Stats, ri: usize, li: usize, rem: &RemoteObs, hist: &[(u64, i64)], quiescent: bool, marks: &[u64]) {
    let lane = ALL[li];
    let mut index_of: HashMap<i64, Vec<usize>> = HashMap::new();
    for (i, (_, val)) in hist.iter().enumerate() {
        index_of.entry(*val).or_default().push(i);
    }
    let pairs = pair_synced_frames(rem, lane, marks);
    let mut linked = false;
    let mut linked_seq = 0u64;
    let mut last_idx: Option<usize> = None;
    let mut last_val: Option<i64> = None;
    let mut events_in_session = 0usize;
    let mut j = 0usize;
    for f in rem.frames.iter().filter(|f| f.lane == lane) {
        match &f.kind {
            FrameKind::Linked => {
                if !linked {
                    linked = true;
                    linked_seq = f.seq;
                    last_idx = None;
                    last_val = None;
                    events_in_session = 0;
                }
            }
            FrameKind::Unlinked(_) => linked = false,
            FrameKind::Event(body) => {
                if !linked {
                    continue;
                }
                let known = parse_i64(body).and_then(|val| index_of.get(&val).map(|ix| (val, ix)));
                let Some((val, idxs)) = known else {
                    v.fail(
                        "tail:invented-value",
                        format!("remote {} lane {}: event body {:?} is not a value the lane held; history {:?}", ri, lane, String::from_utf8_lossy(body), hist),
                    );
                    continue;
                };
                let idx = match last_idx {
                    Some(prev) => idxs.iter().copied().find(|i| *i >= prev).unwrap_or(idxs[idxs.len() - 1]),
                    None => idxs[0],
                };
                if let Some(prev) = last_idx {
                    if idx < prev {
                        v.fail(
                            "tail:value-reordered",
                            format!("remote {} lane {}: received history index {} (value {}) after index {}; history {:?}", ri, lane, idx, val, prev, hist),
                        );
                    }
                    if idx > prev + 1 {
                        st.coalesced = true;
                    }
                }
                last_idx = Some(idx);
                last_val = Some(val);
                events_in_session += 1;
            }
            FrameKind::Synced => {
                let pair = pairs.get(j).cloned().unwrap_or(SyncedPair::Skip);
                j += 1;
                let t1 = f.seq;
                let (idx, t0) = match pair {
                    SyncedPair::Skip => continue,
                    SyncedPair::Req { written: Some(t0), idx, disturbed, .. } if t0 < t1 => {
                        if disturbed {
                            continue;
                        }
                        (idx, t0)
                    }
                    _ => {
                        v.fail(
                            "synced-without-request",
                            format!("remote {} lane {}: synced frame number {} at seq {} cannot be the answer to any sync request of the remote", ri, lane, j, t1),
                        );
                        continue;
                    }
                };
                if !linked {
                    continue;
                }
                st.syncs_completed += 1;
                let racing = hist.iter().filter(|(q, _)| *q > t0 && *q < t1).count();
                if racing > 0 {
                    st.syncs_racing += 1;
                }
                st.windows.push((t0, t1, ri));
                if events_in_session > 0 {
                    st.events_before_synced = true;
                }
                let without = sync_without_link(rem, lane, idx);
                if without {
                    st.implicit += 1;
                } else {
                    st.explicit += 1;
                }
                let suffix = if without { "/sync-without-link" } else { "/linked-first" };
                match last_val {
                    None => v.fail(
                        format!("value-lane-snapshot:no-value{}", suffix),
                        format!("remote {} lane {}: synced read at seq {} (request written at {}) but no event carried the lane's value before it", ri, lane, t1, t0),
                    ),
                    Some(val) => {
                        // the lane held hist[i] from hist[i].seq until hist[i+1].seq
                        let ok = hist.iter().enumerate().any(|(i, (q, x))| {
                            *x == val && *q <= t1 && hist.get(i + 1).map(|n| n.0 > t0).unwrap_or(true)
                        });
                        if !ok {
                            v.fail(
                                format!("value-lane-snapshot:value-outside-window{}", suffix),
                                format!(
                                    "remote {} lane {}: sync request written at seq {}, synced read at seq {}: the remote's value is {} but the lane did not hold it at any instant of that window; history {:?}",
                                    ri, lane, t0, t1, val, hist
                                ),
                            );
                        }
                    }
                }
            }
        }
    }
    if linked && quiescent && rem.connected && !rem.eof && rem.decode_error.is_none() {
        let (cur_seq, cur) = *hist.last().unwrap();
        let set_after_linked = hist.iter().skip(1).any(|(s, _)| *s > linked_seq);
        if (events_in_session > 0 || set_after_linked) && last_val != Some(cur) {
            v.fail(
                "tail:stale-at-quiescence",
                format!(
                    "remote {} lane {}: still linked at quiescence, last received {:?} but the lane holds {} (set at seq {}, linked read at seq {}); history {:?}",
                    ri, lane, last_val, cur, cur_seq, linked_seq, hist
                ),
            );
        }
    }
}

fn check(maps: bool, case: &Case) -> Verdict {
    let probe: &[&str] = if maps { &MAP_LANES } else { &[] };
    let obs = run_case(&case.params, &case.flags, &case.programs, &case.ops, &ALL, probe);
    if std::env::var("VERIF_DUMP").is_ok() {
        dump(&obs);
    }
    let mut v = Verdict::new();
    if let Some(Err(e)) = &obs.result {
        v.fail("agent-failed", format!("the agent task ended with an error: {}", e));
    }
    let quiescent = !obs.stopped;
    let mut st = Stats::default();
    let mut mutations = 0usize;
    let mut lane_backlog = false;
    if maps {
        for li in 0..3 {
            let events = lane_events(&obs.trace, li);
            let final_map = fold(&events);
            mutations += events.len();
            for (ri, rem) in obs.remotes.iter().enumerate() {
                check_order(&mut v, ri, MAP_LANES[li], rem, quiescent, case.params.prune_remote_delay_ms);
                let s = check_map_sync(&mut v, ri, li, rem, &events, &obs.quiescent_marks);
                st.syncs_completed += s.syncs_completed;
                st.syncs_racing += s.syncs_racing;
                st.implicit += s.without_link;
                st.explicit += s.after_link;
                st.events_before_synced |= s.events_before_synced;
                st.windows.extend(s.windows.iter().map(|(a, b)| (*a, *b, ri)));
                if s.max_concurrent_keys >= 2 {
                    lane_backlog = true;
                }
                let mut tail = Verdict::new();
                let o = check_map_lane(&mut tail, ri, li, rem, &events, &final_map, quiescent, &obs.quiescent_marks);
                for f in tail.failures {
                    v.fail(format!("tail:{}", f.sig), f.detail);
                }
                st.coalesced |= o.coalesced || o.clear_skipped;
            }
        }
    } else {
        for li in 0..3 {
            let mut hist: Vec<(u64, i64)> = vec![(0, 0)];
            for (seq, ev) in &obs.trace {
                if let Ev::Value { lane, v } = ev {
                    if *lane as usize == li {
                        hist.push((*seq, *v));
                    }
                }
            }
            mutations += hist.len() - 1;
            for (ri, rem) in obs.remotes.iter().enumerate() {
                check_order(&mut v, ri, ALL[li], rem, quiescent, case.params.prune_remote_delay_ms);
                check_value_lane(&mut v, &mut st, ri, li, rem, &hist, quiescent, &obs.quiescent_marks);
            }
        }
    }
    // two remotes whose sync windows overlap
    let concurrent = st
        .windows
        .iter()
        .any(|a| st.windows.iter().any(|b| a.2 != b.2 && a.0 < b.1 && b.0 < a.1));
    if st.syncs_racing > 0 {
        v.nontrivial();
    }
    let lanes_of_kind: &[&str] = if maps { &MAP_LANES } else { &ALL[..3] };
    let mut resync_checked = false;
    for rem in &obs.remotes {
        for lane in lanes_of_kind {
            let first_unlink = rem.sent.iter().filter(|s| s.0 == *lane && s.1 == Req::Unlink).map(|s| s.2).min();
            if let Some(u) = first_unlink {
                resync_checked |= pair_synced_frames(rem, lane, &obs.quiescent_marks)
                    .iter()
                    .any(|p| matches!(p, SyncedPair::Req { queued, disturbed: false, written: Some(_), .. } if *queued > u));
            }
        }
    }
    v.class_if(resync_checked, "sync-after-unlink-checked");
    v.class_if(obs.remotes.iter().any(|r| matches!(&r.detached, Some((_, why)) if why == "RemoteTimedOut")), "idle-remote-pruned");
    v.class_if(case.params.prune_remote_delay_ms < 30_000, "short-prune-delay");
    v.class_if(st.syncs_completed > 0, "sync-completed");
    v.class_if(st.syncs_racing > 0, "sync-raced-with-mutation");
    v.class_if(st.implicit > 0, "sync-without-link");
    v.class_if(st.explicit > 0, "link-then-sync");
    v.class_if(concurrent, "concurrent-syncs(2+remotes)");
    v.class_if(st.coalesced, "tail-coalesced");
    v.class_if(st.events_before_synced, "events-before-synced");
    v.class_if(lane_backlog, "snapshot>=2keys");
    v.class_if(mutations >= 5, "mutations>=5");
    v.class_if(obs.remotes.len() >= 2, "remotes>=2");
    v.class_if(obs.stopped, "agent-stopped");
    v.class_if(obs.trace.iter().any(|(_, e)| matches!(e, Ev::ProgBegin { .. })), "handler-mutations");
    v
}

fn main() {
    let args: Vec<String> = std::env::args().skip(1).collect();
    let mut ctx = Ctx::new("C03", &args);
    ctx.rule(
        "op lists over 1-2 lanes of one kind (value: v0 v1 vt; map: m0 HashMap<i32>, m1 BTreeMap<String>, mt transient): sync envelopes at \
         generated positions inside update bursts (single commands, bursts of 2-6 commands pumped at once, handler programs, cascades) by 1-5 \
         remotes, each remote linking at most once per lane and only before its first sync (so with and without a preceding link), remote \
         channel capacities 1..4096 bytes, lane output buffers mostly 8..40 bytes, generated coop budget / select seed / schedule ops (remote \
         writes <=n bytes, reads <=n bytes, poll system <=k, settle, advance). Non-trivial = at least one completed sync had a mutation of \
         that lane stamped strictly inside its window [request fully written, synced read]. Distinct by the Debug form of the case.",
    );
    ctx.assume("the agent-side lifecycle trace (on_event / on_update / on_remove / on_clear) is the ground truth for the states a lane held (checked independently by C06; map lanes: cross-checked against a probe sync in C02)");
    ctx.assume("[t0, t1] = [sync request fully written by the remote, synced frame read by the remote] contains the true window in which the lane served the sync, so requiring the replica's state to occur inside it is sound");
    ctx.assume("single-threaded harness-owned schedule; op-level interleavings of agent task vs remotes");
    let n = ctx.pick(160_000, 3_000_000);
    let max_ops = ctx.pick(60, 150);
    ctx.prop("sync-map", n, move || arb_case(true, max_ops), |c: &Case| check(true, c));
    let n = ctx.pick(100_000, 2_000_000);
    ctx.prop("sync-value", n, move || arb_case(false, max_ops), |c: &Case| check(false, c));
    ctx.finish();
}
