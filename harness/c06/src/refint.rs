//! Reference interpreter (plain recursive Rust over the same program tables and a model of the lanes)
//! and the incremental block oracle.
//!
//! Semantics (docs/event_handler.md, docs/lifecycle.md): a handler that changes a lane is suspended,
//! the lane's handlers run to completion (value lane: on_event then on_set with the previous value; map
//! lane: on_update / on_remove / on_clear with the previous entry / contents), then the handler resumes.
//! A failure (or a stop instruction) unwinds the whole chain of interrupted handlers.

use crate::agent::{burst_step, Rec, Top};
use crate::ast::{arm_of, is_value, to_val, try_fails, xform, How, Obs, Src, Tables, HK, P, V};
use serde::{Deserialize, Serialize};
use std::collections::BTreeMap;

#[derive(Clone, Debug, Default, PartialEq, Eq)]
pub struct Model {
    pub v: [i32; 2],
    pub m: [BTreeMap<i32, i32>; 2],
    /// Implementation mirror only: the `previous` event a map lane still holds because the modification that
    /// recorded it was dropped (see `Quirk::*Drops`). `item_event` takes it the next time the lane reports a
    /// modification without recording a new one, i.e. on the removal of an absent key.
    stale: [Option<Casc>; 2],
}

impl Model {
    fn snapshot(&self, lane: u8) -> Vec<(i32, i32)> {
        self.m[(lane / 2) as usize].iter().map(|(k, v)| (*k, *v)).collect()
    }
    fn read(&self, src: Src) -> Obs {
        match src {
            Src::Val(l) => Obs::V(self.v[(l / 2) as usize]),
            Src::Entry(l, k) => Obs::E(self.m[(l / 2) as usize].get(&k).copied()),
            Src::Map(l) => Obs::M(self.snapshot(l)),
        }
    }
}

#[derive(Clone, Copy, Debug, PartialEq, Eq)]
pub enum Flow {
    Done,
    Fail,
    Stop,
    /// The reference execution exceeded the record budget (case abandoned).
    Overflow,
}

/// A command a remote sent to a lane.
#[derive(Clone, Debug, PartialEq, Eq, PartialOrd, Ord, Serialize, Deserialize)]
pub enum Cmd {
    Run(u16),
    Set { lane: u8, v: i32 },
    Upd { lane: u8, k: i32, v: i32 },
    Rem { lane: u8, k: i32 },
    Clr { lane: u8 },
    /// `@drop(n)`: remove the first n keys (in key order).
    Drop { lane: u8, n: u32 },
    /// `@take(n)`: keep the first n keys, remove the others (in key order).
    Take { lane: u8, n: u32 },
}

/// What started a block.
#[derive(Clone, Debug, PartialEq, Eq)]
pub enum Trigger {
    Top(Top),
    Ext(Cmd),
}

#[derive(Clone, Copy, Default)]
struct Sum {
    /// Depth of the deepest chain of triggered handlers below this body.
    depth: usize,
    /// Lanes modified by this body or anything it triggered.
    lanes: u8,
}

#[derive(Default)]
struct FrameState {
    sum: Sum,
    /// Lanes modified by triggered handlers in cascades of depth >= 2 started by this handler.
    deep_dirty: u8,
    /// Lanes modified by any cascade started by this handler.
    any_dirty: u8,
}

#[derive(Default, Clone, Debug)]
pub struct Stats {
    /// A handler read, after resuming, a lane modified by a cascade of depth >= 2 that it started.
    pub nontrivial: bool,
    /// A handler read, after resuming, a lane modified by a cascade it started.
    pub read_after_cascade: bool,
    pub max_depth: usize,
    pub mutations: usize,
    pub spawns: usize,
    pub branches: usize,
    pub transforms: usize,
    pub burst: bool,
    /// Executed and_then / and_then_contextual / and_then_try nodes.
    pub binds: [usize; 3],
    pub computed_mutations: usize,
    /// Nesting depth of value producing combinators that was executed.
    pub max_value_depth: usize,
    /// A combinator's operand `program.followed_by(value)` whose program mutates a lane was executed.
    pub multi_step_first: bool,
    pub noop_removes: usize,
    pub empty_clears: usize,
    pub same_value_sets: usize,
}

pub const RECORD_BUDGET: usize = 30000;

/// The handlers a lane mutation triggers (with the arguments they receive).
#[derive(Clone, Debug, PartialEq, Eq)]
enum Casc {
    Value { lane: u8, v: i32, prev: i32 },
    Update { lane: u8, k: i32, prev: Option<i32>, v: i32, map: Vec<(i32, i32)> },
    Remove { lane: u8, k: i32, prev: i32, map: Vec<(i32, i32)> },
    Clear { lane: u8, prev: Vec<(i32, i32)> },
}

/// The places where the implementation evaluates a continuation closure in the *same step* in which the
/// first operand completed with a lane modification, i.e. before the handlers triggered by that
/// modification run.
#[derive(Clone, Copy, Debug, PartialEq, Eq, PartialOrd, Ord)]
pub enum Quirk {
    /// `and_then_contextual`: the closure reads the agent before the triggered handlers ran.
    CtxBeforeCascade,
    /// `and_then_try`: the closure fails, the modification (and its handlers) is dropped.
    AndThenTryDrops,
    /// `try_handler`: the result is `Err`, the modification (and its handlers) is dropped.
    TryHandlerDrops,
}

impl Quirk {
    pub fn sig(&self) -> &'static str {
        match self {
            Quirk::CtxBeforeCascade => "continuation-runs-before-triggered-handlers:and_then_contextual",
            Quirk::AndThenTryDrops => "modification-dropped-on-failure:and_then_try",
            Quirk::TryHandlerDrops => "modification-dropped-on-failure:try_handler",
        }
    }
}

/// Which of the `Quirk` sites are mirrored (all false = documented semantics).
#[derive(Clone, Copy, Debug, Default, PartialEq, Eq)]
pub struct QuirkSet {
    pub ctx: bool,
    pub and_then_try: bool,
    pub try_handler: bool,
}

impl QuirkSet {
    pub fn any(&self) -> bool {
        self.ctx || self.and_then_try || self.try_handler
    }
    pub fn count(&self) -> usize {
        self.ctx as usize + self.and_then_try as usize + self.try_handler as usize
    }
    /// The 7 non-empty sets.
    pub fn all_nonempty() -> Vec<QuirkSet> {
        (1u8..8)
            .map(|b| QuirkSet { ctx: b & 1 != 0, and_then_try: b & 2 != 0, try_handler: b & 4 != 0 })
            .collect()
    }
}

pub struct Ref<'a> {
    pub t: &'a Tables,
    pub model: Model,
    pub out: Vec<Rec>,
    pub spawned: Vec<u16>,
    pub stats: Stats,
    overflow: bool,
    /// false: documented semantics (a change's handlers run before anything else of the handler that made
    /// it). true: mirror the implementation: when the operand of `and_then*` / `try_handler` completes in the
    /// very step that modified a lane, the continuation closure is evaluated first and the triggered handlers
    /// run afterwards (or never, if the closure fails).
    pub quirk_mode: QuirkSet,
    /// quirk mode: the cascade of the operand's final modification, not yet run.
    pending: Option<Casc>,
    /// An operand completed in the step that modified a lane (the two semantics may differ in this block).
    pub saw_tail_modification: bool,
    /// Quirk sites where the two semantics do differ, met while executing the current block.
    pub quirks: Vec<Quirk>,
}

fn how_index(h: How) -> usize {
    match h {
        How::Then => 0,
        How::Ctx(_) => 1,
        How::Try => 2,
    }
}

fn vdepth(v: &V) -> usize {
    match v {
        V::Get(_) | V::Const(_) => 0,
        V::Of(..) => 1,
        V::After(_, v) | V::Map(v, _) | V::Opt(v) | V::Try(v) => 1 + vdepth(v),
        V::Bind { first, arms, .. } => 1 + arms.iter().map(vdepth).max().unwrap_or(0).max(vdepth(first)),
        V::Join(a, b) => 1 + vdepth(a).max(vdepth(b)),
        V::Join3(a, b, c) => 1 + vdepth(a).max(vdepth(b)).max(vdepth(c)),
    }
}

/// Does the program contain a lane mutation (so that, as the first operand of a combinator, it reports a
/// modification in a step that is not the combinator's last)?
fn mutates_before_end(p: &P) -> bool {
    match p {
        P::Set { .. } | P::Upd { .. } | P::Rem { .. } | P::Clr { .. } | P::MutV { .. } => true,
        P::XformV { .. } | P::XformE { .. } | P::Replace { .. } | P::Burst { .. } => true,
        P::Seq(ps) => ps.iter().any(mutates_before_end),
        P::Then(a, b) => mutates_before_end(a) || mutates_before_end(b),
        P::Branch { arms, .. } => arms.iter().any(mutates_before_end),
        _ => false,
    }
}

fn bit(lane: u8) -> u8 {
    1 << lane
}

impl<'a> Ref<'a> {
    pub fn new(t: &'a Tables) -> Self {
        Ref {
            t,
            model: Model::default(),
            out: vec![],
            spawned: vec![],
            stats: Stats::default(),
            overflow: false,
            quirk_mode: QuirkSet::default(),
            pending: None,
            saw_tail_modification: false,
            quirks: vec![],
        }
    }

    fn push(&mut self, r: Rec) {
        if self.out.len() >= RECORD_BUDGET {
            self.overflow = true;
        } else {
            self.out.push(r);
        }
    }

    /// Run one lane handler (its own frame).
    fn handler(&mut self, lane: u8, kind: HK, enter: Rec, depth: usize) -> (Flow, Sum) {
        self.stats.max_depth = self.stats.max_depth.max(depth);
        self.push(enter);
        let t = self.t;
        let body = &t.lane[lane as usize][kind.slot()];
        let mut fs = FrameState::default();
        let flow = self.run(body, &mut fs, depth, false);
        if flow == Flow::Done {
            self.push(Rec::Leave { lane, kind });
        }
        (flow, fs.sum)
    }

    /// Apply a primitive mutation to the model; `None` when it changes nothing and triggers nothing.
    fn apply(&mut self, m: &P) -> Option<Casc> {
        match m {
            P::Set { lane, v } => {
                self.stats.mutations += 1;
                let prev = std::mem::replace(&mut self.model.v[(*lane / 2) as usize], *v);
                if prev == *v {
                    self.stats.same_value_sets += 1;
                }
                Some(Casc::Value { lane: *lane, v: *v, prev })
            }
            P::Upd { lane, k, v } => {
                self.stats.mutations += 1;
                self.model.stale[(*lane / 2) as usize] = None;
                let prev = self.model.m[(*lane / 2) as usize].insert(*k, *v);
                Some(Casc::Update { lane: *lane, k: *k, prev, v: *v, map: self.model.snapshot(*lane) })
            }
            P::Rem { lane, k } => match self.model.m[(*lane / 2) as usize].remove(k) {
                // removing an absent key changes nothing and triggers nothing (map_storage::remove)
                None => {
                    self.stats.noop_removes += 1;
                    // (implementation mirror) a stale `previous` is consumed now, with the current map
                    let stale = self.model.stale[(*lane / 2) as usize].take();
                    let map_now = self.model.snapshot(*lane);
                    stale.map(|c| match c {
                        Casc::Update { lane, k, prev, .. } => {
                            let v = map_now.iter().find(|(key, _)| *key == k).map(|(_, v)| *v).unwrap_or_default();
                            Casc::Update { lane, k, prev, v, map: map_now }
                        }
                        Casc::Remove { lane, k, prev, .. } => Casc::Remove { lane, k, prev, map: map_now },
                        other => other,
                    })
                }
                Some(prev) => {
                    self.stats.mutations += 1;
                    self.model.stale[(*lane / 2) as usize] = None;
                    Some(Casc::Remove { lane: *lane, k: *k, prev, map: self.model.snapshot(*lane) })
                }
            },
            P::Clr { lane } => {
                self.stats.mutations += 1;
                let prev = self.model.snapshot(*lane);
                if prev.is_empty() {
                    self.stats.empty_clears += 1;
                }
                self.model.stale[(*lane / 2) as usize] = None;
                self.model.m[(*lane / 2) as usize].clear();
                Some(Casc::Clear { lane: *lane, prev })
            }
            _ => None,
        }
    }

    /// Run the handlers a mutation triggered, to completion, in the frame `fs` of the handler that made it.
    fn cascade(&mut self, c: Casc, fs: &mut FrameState, depth: usize) -> Flow {
        let (lane, flow, casc) = match c {
            Casc::Value { lane, v, prev } => {
                // on_event then on_set, both with the value that was set
                let (flow, s1) = self.handler(lane, HK::OnEvent, Rec::OnEvent { lane, v }, depth + 1);
                let mut casc = Sum { depth: 1 + s1.depth, lanes: s1.lanes };
                if flow != Flow::Done {
                    (lane, flow, casc)
                } else {
                    let (flow, s2) = self.handler(lane, HK::OnSet, Rec::OnSet { lane, v, prev: Some(prev) }, depth + 1);
                    casc.depth = casc.depth.max(1 + s2.depth);
                    casc.lanes |= s2.lanes;
                    (lane, flow, casc)
                }
            }
            Casc::Update { lane, k, prev, v, map } => {
                let (flow, s) = self.handler(lane, HK::OnUpdate, Rec::OnUpdate { lane, k, prev, v, map }, depth + 1);
                (lane, flow, Sum { depth: 1 + s.depth, lanes: s.lanes })
            }
            Casc::Remove { lane, k, prev, map } => {
                let (flow, s) = self.handler(lane, HK::OnRemove, Rec::OnRemove { lane, k, prev, map }, depth + 1);
                (lane, flow, Sum { depth: 1 + s.depth, lanes: s.lanes })
            }
            Casc::Clear { lane, prev } => {
                let (flow, s) = self.handler(lane, HK::OnClear, Rec::OnClear { lane, prev }, depth + 1);
                (lane, flow, Sum { depth: 1 + s.depth, lanes: s.lanes })
            }
        };
        fs.sum.lanes |= bit(lane) | casc.lanes;
        fs.sum.depth = fs.sum.depth.max(casc.depth);
        fs.any_dirty |= casc.lanes;
        if casc.depth >= 2 {
            fs.deep_dirty |= casc.lanes;
        }
        flow
    }

    /// (implementation mirror) a map lane keeps the `previous` event of a dropped modification.
    fn dropped(&mut self, c: Casc) {
        match &c {
            Casc::Value { .. } => {}
            Casc::Update { lane, .. } | Casc::Remove { lane, .. } | Casc::Clear { lane, .. } => {
                self.model.stale[(*lane / 2) as usize] = Some(c.clone());
            }
        }
    }

    /// Is `rec` the entry record of the stale event a map lane still holds?
    pub fn stale_matches(&self, rec: &Rec) -> bool {
        let lane = match rec {
            Rec::OnUpdate { lane, .. } | Rec::OnRemove { lane, .. } | Rec::OnClear { lane, .. } => *lane,
            _ => return false,
        };
        if is_value(lane) {
            return false;
        }
        match (&self.model.stale[(lane / 2) as usize], rec) {
            (Some(Casc::Update { k, prev, .. }), Rec::OnUpdate { k: k2, prev: p2, v, .. }) => {
                // the stale event is delivered with the entry's current value
                k == k2 && prev == p2 && self.model.m[(lane / 2) as usize].get(k) == Some(v)
            }
            (Some(Casc::Remove { k, prev, .. }), Rec::OnRemove { k: k2, prev: p2, .. }) => k == k2 && prev == p2,
            (Some(Casc::Clear { prev, .. }), Rec::OnClear { prev: p2, .. }) => prev == p2,
            _ => false,
        }
    }

    /// A primitive mutation. `tp`: this step completes the operand of an enclosing `and_then*` /
    /// `try_handler` (tail position).
    fn mutate(&mut self, m: &P, fs: &mut FrameState, depth: usize, tp: bool) -> Flow {
        let Some(c) = self.apply(m) else {
            return Flow::Done;
        };
        if tp {
            self.saw_tail_modification = true;
            if self.quirk_mode.any() {
                // the enclosing site evaluates its closure first and then runs (or drops) the cascade
                self.pending = Some(c);
                return Flow::Done;
            }
        }
        self.cascade(c, fs, depth)
    }

    fn read(&mut self, src: Src, fs: &FrameState) -> Obs {
        if fs.deep_dirty & bit(src.lane()) != 0 {
            self.stats.nontrivial = true;
        }
        if fs.any_dirty & bit(src.lane()) != 0 {
            self.stats.read_after_cascade = true;
        }
        self.model.read(src)
    }

    /// Evaluate the first operand of an `and_then` / `and_then_contextual` / `and_then_try`, the continuation
    /// closure's own effects and (quirk mode) the deferred cascade.
    fn bound(&mut self, first: &V, how: How, fs: &mut FrameState, depth: usize) -> (Flow, i64) {
        self.stats.binds[how_index(how)] += 1;
        let (f, x) = self.eval(first, fs, depth, true);
        if f != Flow::Done {
            return (f, x);
        }
        let mut pending = self.pending.take();
        match how {
            How::Then => {}
            How::Ctx(src) => {
                if pending.is_some() && self.quirk_mode.ctx {
                    // the closure reads the agent before the triggered handlers run
                    self.quirks.push(Quirk::CtxBeforeCascade);
                } else if let Some(c) = pending.take() {
                    let f = self.cascade(c, fs, depth);
                    if f != Flow::Done {
                        return (f, x);
                    }
                }
                let o = self.read(src, fs);
                self.push(Rec::CtxGot(src, o));
            }
            How::Try => {
                if try_fails(x) {
                    if let Some(c) = pending {
                        if self.quirk_mode.and_then_try {
                            // the modification is dropped together with the failure: its handlers never run
                            self.quirks.push(Quirk::AndThenTryDrops);
                            self.dropped(c);
                        } else {
                            let f = self.cascade(c, fs, depth);
                            if f != Flow::Done {
                                return (f, x);
                            }
                        }
                    }
                    return (Flow::Fail, x);
                }
            }
        }
        if let Some(c) = pending {
            let f = self.cascade(c, fs, depth);
            if f != Flow::Done {
                return (f, x);
            }
        }
        (Flow::Done, x)
    }

    /// Value producing actions: strictly left to right, each sub-action to completion. `tp` as in `mutate`.
    fn eval(&mut self, v: &V, fs: &mut FrameState, depth: usize, tp: bool) -> (Flow, i64) {
        if self.overflow {
            return (Flow::Overflow, 0);
        }
        self.stats.max_value_depth = self.stats.max_value_depth.max(vdepth(v));
        match v {
            V::Get(src) => {
                let o = self.read(*src, fs);
                self.push(Rec::Got(*src, o.clone()));
                (Flow::Done, o.scalar())
            }
            V::Const(c) => (Flow::Done, *c as i64),
            V::After(p, v) => {
                if mutates_before_end(p) {
                    self.stats.multi_step_first = true;
                }
                let f = self.run(p, fs, depth, false);
                if f != Flow::Done {
                    return (f, 0);
                }
                self.eval(v, fs, depth, tp)
            }
            V::Of(p, c) => {
                if mutates_before_end(p) {
                    self.stats.multi_step_first = true;
                }
                (self.run(p, fs, depth, tp), *c as i64)
            }
            V::Map(v, c) => {
                let (f, x) = self.eval(v, fs, depth, tp);
                (f, x.wrapping_add(*c as i64))
            }
            V::Bind { first, how, arms } => {
                let (f, x) = self.bound(first, *how, fs, depth);
                if f != Flow::Done {
                    return (f, 0);
                }
                self.eval(&arms[arm_of(x, arms.len())], fs, depth, tp)
            }
            V::Join(a, b) => {
                let (f, x) = self.eval(a, fs, depth, false);
                if f != Flow::Done {
                    return (f, 0);
                }
                let (f, y) = self.eval(b, fs, depth, tp);
                (f, x.wrapping_add(y))
            }
            V::Join3(a, b, c) => {
                let (f, x) = self.eval(a, fs, depth, false);
                if f != Flow::Done {
                    return (f, 0);
                }
                let (f, y) = self.eval(b, fs, depth, false);
                if f != Flow::Done {
                    return (f, 0);
                }
                let (f, z) = self.eval(c, fs, depth, tp);
                (f, x.wrapping_add(y).wrapping_add(z))
            }
            V::Opt(v) => self.eval(v, fs, depth, tp),
            V::Try(v) => {
                // `try_handler` is itself a site: `Complete { result: Err, modified_item }` becomes `Fail`
                let (f, x) = self.eval(v, fs, depth, true);
                if f != Flow::Done {
                    return (f, x);
                }
                if try_fails(x) {
                    if let Some(c) = self.pending.take() {
                        if self.quirk_mode.try_handler {
                            self.quirks.push(Quirk::TryHandlerDrops);
                            self.dropped(c);
                        } else {
                            let f = self.cascade(c, fs, depth);
                            if f != Flow::Done {
                                return (f, x);
                            }
                        }
                    }
                    return (Flow::Fail, x);
                }
                if !tp {
                    // not the end of an enclosing operand: the modification reaches `run_handler` now
                    if let Some(c) = self.pending.take() {
                        let f = self.cascade(c, fs, depth);
                        return (f, x);
                    }
                }
                (Flow::Done, x)
            }
        }
    }

    fn run(&mut self, p: &P, fs: &mut FrameState, depth: usize, tp: bool) -> Flow {
        if self.overflow {
            return Flow::Overflow;
        }
        match p {
            P::Seq(ps) => {
                for (i, q) in ps.iter().enumerate() {
                    let f = self.run(q, fs, depth, tp && i + 1 == ps.len());
                    if f != Flow::Done {
                        return f;
                    }
                }
                Flow::Done
            }
            P::Then(a, b) => {
                let f = self.run(a, fs, depth, false);
                if f != Flow::Done {
                    return f;
                }
                self.run(b, fs, depth, tp)
            }
            P::Set { .. } | P::Upd { .. } | P::Rem { .. } | P::Clr { .. } => self.mutate(p, fs, depth, tp),
            P::XformV { lane, add } => {
                // with_value(f).and_then(set)
                let cur = self.model.v[(*lane / 2) as usize];
                self.mutate(&P::Set { lane: *lane, v: to_val(cur as i64, *add) }, fs, depth, tp)
            }
            P::XformE { lane, k, op, c } => {
                self.stats.transforms += 1;
                let cur = self.model.m[(*lane / 2) as usize].get(k).copied();
                match (cur, xform(*op, cur, *c)) {
                    (_, Some(n)) => self.mutate(&P::Upd { lane: *lane, k: *k, v: n }, fs, depth, tp),
                    (Some(_), None) => self.mutate(&P::Rem { lane: *lane, k: *k }, fs, depth, tp),
                    // absent and unchanged: no modification is reported at all
                    (None, None) => Flow::Done,
                }
            }
            P::Replace { lane, entries } => {
                let mut steps = vec![P::Clr { lane: *lane }];
                steps.extend(entries.iter().map(|(k, v)| P::Upd { lane: *lane, k: *k, v: *v }));
                let n = steps.len();
                // clear.followed_by(Sequentially(updates)); an empty Sequentially completes without a modification
                for (i, s) in steps.iter().enumerate() {
                    let f = self.mutate(s, fs, depth, tp && n > 1 && i + 1 == n);
                    if f != Flow::Done {
                        return f;
                    }
                }
                Flow::Done
            }
            P::Burst { lane, n, v } => {
                self.stats.burst = true;
                for i in 0..*n {
                    let f = self.mutate(&burst_step(*lane, i, *v), fs, depth, tp && i + 1 == *n);
                    if f != Flow::Done {
                        return f;
                    }
                }
                Flow::Done
            }
            P::Discard(v) => self.eval(v, fs, depth, tp).0,
            P::Branch { first, how, arms } => {
                self.stats.branches += 1;
                let (f, x) = self.bound(first, *how, fs, depth);
                if f != Flow::Done {
                    return f;
                }
                self.run(&arms[arm_of(x, arms.len())], fs, depth, tp)
            }
            P::MutV { first, how, target, off } => {
                self.stats.computed_mutations += 1;
                let (f, x) = self.bound(first, *how, fs, depth);
                if f != Flow::Done {
                    return f;
                }
                let m = target.with_value(to_val(x, *off));
                self.run(&m, fs, depth, tp)
            }
            P::Eff(l) => {
                self.push(Rec::Eff(*l));
                Flow::Done
            }
            P::Suspend { prog, .. } => {
                self.stats.spawns += 1;
                self.push(Rec::Spawn(*prog));
                self.spawned.push(*prog);
                Flow::Done
            }
            P::Fail => Flow::Fail,
            P::Stop => Flow::Stop,
        }
    }

    /// The keys a `@drop(n)` / `@take(n)` removes from the current model, in removal order.
    pub fn drop_take_keys(&self, c: &Cmd) -> Vec<i32> {
        match c {
            Cmd::Drop { lane, n } => self.model.m[(*lane / 2) as usize].keys().take(*n as usize).copied().collect(),
            Cmd::Take { lane, n } => self.model.m[(*lane / 2) as usize].keys().skip(*n as usize).copied().collect(),
            _ => vec![],
        }
    }

    /// Execute one block from the current model state; returns the expected records.
    pub fn block(&mut self, trig: &Trigger) -> (Vec<Rec>, Flow, Vec<u16>) {
        self.out.clear();
        self.spawned.clear();
        self.quirks.clear();
        self.pending = None;
        self.saw_tail_modification = false;
        let mut fs = FrameState::default();
        let t = self.t;
        static EMPTY: P = P::Seq(vec![]);
        let mut flow = match trig {
            Trigger::Top(top) => {
                let body: &P = match top {
                    Top::Start => &t.start,
                    Top::Stop => &t.stop,
                    Top::Run(i) => t.run.get(*i as usize).unwrap_or(&EMPTY),
                    Top::Spawned(i) => t.spawn.get(*i as usize).unwrap_or(&EMPTY),
                };
                self.push(Rec::Begin(*top));
                let f = self.run(body, &mut fs, 0, false);
                if f == Flow::Done {
                    self.push(Rec::End(*top));
                }
                f
            }
            Trigger::Ext(Cmd::Run(i)) => return self.block(&Trigger::Top(Top::Run(*i))),
            Trigger::Ext(Cmd::Set { lane, v }) => self.mutate(&P::Set { lane: *lane, v: *v }, &mut fs, 0, false),
            Trigger::Ext(Cmd::Upd { lane, k, v }) => self.mutate(&P::Upd { lane: *lane, k: *k, v: *v }, &mut fs, 0, false),
            Trigger::Ext(Cmd::Rem { lane, k }) => self.mutate(&P::Rem { lane: *lane, k: *k }, &mut fs, 0, false),
            Trigger::Ext(Cmd::Clr { lane }) => self.mutate(&P::Clr { lane: *lane }, &mut fs, 0, false),
            Trigger::Ext(c @ (Cmd::Drop { lane, .. } | Cmd::Take { lane, .. })) => {
                // the keys are listed once (map_storage::drop_or_take, ascending key order), then removed one by one
                // by the same handler; every removal reports its own modification
                let mut f = Flow::Done;
                for k in self.drop_take_keys(c) {
                    f = self.mutate(&P::Rem { lane: *lane, k }, &mut fs, 0, false);
                    if f != Flow::Done {
                        break;
                    }
                }
                f
            }
        };
        if self.overflow {
            flow = Flow::Overflow;
        }
        (std::mem::take(&mut self.out), flow, std::mem::take(&mut self.spawned))
    }
}

/// Static worst-case number of records a case can produce (saturating); used to discard explosive
/// cases before they are run.
pub fn worst_case_records(t: &Tables, runs: &[u16], ext_muts: usize) -> u64 {
    // lane handler costs, highest lane first (handlers only touch higher lanes)
    let mut lane_cost = [0u64; 4]; // cost of one mutation of lane i (all handlers it triggers)
    let mut spawn_cost = vec![0u64; t.spawn.len()];
    fn vcost(v: &V, lane_cost: &[u64; 4], spawn_cost: &[u64]) -> u64 {
        match v {
            V::Get(_) => 1,
            V::Const(_) => 0,
            V::After(p, v) => cost(p, lane_cost, spawn_cost).saturating_add(vcost(v, lane_cost, spawn_cost)),
            V::Of(p, _) => cost(p, lane_cost, spawn_cost),
            V::Map(v, _) | V::Opt(v) | V::Try(v) => vcost(v, lane_cost, spawn_cost),
            V::Bind { first, arms, .. } => vcost(first, lane_cost, spawn_cost)
                .saturating_add(arms.iter().map(|a| vcost(a, lane_cost, spawn_cost)).max().unwrap_or(0)),
            V::Join(a, b) => vcost(a, lane_cost, spawn_cost).saturating_add(vcost(b, lane_cost, spawn_cost)),
            V::Join3(a, b, c) => vcost(a, lane_cost, spawn_cost)
                .saturating_add(vcost(b, lane_cost, spawn_cost))
                .saturating_add(vcost(c, lane_cost, spawn_cost)),
        }
    }
    fn cost(p: &P, lane_cost: &[u64; 4], spawn_cost: &[u64]) -> u64 {
        match p {
            P::Seq(ps) => ps.iter().fold(0u64, |a, q| a.saturating_add(cost(q, lane_cost, spawn_cost))),
            P::Then(a, b) => cost(a, lane_cost, spawn_cost).saturating_add(cost(b, lane_cost, spawn_cost)),
            P::Set { lane, .. } | P::Upd { lane, .. } | P::Rem { lane, .. } | P::Clr { lane } => lane_cost[*lane as usize],
            P::XformV { lane, .. } | P::XformE { lane, .. } => lane_cost[*lane as usize],
            P::Replace { lane, entries } => lane_cost[*lane as usize].saturating_mul(1 + entries.len() as u64),
            P::Burst { lane, n, .. } => lane_cost[*lane as usize].saturating_mul(*n as u64),
            P::Eff(_) => 1,
            P::Discard(v) => vcost(v, lane_cost, spawn_cost),
            P::Branch { first, arms, .. } => vcost(first, lane_cost, spawn_cost)
                .saturating_add(arms.iter().map(|a| cost(a, lane_cost, spawn_cost)).max().unwrap_or(0)),
            P::MutV { first, target, .. } => {
                vcost(first, lane_cost, spawn_cost).saturating_add(cost(target, lane_cost, spawn_cost))
            }
            P::Suspend { prog, .. } => 1u64.saturating_add(spawn_cost.get(*prog as usize).copied().unwrap_or(0)),
            P::Fail | P::Stop => 0,
        }
    }
    // spawn programs and lane handlers depend on each other only "upwards" in (level, index): iterate
    // to a fixpoint (bounded: the dependency order is acyclic)
    for _ in 0..(t.spawn.len() + 6) {
        for i in (0..4usize).rev() {
            let slots = &t.lane[i];
            lane_cost[i] = if is_value(i as u8) {
                // both handlers run
                slots.iter().fold(0u64, |a, p| a.saturating_add(2).saturating_add(cost(p, &lane_cost, &spawn_cost)))
            } else {
                slots.iter().map(|p| 2u64.saturating_add(cost(p, &lane_cost, &spawn_cost))).max().unwrap_or(0)
            };
        }
        for j in (0..t.spawn.len()).rev() {
            spawn_cost[j] = 2u64.saturating_add(cost(&t.spawn[j], &lane_cost, &spawn_cost));
        }
    }
    let mut total = 2u64.saturating_add(cost(&t.start, &lane_cost, &spawn_cost));
    total = total.saturating_add(2u64.saturating_add(cost(&t.stop, &lane_cost, &spawn_cost)));
    for r in runs {
        if let Some(p) = t.run.get(*r as usize) {
            total = total.saturating_add(2u64.saturating_add(cost(p, &lane_cost, &spawn_cost)));
        }
    }
    let max_lane = lane_cost.iter().copied().max().unwrap_or(0);
    total.saturating_add(max_lane.saturating_mul(ext_muts as u64))
}

// ------------------------------------------------------------------------------------------------
// the incremental block oracle

#[derive(Clone, Debug)]
pub struct Outcome {
    /// `Some` once the agent task has completed.
    pub result: Option<Result<(), String>>,
    /// The agent was still running (idle) after the final drain, i.e. before the harness asked it to
    /// stop: every suspended program must have run by then.
    pub alive_after_drain: bool,
}

#[derive(Clone, Copy, Debug, PartialEq, Eq)]
enum Phase {
    BeforeStart,
    Running,
    /// on_start instructed a stop (the agent fails to start): nothing or only on_stop may follow.
    StartStopped,
    /// A handler instructed the agent to stop: only on_stop may follow.
    Stopping,
    /// on_stop ran: nothing may follow.
    AfterStop,
    /// A failure that the agent treats as fatal: nothing may follow.
    Failed,
}

#[derive(Default, Debug)]
pub struct Report {
    pub failures: Vec<(String, String)>,
    pub stats: Stats,
    pub blocks: usize,
    pub spawned_blocks: usize,
    pub ext_blocks: usize,
    pub run_blocks: usize,
    pub aborted_blocks: usize,
    pub fail_swallowed: usize,
    pub fatal_failure: bool,
    pub stop_instructed: bool,
    pub start_stopped: bool,
    pub on_stop_ran: bool,
    pub overflow: bool,
    /// Blocks that matched only the implementation's behaviour at a `Quirk` site.
    pub quirk_blocks: usize,
    /// Quirk sites executed (documented-mode count).
    pub quirk_sites: usize,
}

fn mismatch_sig(exp: &Rec, got: Option<&Rec>) -> String {
    let Some(got) = got else {
        return format!("missing:expected={}", exp.kind());
    };
    match (exp, got) {
        (Rec::OnSet { lane: l1, v: v1, prev: p1 }, Rec::OnSet { lane: l2, v: v2, prev: p2 }) if l1 == l2 && v1 == v2 && p1 != p2 => {
            "wrong-previous:on_set".into()
        }
        (Rec::OnUpdate { lane: l1, k: k1, v: v1, prev: p1, .. }, Rec::OnUpdate { lane: l2, k: k2, v: v2, prev: p2, .. })
            if l1 == l2 && k1 == k2 && v1 == v2 && p1 != p2 =>
        {
            "wrong-previous:on_update".into()
        }
        (Rec::OnRemove { lane: l1, k: k1, prev: p1, .. }, Rec::OnRemove { lane: l2, k: k2, prev: p2, .. }) if l1 == l2 && k1 == k2 && p1 != p2 => {
            "wrong-previous:on_remove".into()
        }
        (Rec::OnClear { lane: l1, prev: p1 }, Rec::OnClear { lane: l2, prev: p2 }) if l1 == l2 && p1 != p2 => "wrong-previous:on_clear".into(),
        (Rec::Got(s1, o1), Rec::Got(s2, o2)) if s1 == s2 && o1 != o2 => "wrong-read:resumed-handler-saw-other-state".into(),
        (Rec::CtxGot(s1, o1), Rec::CtxGot(s2, o2)) if s1 == s2 && o1 != o2 => "wrong-read:continuation-saw-other-state".into(),
        (a, b) if a.kind() == b.kind() => format!("payload:{}", a.kind()),
        (a, b) => format!("order:expected={},observed={}", a.kind(), b.kind()),
    }
}

/// One explanation attempt for a block: the documented execution and, if that differs from the observed records and
/// the block contains a closure-in-the-same-step site, the variants that mirror the implementation there.
struct Attempt {
    exp: Vec<Rec>,
    doc_exp: Vec<Rec>,
    flow: Flow,
    spawned: Vec<u16>,
    /// Finding signatures under which the block is explained (empty: documented execution).
    quirks: Vec<Quirk>,
    model: Model,
    /// First differing record when nothing explains the block (of the variant that agrees longest).
    bad: Option<usize>,
    overflow: bool,
    saw_tail: bool,
}

fn attempt(r: &mut Ref, trig: &Trigger, start_model: &Model, trace: &[Rec], pos: usize) -> Attempt {
    let first_diff = |exp: &[Rec]| -> Option<usize> { (0..exp.len()).find(|i| trace.get(pos + i) != Some(&exp[*i])) };
    r.model = start_model.clone();
    r.quirk_mode = QuirkSet::default();
    let (exp, flow, spawned) = r.block(trig);
    let saw_tail = r.saw_tail_modification;
    let mut at = Attempt {
        doc_exp: exp.clone(),
        bad: first_diff(&exp),
        exp,
        flow,
        spawned,
        quirks: vec![],
        model: r.model.clone(),
        overflow: flow == Flow::Overflow,
        saw_tail,
    };
    if at.overflow || at.bad.is_none() || !saw_tail {
        return at;
    }
    // Of the variants that explain the observed records the longest one is taken (an aborted block is a prefix of
    // anything); when nothing explains the block, the variant that agrees with the observed records longest is reported.
    let mut best: Option<(Vec<Rec>, Flow, Vec<u16>, Vec<Quirk>, Model, usize)> = None;
    for qs in QuirkSet::all_nonempty() {
        r.model = start_model.clone();
        r.quirk_mode = qs;
        let (e2, f2, s2) = r.block(trig);
        if f2 == Flow::Overflow {
            continue;
        }
        if let Some(i) = first_diff(&e2) {
            if best.is_none() && i > at.bad.unwrap_or(0) {
                at.bad = Some(i);
                at.exp = e2;
            }
            continue;
        }
        let better = match &best {
            None => true,
            Some((e, _, _, _, _, n)) => e2.len() > e.len() || (e2.len() == e.len() && qs.count() < *n),
        };
        if better {
            best = Some((e2, f2, s2, r.quirks.clone(), r.model.clone(), qs.count()));
        }
    }
    r.quirk_mode = QuirkSet::default();
    if let Some((e2, f2, s2, mut qs, model, _)) = best {
        qs.sort();
        qs.dedup();
        at.exp = e2;
        at.flow = f2;
        at.spawned = s2;
        at.quirks = qs;
        at.model = model;
        at.bad = None;
    }
    at
}

/// Check an observed trace against the reference, block by block, following the observed block order.
/// `sent` = every command any remote queued (an upper bound on what can have been processed).
pub fn verify(t: &Tables, trace: &[Rec], sent: &[Cmd], outcome: &Outcome) -> Report {
    let mut rep = Report::default();
    let mut r = Ref::new(t);
    let mut avail: BTreeMap<Cmd, usize> = BTreeMap::new();
    for c in sent {
        *avail.entry(c.clone()).or_default() += 1;
    }
    let mut pending: BTreeMap<u16, usize> = BTreeMap::new();
    let mut phase = Phase::BeforeStart;
    let mut pos = 0usize;
    let mut last_flow = Flow::Done;
    let mut broken = false;
    macro_rules! fail {
        ($sig:expr, $($fmt:tt)+) => {{
            rep.failures.push(($sig.to_string(), format!($($fmt)+)));
        }};
    }
    let ctx_window = |pos: usize| -> String {
        let lo = pos.saturating_sub(6);
        let hi = (pos + 4).min(trace.len());
        format!("observed[{}..{}] = {:?}", lo, hi, &trace[lo..hi])
    };

    while pos < trace.len() {
        let first = &trace[pos];
        let trig = match first {
            Rec::Begin(top) => match top {
                Top::Run(i) => Trigger::Ext(Cmd::Run(*i)),
                other => Trigger::Top(*other),
            },
            Rec::OnEvent { lane, v } => Trigger::Ext(Cmd::Set { lane: *lane, v: *v }),
            Rec::OnUpdate { lane, k, v, .. } => Trigger::Ext(Cmd::Upd { lane: *lane, k: *k, v: *v }),
            Rec::OnRemove { lane, k, .. } => Trigger::Ext(Cmd::Rem { lane: *lane, k: *k }),
            Rec::OnClear { lane, .. } => Trigger::Ext(Cmd::Clr { lane: *lane }),
            other => {
                if last_flow != Flow::Done {
                    fail!(
                        format!("executed-after-abort:{}", other.kind()),
                        "a record follows a handler chain that failed / was stopped, outside any new top-level handler, at {}: {}",
                        pos,
                        ctx_window(pos)
                    );
                } else {
                    fail!(
                        format!("orphan-record:{}", other.kind()),
                        "record at {} is not inside any top-level handler (the previous one was complete): {}",
                        pos,
                        ctx_window(pos)
                    );
                }
                broken = true;
                break;
            }
        };
        // --- may this block run now?
        let is_start = trig == Trigger::Top(Top::Start);
        let is_stop = trig == Trigger::Top(Top::Stop);
        match phase {
            Phase::BeforeStart if !is_start => {
                fail!("on-start-not-first", "the first top-level handler is {:?}, not on_start: {}", trig, ctx_window(pos));
                broken = true;
                break;
            }
            Phase::Running if is_start => {
                fail!("on-start-twice", "on_start ran again at {}: {}", pos, ctx_window(pos));
                broken = true;
                break;
            }
            Phase::StartStopped | Phase::Stopping if !is_stop => {
                fail!(
                    "handler-after-stop-instructed",
                    "after a handler instructed the agent to stop, {:?} ran (only on_stop may follow): {}",
                    trig,
                    ctx_window(pos)
                );
                broken = true;
                break;
            }
            Phase::AfterStop => {
                fail!("handler-after-on-stop", "{:?} ran after on_stop: {}", trig, ctx_window(pos));
                broken = true;
                break;
            }
            Phase::Failed => {
                fail!(
                    "handler-after-fatal-failure",
                    "{:?} ran after a handler failure that ends the agent: {}",
                    trig,
                    ctx_window(pos)
                );
                broken = true;
                break;
            }
            _ => {}
        }
        // (implementation mirror) a map handler at top level that no command explains may be the stale event of
        // a dropped modification, consumed by a remote's removal of an absent key
        // A top-level on_remove may be the first removal of a `@drop(n)` / `@take(n)` as well as a `@remove`: take the
        // available command that explains most of the following records; it is consumed only if it is the only one
        // that explains them.
        let mut ambiguous = false;
        let trig = match (&trig, first) {
            (Trigger::Ext(Cmd::Rem { lane, k }), Rec::OnRemove { .. }) => {
                let (lane, k) = (*lane, *k);
                let mut cands: Vec<Cmd> = avail
                    .iter()
                    .filter(|(c, n)| {
                        **n > 0
                            && match c {
                                Cmd::Rem { lane: l, k: k2 } => *l == lane && *k2 == k,
                                Cmd::Drop { lane: l, .. } | Cmd::Take { lane: l, .. } => *l == lane && r.drop_take_keys(c).first() == Some(&k),
                                _ => false,
                            }
                    })
                    .map(|(c, _)| c.clone())
                    .collect();
                if cands.len() <= 1 && matches!(cands.first(), None | Some(Cmd::Rem { .. })) {
                    trig
                } else {
                    let start_model = r.model.clone();
                    let mut best: Option<(usize, Cmd)> = None;
                    let mut explained = 0;
                    for c in cands.drain(..) {
                        let at = attempt(&mut r, &Trigger::Ext(c.clone()), &start_model, trace, pos);
                        if at.overflow || at.bad.is_some() {
                            continue;
                        }
                        explained += 1;
                        if best.as_ref().map(|(n, _)| at.exp.len() > *n).unwrap_or(true) {
                            best = Some((at.exp.len(), c));
                        }
                    }
                    r.model = start_model;
                    ambiguous = explained > 1;
                    match best {
                        Some((_, c)) => Trigger::Ext(c),
                        None => trig,
                    }
                }
            }
            _ => trig,
        };
        // Which of several removals of absent keys fired the stale event cannot be told from the trace (they are all
        // invisible otherwise), so the substitute only has to exist; it is not consumed.
        let mut stale_substitute = false;
        let trig = match &trig {
            Trigger::Ext(Cmd::Upd { lane, .. } | Cmd::Rem { lane, .. } | Cmd::Clr { lane }) if r.stale_matches(first) => {
                let lane = *lane;
                let absent = avail.iter().find_map(|(c, n)| match c {
                    Cmd::Rem { lane: l, k } if *l == lane && *n > 0 && !r.model.m[(lane / 2) as usize].contains_key(k) => Some(c.clone()),
                    _ => None,
                });
                match absent {
                    Some(c) => {
                        stale_substitute = true;
                        Trigger::Ext(c)
                    }
                    None => trig,
                }
            }
            _ => trig,
        };
        match &trig {
            Trigger::Top(Top::Spawned(p)) => {
                let n = pending.entry(*p).or_default();
                if *n == 0 {
                    fail!(
                        "spawned-ran-unrequested",
                        "suspended program {} ran although no (further) instance of it was pending: {}",
                        p,
                        ctx_window(pos)
                    );
                    broken = true;
                    break;
                }
                *n -= 1;
                rep.spawned_blocks += 1;
            }
            Trigger::Ext(cmd) => {
                let n = avail.entry(cmd.clone()).or_default();
                if *n == 0 {
                    let sig = if last_flow != Flow::Done {
                        format!("executed-after-abort:{}", first.kind())
                    } else {
                        format!("unexplained-handler:{}", first.kind())
                    };
                    fail!(
                        sig,
                        "a lane handler ran at top level for {:?} but no remote sent such a command (or it was already consumed): {}",
                        cmd,
                        ctx_window(pos)
                    );
                    broken = true;
                    break;
                }
                if !stale_substitute && !ambiguous {
                    *n -= 1;
                }
                if matches!(cmd, Cmd::Run(_)) {
                    rep.run_blocks += 1;
                } else {
                    rep.ext_blocks += 1;
                }
            }
            _ => {}
        }
        if is_stop && phase == Phase::Running && outcome.alive_after_drain {
            // this on_stop is the consequence of the harness's final stop request, issued when the agent
            // was idle after all timers had fired: every suspended program must have run
            let left: Vec<(u16, usize)> = pending.iter().filter(|(_, n)| **n > 0).map(|(p, n)| (*p, *n)).collect();
            if !left.is_empty() {
                fail!(
                    "spawned-not-run",
                    "the agent was idle and alive but suspended programs never ran (program, instances): {:?}",
                    left
                );
            }
        }
        // --- expected records of this block from the model state at its start
        let start_model = r.model.clone();
        let at = attempt(&mut r, &trig, &start_model, trace, pos);
        if at.overflow {
            rep.overflow = true;
            broken = true;
            break;
        }
        rep.blocks += 1;
        rep.quirk_sites += at.saw_tail as usize;
        if at.bad.is_none() && !at.quirks.is_empty() {
            for q in &at.quirks {
                fail!(
                    q.sig(),
                    "block {:?} starting at {}: the observed records equal the execution in which the continuation closure is \
                     evaluated in the same step as the first operand's final lane modification (before / instead of the handlers \
                     that modification triggers), not the documented depth-first order.\n documented = {:?}\n observed   = {:?}",
                    trig,
                    pos,
                    at.doc_exp,
                    at.exp
                );
            }
            rep.quirk_blocks += 1;
        }
        r.model = at.model;
        let (exp, flow, spawned, bad) = (at.exp, at.flow, at.spawned, at.bad);
        if let Some(i) = bad {
            let e = exp[i].clone();
            let g = trace.get(pos + i).cloned();
            fail!(
                mismatch_sig(&e, g.as_ref()),
                "block {:?} starting at {}: record {} differs: expected {:?}, observed {:?}\n expected block = {:?}\n {}",
                trig,
                pos,
                i,
                e,
                g,
                exp,
                ctx_window(pos + i)
            );
            broken = true;
            break;
        }
        pos += exp.len();
        for p in spawned {
            *pending.entry(p).or_default() += 1;
        }
        last_flow = flow;
        if flow != Flow::Done {
            rep.aborted_blocks += 1;
        }
        // --- phase transitions
        phase = match (&trig, flow) {
            (Trigger::Top(Top::Stop), _) => {
                rep.on_stop_ran = true;
                if flow == Flow::Fail {
                    rep.fatal_failure = true;
                }
                Phase::AfterStop
            }
            (Trigger::Top(Top::Start), Flow::Done) => Phase::Running,
            (Trigger::Top(Top::Start), Flow::Stop) => {
                rep.start_stopped = true;
                Phase::StartStopped
            }
            (Trigger::Top(_), Flow::Fail) => {
                // on_start / suspended program: AgentInitError::UserCodeError / AgentTaskError::UserCodeError
                rep.fatal_failure = true;
                Phase::Failed
            }
            (_, Flow::Stop) => {
                rep.stop_instructed = true;
                Phase::Stopping
            }
            (Trigger::Ext(_), Flow::Fail) => {
                // A failure below a command received from a remote: the statement only requires that
                // nothing further of the chain runs. (The agent currently logs it and carries on.)
                rep.fail_swallowed += 1;
                Phase::Running
            }
            _ => Phase::Running,
        };
    }
    rep.stats = r.stats.clone();
    if broken {
        return rep;
    }
    // --- end of trace
    match (&outcome.result, phase) {
        (_, Phase::BeforeStart) => {
            fail!("on-start-missing", "no handler ran at all (on_start must run when the agent starts); result {:?}", outcome.result);
        }
        (_, Phase::Stopping) => {
            fail!(
                "on-stop-missing",
                "a handler instructed the agent to stop but on_stop did not run; result {:?}",
                outcome.result
            );
        }
        (Some(Ok(())), Phase::Running) => {
            fail!("on-stop-missing", "the agent stopped cleanly but on_stop did not run");
        }
        (Some(Ok(())), Phase::Failed) | (None, Phase::Failed) => {
            fail!(
                "failure-not-fatal",
                "a failed on_start / suspended handler did not end the agent task with an error; result {:?}",
                outcome.result
            );
        }
        (None, Phase::Running) => {
            // still alive after the final drain: every suspended program must have run
            let left: Vec<(u16, usize)> = pending.iter().filter(|(_, n)| **n > 0).map(|(p, n)| (*p, *n)).collect();
            if !left.is_empty() {
                fail!(
                    "spawned-not-run",
                    "the agent is idle and alive but suspended programs never ran (program, instances): {:?}",
                    left
                );
            }
        }
        _ => {}
    }
    rep
}
