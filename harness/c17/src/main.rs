//! C17 Inactivity shutdown needs all parties idle at once and cannot deadlock.
//!
//! Engine `enum` (DESIGN.md §2.2, §4 C17): bounded-exhaustive enumeration of operation sequences
//! {vote_i, rescind_i, drop_i, poll receiver} on the REAL coordinator
//! (`swimos_runtime::timeout_coord`, reached through `verif_hooks`) with a counting waker, compared step by
//! step with a reference model (set of outstanding votes + dropped parties + unanimity latch); random
//! longer sequences; and a real-thread stress tier whose verdict only uses schedule independent invariants.
mod agentrt;
mod dlrt;
mod model;
mod threads;
mod tree;

use model::{Mode, Op, RunStats};
use proptest::prelude::*;
use serde::{Deserialize, Serialize};
use std::collections::BTreeMap;
use vcommon::{Bulk, Ctx, Verdict};

/// One runner case of the exhaustive tiers: the whole subtree of op sequences that extend `prefix`
/// up to `depth` operations is executed inside the oracle (every sequence from scratch on a fresh
/// coordinator).
#[derive(Clone, Debug, Serialize, Deserialize)]
pub struct TreeCase {
    parties: u8,
    /// Caller discipline (what agent/task/mod.rs and downlink/mod.rs do): rescind only with an own vote
    /// outstanding, and after being told `Unanimous` a party only stops (drops its voter).
    callers_only: bool,
    depth: u8,
    prefix: Vec<Op>,
}

#[derive(Clone, Debug, Serialize, Deserialize)]
pub struct SeqCase {
    parties: u8,
    callers_only: bool,
    ops: Vec<Op>,
}

struct Grammar17 {
    n: u8,
}

impl tree::Grammar for Grammar17 {
    /// bit i set = party i's voter has been dropped
    type S = u8;
    fn init(&self) -> u8 {
        0
    }
    fn nops(&self) -> usize {
        1 + 3 * self.n as usize
    }
    fn next(&self, s: u8, op: usize) -> Option<u8> {
        if op == 0 {
            return Some(s); // poll receiver
        }
        let party = ((op - 1) / 3) as u8;
        if s & (1 << party) != 0 {
            return None;
        }
        if (op - 1) % 3 == 2 {
            Some(s | (1 << party))
        } else {
            Some(s)
        }
    }
}

fn op_of_index(idx: usize) -> Op {
    if idx == 0 {
        Op::P
    } else {
        let party = ((idx - 1) / 3) as u8;
        match (idx - 1) % 3 {
            0 => Op::V(party),
            1 => Op::R(party),
            _ => Op::D(party),
        }
    }
}

fn index_of_op(op: Op) -> Option<usize> {
    match op {
        Op::P => Some(0),
        Op::V(p) => Some(1 + 3 * p as usize),
        Op::R(p) => Some(2 + 3 * p as usize),
        Op::D(p) => Some(3 + 3 * p as usize),
        _ => None,
    }
}

const CLASS_NAMES: [&str; model::NCLASS] = model::CLASS_NAMES;

#[derive(Default)]
struct Acc {
    evals: u64,
    nontrivial: u64,
    classes: [u64; model::NCLASS],
    fails: BTreeMap<String, (usize, String)>,
}

impl Acc {
    fn add(&mut self, st: &RunStats) {
        self.evals += 1;
        if st.nontrivial {
            self.nontrivial += 1;
        }
        for i in 0..model::NCLASS {
            if st.classes & (1 << i) != 0 {
                self.classes[i] += 1;
            }
        }
    }
    fn fail(&mut self, sig: String, len: usize, detail: String) {
        match self.fails.get(&sig) {
            Some((l, _)) if *l <= len => {}
            _ => {
                self.fails.insert(sig, (len, detail));
            }
        }
    }
    fn into_verdict(self, bulk: bool) -> Verdict {
        let mut v = Verdict::new();
        if bulk {
            v.bulk = Some(Bulk {
                evaluations: self.evals,
                distinct_nontrivial: self.nontrivial,
                classes: CLASS_NAMES
                    .iter()
                    .zip(self.classes.iter())
                    .filter(|(_, n)| **n > 0)
                    .map(|(c, n)| (*c, *n))
                    .collect(),
            });
        } else {
            if self.nontrivial > 0 {
                v.nontrivial();
            }
            for (c, n) in CLASS_NAMES.iter().zip(self.classes.iter()) {
                if *n > 0 {
                    v.class(c);
                }
            }
        }
        for (sig, (_, detail)) in self.fails {
            v.fail(sig, detail);
        }
        v
    }
}

fn check_tree(case: &TreeCase) -> Verdict {
    let g = Grammar17 { n: case.parties };
    let mut acc = Acc::default();
    let prefix: Option<Vec<u8>> = case
        .prefix
        .iter()
        .map(|op| index_of_op(*op).map(|i| i as u8))
        .collect();
    let Some(prefix) = prefix else {
        let mut v = Verdict::new();
        v.bulk = Some(Bulk::default());
        return v;
    };
    let Some(mut t) = tree::Tree::new(g, &prefix, case.depth as usize) else {
        let mut v = Verdict::new();
        v.bulk = Some(Bulk::default());
        return v;
    };
    let mode = if case.callers_only {
        Mode::StrictCallers
    } else {
        Mode::Strict
    };
    let mut ops: Vec<Op> = Vec::with_capacity(case.depth as usize);
    loop {
        ops.clear();
        ops.extend(t.seq().iter().map(|i| op_of_index(*i as usize)));
        let out = model::run(case.parties as usize, &ops, mode);
        let cut = match out.end {
            model::End::Complete => {
                acc.add(&out.stats);
                None
            }
            // The sequence is not in the domain from step i on (e.g. polling a completed future, or
            // breaking caller discipline); its valid prefix is executed by sibling sequences.
            model::End::Invalid(i) => Some(i),
            model::End::Failed(i, fails) => {
                acc.add(&out.stats);
                for (sig, msg) in fails {
                    let detail = format!(
                        "parties={} minimal failing sequence {:?}: at step {} ({:?}): {}",
                        case.parties,
                        &ops[..(i + 1).min(ops.len())],
                        i,
                        ops.get(i),
                        msg
                    );
                    acc.fail(sig, i + 1, detail);
                }
                Some(i)
            }
        };
        if !t.advance(cut) {
            break;
        }
    }
    acc.into_verdict(true)
}

fn check_seq(case: &SeqCase) -> Verdict {
    let mode = if case.callers_only {
        Mode::LenientCallers
    } else {
        Mode::Lenient
    };
    let mut acc = Acc::default();
    let out = model::run(case.parties as usize, &case.ops, mode);
    acc.add(&out.stats);
    let mut bytes = vec![case.parties, case.callers_only as u8];
    bytes.extend(case.ops.iter().map(|op| match *op {
        Op::P => 0u8,
        Op::Px => 1,
        Op::Kp => 2,
        Op::V(i) => 3 + i,
        Op::R(i) => 6 + i,
        Op::D(i) => 9 + i,
    }));
    let fp = vcommon::fnv1a(&bytes);
    if let model::End::Failed(i, fails) = out.end {
        for (sig, msg) in fails {
            let detail = format!(
                "parties={} at step {} ({:?}) of {:?}: {}",
                case.parties,
                i,
                case.ops.get(i),
                case.ops,
                msg
            );
            acc.fail(sig, i + 1, detail);
        }
    }
    let mut v = acc.into_verdict(false);
    v.fingerprint = Some(fp);
    v
}

fn tree_cases(
    parties: u8,
    callers_only: bool,
    depth: u8,
    prefix_len: usize,
    worker: usize,
    workers: usize,
) -> impl Iterator<Item = TreeCase> {
    let g = Grammar17 { n: parties };
    let mut out = vec![];
    let p = prefix_len.min(depth as usize);
    if let Some(mut t) = tree::Tree::new(g, &[], p) {
        let mut i = 0usize;
        loop {
            if i % workers == worker {
                out.push(TreeCase {
                    parties,
                    callers_only,
                    depth,
                    prefix: t.seq().iter().map(|i| op_of_index(*i as usize)).collect(),
                });
            }
            i += 1;
            if !t.advance(None) {
                break;
            }
        }
    }
    out.into_iter()
}

/// Random sequences are decoded from raw bytes (cheap to generate; shrink towards `P`).
fn decode_op(raw: u16, parties: u8) -> Op {
    let sel = (raw & 0xff) as u8;
    let party = ((raw >> 8) as u8) % parties;
    match sel {
        0..=54 => Op::P,
        55..=134 => Op::V(party),
        135..=219 => Op::R(party),
        220..=234 => Op::D(party),
        235..=250 => Op::Kp,
        _ => Op::Px,
    }
}

fn seq_strategy(max_len: usize) -> impl Strategy<Value = SeqCase> {
    (2u8..=3, any::<bool>(), proptest::collection::vec(any::<u16>(), 0..=max_len)).prop_map(|(parties, callers_only, raw)| SeqCase {
        parties,
        callers_only,
        ops: raw.into_iter().map(|r| decode_op(r, parties)).collect(),
    })
}

fn main() {
    let args: Vec<String> = std::env::args().skip(1).collect();
    let mut ctx = Ctx::new("C17", &args);
    ctx.rule(
        "enum-*: every operation sequence over {P=poll receiver, Vi=vote, Ri=rescind, Di=drop voter i} up to the depth bound \
         (2 parties = downlink_timeout_coordinator, 3 parties = agent_timeout_coordinator; '-callers' variants restrict to what \
         the runtime tasks do: rescind only with an own vote outstanding, only drop after being told Unanimous) is executed from \
         scratch on the real coordinator with a counting waker and compared step by step with the model; one runner case is the \
         subtree under a 3-op prefix, evaluations/distinct_nontrivial/classes are counted PER EXECUTED SEQUENCE (maximal sequences, \
         or sequences cut at their first failing step; every shorter sequence is a checked prefix of one of them; sequences in \
         different subtrees are distinct by construction). random: proptest sequences to length 60 (adds receiver drop / waker \
         change). threads: one OS thread per voter running a generated script repeatedly plus a receiver thread (spinning or \
         parked on its waker); only schedule independent invariants are asserted. Every run ends by polling the receiver, \
         dropping all remaining voters and polling again (all gone => must be ready). A sequence is non-trivial when a party \
         withdrew an outstanding vote (rescind told UnanimityPending) and LATER unanimity was reached or a voter was dropped \
         (threads: some rescind was told UnanimityPending and unanimity was reached or a script dropped its voter).",
    );
    ctx.assume("sequentially consistent interleavings only: each vote/rescind/drop is one atomic RMW (or CAS loop) so operation sequences cover all SC interleavings of those; weak-memory reorderings of the Relaxed orderings are not reachable on x86 and not claimed");
    ctx.assume("the three-step Receiver::poll (load, register, load) is atomic in the enumerated tiers; its interleavings with votes are only sampled by the threads tier");
    ctx.assume("'the runtime stops' is observed as the Receiver future becoming ready (the runtimes select on it); 'task disappears' is observed as dropping its Voter");
    ctx.assume("dl-runtime: the real Value/MapDownlinkRuntime polled by the harness on a paused clock (C07's dlrt engine) with a legal remote lane; histories: initial consumers, they stop listening / detach, the clock passes empty_timeout (read task votes; the write side is often kept occupied by a consumer that only stopped listening), late consumers attach (mostly without SYNC), the write side becomes idle, the clock passes empty_timeout again; no op stops the runtime or closes the link, so the runtime future can only finish by the unanimous inactivity vote; non-trivial = a consumer attached after the read side had been without listeners for more than empty_timeout on a linked downlink");
    ctx.assume("agent-runtime: the real AgentRouteTask (read + write + HTTP task + 3-party coordinator) with a real AgentModel agent (2 value lanes, a control lane whose command schedules a lane set on an agent timer), polled by the harness on a paused clock advanced 1 ms at a time (everything delivered and the system idle after each ms, no response read unless the history says so); 1-2 remotes attached at 0 and never detached, inactive_timeout 20/40 ms, histories of <= 8 timed actions at instants around multiples of the timeout: agent-timer lane events, commands/link/sync for known and for unknown lanes, HTTP requests, remote reads; nothing in a history stops the agent, so a stop is an inactivity stop; law: at the stop instant t no task had own activity (read: an envelope completely written and consumed; write: a lane event of the agent; http: a request) strictly inside (t - inactive_timeout, t); non-trivial = some task had been idle for a whole timeout (could have voted) and some activity followed before the stop");
    ctx.assume("a party whose vote was withdrawn and then disappears counts as a task that 'disappears without voting' (it has no outstanding vote)");

    let (d2, d3) = ctx.pick((10u8, 8u8), (13u8, 11u8));
    ctx.enumerate(
        "enum-2p",
        |w, ws| tree_cases(2, false, d2, 3, w, ws),
        check_tree,
    );
    ctx.enumerate(
        "enum-3p",
        |w, ws| tree_cases(3, false, d3, 3, w, ws),
        check_tree,
    );
    // Caller discipline prunes the space, so the same budget reaches two operations deeper.
    ctx.enumerate(
        "enum-2p-callers",
        |w, ws| tree_cases(2, true, d2 + 2, 3, w, ws),
        check_tree,
    );
    ctx.enumerate(
        "enum-3p-callers",
        |w, ws| tree_cases(3, true, d3 + 2, 3, w, ws),
        check_tree,
    );
    let n = ctx.pick(3_000_000, 40_000_000);
    ctx.prop("random", n, || seq_strategy(60), check_seq);
    let n = ctx.pick(30_000, 1_000_000);
    ctx.prop("threads", n, threads::strategy, threads::check);
    // the clause against the real downlink runtime (read task + write task + attachment task + coordinator)
    let n = ctx.pick(1_000_000, 30_000_000);
    ctx.prop("dl-runtime", n, dlrt::strategy, dlrt::check);
    // the clause against the real agent runtime (read task + write task + HTTP task + coordinator) with a real agent
    let n = ctx.pick(200_000, 10_000_000);
    ctx.prop("agent-runtime", n, agentrt::strategy, agentrt::check);
    ctx.finish();
}
