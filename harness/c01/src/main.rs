//! C01 Value lanes: subscribers see an ordered, gap-tolerant, never-stale view.
//!
//! Real `AgentModel` (3 value lanes + control lane) inside the real agent runtime; 1-4 harness remotes
//! with byte channels down to 1 byte; the op list owns the schedule. Oracle: per (remote, value lane)
//! link session the received bodies are values the lane actually held (agent-side trace), in
//! non-decreasing history order, and at quiescence the last one is the lane's current value.

use proptest::prelude::*;
use serde::{Deserialize, Serialize};
use std::collections::HashMap;
use std::sync::atomic::AtomicU64;
use std::sync::Arc;
use vcommon::{Ctx, Verdict};
use vsim::agent::{make_agent, Act, AgentFlags, Ev, Shared, CASCADE_OFFSET};
use vsim::{apply_op, arb_cap, arb_sched_op, arb_small_cap, block_on_paused, Frame, FrameKind, Op, Req, Sim, SimParams};

const LANES: [&str; 4] = ["v0", "v1", "vt", "ctl"];

#[derive(Clone, Debug, Serialize, Deserialize)]
struct Case {
    params: SimParams,
    flags: AgentFlags,
    programs: Vec<Vec<Act>>,
    ops: Vec<Op>,
}

fn arb_params() -> impl Strategy<Value = SimParams> {
    (
        any::<u64>(),
        prop_oneof![Just(1usize), Just(2), Just(4), Just(16)],
        arb_cap(),
        arb_cap(),
        // budget 1 is degenerate (RunWithBudget(1) can never complete a channel operation)
        prop_oneof![Just(2usize), Just(3), Just(8), Just(64)],
    )
        .prop_map(|(seed, attachment_queue, lane_in_buf, lane_out_buf, budget)| SimParams {
            seed,
            attachment_queue,
            // a command envelope for an i64 needs up to ~30 bytes on the lane channel; smaller
            // buffers still work (partial writes) but every size is allowed
            lane_in_buf: lane_in_buf.max(8),
            lane_out_buf: lane_out_buf.max(8),
            budget,
            ..SimParams::default()
        })
}

fn arb_op(nprogs: usize) -> impl Strategy<Value = Op> {
    prop_oneof![
        // request channels are often roomy (several envelopes in flight at once: the agent then sees
        // bursts within one poll), response channels mostly tiny (slow reader => backpressure relief)
        2 => (prop_oneof![1 => arb_small_cap(), 1 => proptest::sample::select(vec![64usize, 128, 512, 4096])], arb_small_cap())
            .prop_map(|(in_cap, out_cap)| Op::Attach { in_cap, out_cap }),
        3 => (any::<u16>(), 0u8..3).prop_map(|(r, lane)| Op::Link { r, lane }),
        2 => (any::<u16>(), 0u8..3).prop_map(|(r, lane)| Op::Sync { r, lane }),
        1 => (any::<u16>(), 0u8..3).prop_map(|(r, lane)| Op::Unlink { r, lane }),
        10 => (any::<u16>(), 0u8..3).prop_map(|(r, lane)| Op::Cmd { r, lane, body: String::new() }),
        3 => (any::<u16>(), 0..nprogs.max(1)).prop_map(|(r, p)| Op::Cmd { r, lane: 3, body: p.to_string() }),
        // a remote may send garbage: a command whose body the lane rejects must not disturb anything else
        1 => (any::<u16>(), 0u8..4, proptest::sample::select(vec!["not_a_number", "@bad", "1 2", "\"text\"", "{", "", "1.5", "99999999999999999999999"]))
            .prop_map(|(r, lane, b)| Op::Cmd { r, lane, body: format!("\u{1}{}", b) }),
        12 => arb_sched_op(),
    ]
}

fn arb_case(max_ops: usize) -> impl Strategy<Value = Case> {
    let progs = proptest::collection::vec(
        proptest::collection::vec((0u8..3).prop_map(|lane| Act::SetV { lane, v: 0 }), 1..5),
        0..4,
    );
    // on_set(v0)/on_set(v1) fail (non-fatally) for a third / half of the values in 2 of 5 cases
    let fail_set = prop_oneof![3 => Just(0u8), 1 => Just(3u8), 1 => Just(2u8)];
    (arb_params(), (any::<bool>(), fail_set), progs)
        .prop_flat_map(move |(params, cascade, programs)| {
            let n = programs.len();
            (
                Just(params),
                Just(cascade),
                Just(programs),
                proptest::collection::vec(arb_op(n), 1..max_ops),
            )
        })
        .prop_map(|(params, (cascade, fail_set_mod), mut programs, mut ops)| {
            // unique values: a body identifies one position of a lane's history
            let mut next = 1i64;
            for p in programs.iter_mut() {
                for a in p.iter_mut() {
                    if let Act::SetV { v, .. } = a {
                        *v = 1_000_000 + next;
                        next += 1;
                    }
                }
            }
            for op in ops.iter_mut() {
                if let Op::Cmd { lane, body, .. } = op {
                    if let Some(bad) = body.strip_prefix('\u{1}') {
                        *body = bad.to_string();
                    } else if *lane < 3 {
                        *body = next.to_string();
                        next += 1;
                    }
                }
            }
            // every case starts with a remote so that later ops have a target
            let mut all = vec![Op::Attach { in_cap: 4096, out_cap: 16 }];
            all.extend(ops);
            Case {
                params,
                flags: AgentFlags {
                    cascade_value: cascade,
                    cascade_map: false,
                    fail_set_mod,
                },
                programs,
                ops: all,
            }
        })
}

struct Obs {
    remotes: Vec<(Vec<Frame>, Vec<(String, Req, u64, Option<u64>)>)>,
    trace: Vec<(u64, Ev)>,
    result: Option<Result<(), String>>,
    stopped: bool,
}

fn execute(case: &Case) -> Obs {
    block_on_paused(case.params.seed, async {
        let clock = Arc::new(AtomicU64::new(1));
        let shared = Shared::new(clock.clone(), case.programs.clone(), case.flags.clone());
        let agent = make_agent(shared.clone());
        let mut sim = Sim::start(&agent, &case.params, clock, None);
        // initialisation is not part of the property (and has its own 1 s timeouts): run it to
        // completion before the generated schedule starts
        sim.run_until_idle();
        for op in &case.ops {
            apply_op(&mut sim, &LANES, op).await;
        }
        sim.settle();
        Obs {
            remotes: sim
                .remotes
                .iter()
                .map(|r| (r.frames.clone(), r.sent.clone()))
                .collect(),
            trace: shared.trace(),
            result: sim.result.clone(),
            stopped: sim.is_done(),
        }
    })
}

fn parse_i64(body: &[u8]) -> Option<i64> {
    std::str::from_utf8(body).ok()?.trim().parse().ok()
}

fn check(case: &Case) -> Verdict {
    let obs = execute(case);
    if std::env::var("VERIF_DUMP").is_ok() {
        for (i, (frames, sent)) in obs.remotes.iter().enumerate() {
            eprintln!("remote {} sent: {:?}", i, sent);
            for f in frames {
                eprintln!("remote {} frame: {} {} {:?} body={:?}", i, f.seq, f.lane, f.kind, f.body_str());
            }
        }
        eprintln!("trace: {:?}", obs.trace);
        eprintln!("result: {:?}", obs.result);
    }
    let mut v = Verdict::new();

    // history of each value lane: values the lane actually held, in order (index 0 = initial 0)
    let mut hist: Vec<Vec<(u64, i64)>> = vec![vec![(0, 0)], vec![(0, 0)], vec![(0, 0)]];
    for (seq, ev) in &obs.trace {
        if let Ev::Value { lane, v } = ev {
            hist[*lane as usize].push((*seq, *v));
        }
    }
    // v1's on_event handler is not recording when ... (all three lanes record on_event)
    // a value may occur several times in a history (a program run twice sets the same values
    // again): all its indices, ascending
    let index_of: Vec<HashMap<i64, Vec<usize>>> = hist
        .iter()
        .map(|h| {
            let mut m: HashMap<i64, Vec<usize>> = HashMap::new();
            for (i, (_, v)) in h.iter().enumerate() {
                m.entry(*v).or_default().push(i);
            }
            m
        })
        .collect();

    if let Some(Err(e)) = &obs.result {
        v.fail("agent-failed", format!("the agent task ended with an error: {}", e));
    }

    let mut coalesced = false;
    for (ri, (frames, _sent)) in obs.remotes.iter().enumerate() {
        for (li, lane) in LANES[..3].iter().enumerate() {
            let mut linked = false;
            let mut linked_seq = 0u64;
            let mut last_idx: Option<usize> = None;
            let mut events_in_session = 0usize;
            let mut first_idx_in_session: Option<usize> = None;
            for f in frames.iter().filter(|f| f.lane == *lane) {
                if f.node != "/node" {
                    v.fail("wrong-node", format!("remote {} got frame with node {:?}", ri, f.node));
                }
                match &f.kind {
                    FrameKind::Linked => {
                        if !linked {
                            linked = true;
                            linked_seq = f.seq;
                            last_idx = None;
                            events_in_session = 0;
                            first_idx_in_session = None;
                        }
                    }
                    FrameKind::Unlinked(_) => {
                        linked = false;
                    }
                    FrameKind::Synced => {}
                    FrameKind::Event(body) => {
                        if !linked {
                            v.fail(
                                "event-outside-link",
                                format!("remote {} lane {} got an event while not linked: {:?}", ri, lane, f),
                            );
                        }
                        let Some(val) = parse_i64(body) else {
                            v.fail(
                                "invented-value",
                                format!("remote {} lane {}: event body {:?} is not a value the lane held", ri, lane, String::from_utf8_lossy(body)),
                            );
                            continue;
                        };
                        match index_of[li].get(&val) {
                            None => v.fail(
                                "invented-value",
                                format!("remote {} lane {}: received {} which the lane never held (history {:?})", ri, lane, val, hist[li]),
                            ),
                            Some(idxs) => {
                                // greedy: the earliest occurrence not before the previous one
                                // (sound: if any non-decreasing assignment exists, greedy finds one)
                                let idx = match last_idx {
                                    Some(prev) => idxs.iter().copied().find(|i| *i >= prev).unwrap_or(idxs[idxs.len() - 1]),
                                    None => idxs[0],
                                };
                                if let Some(prev) = last_idx {
                                    if idx < prev {
                                        v.fail(
                                            "reordered",
                                            format!(
                                                "remote {} lane {}: received history index {} (value {}) after index {}; history {:?}",
                                                ri, lane, idx, val, prev, hist[li]
                                            ),
                                        );
                                    }
                                    if idx > prev + 1 {
                                        coalesced = true;
                                    }
                                }
                                last_idx = Some(idx);
                                events_in_session += 1;
                                if first_idx_in_session.is_none() {
                                    first_idx_in_session = Some(idx);
                                }
                            }
                        }
                    }
                }
            }
            // quiescence
            if linked && !obs.stopped {
                let (cur_seq, cur) = *hist[li].last().unwrap();
                let set_after_linked = hist[li].iter().skip(1).any(|(s, _)| *s > linked_seq);
                if events_in_session > 0 || set_after_linked {
                    let last_val = last_idx.map(|i| hist[li][i].1);
                    // with repeated values, compare values (the lane's state), not indices
                    if last_val != Some(cur) {
                        v.fail(
                            "stale-at-quiescence",
                            format!(
                                "remote {} lane {}: still linked at quiescence, last received {:?} but the lane holds {} (set at seq {}, linked read at seq {}); history {:?}",
                                ri, lane, last_val, cur, cur_seq, linked_seq, hist[li]
                            ),
                        );
                    }
                }
            }
        }
    }
    let sets: usize = hist.iter().map(|h| h.len() - 1).sum();
    if coalesced {
        v.nontrivial();
    }
    v.class_if(coalesced, "coalesced");
    v.class_if(sets >= 3, "sets>=3");
    v.class_if(obs.remotes.len() >= 2, "remotes>=2");
    v.class_if(case.flags.cascade_value, "cascade");
    v.class_if(
        case.flags.fail_set_mod != 0
            && obs.trace.iter().any(|(_, e)| matches!(e, Ev::Set { v, .. } if vsim::agent::set_fails(&case.flags, *v))),
        "on_set-failed",
    );
    v.class_if(
        case.ops.iter().any(|o| matches!(o, Op::Cmd { body, .. } if body.parse::<i64>().is_err())),
        "malformed-command",
    );
    v.class_if(obs.stopped, "agent-stopped");
    v.class_if(
        obs.trace.iter().any(|(_, e)| matches!(e, Ev::ProgBegin { .. })),
        "handler-sets",
    );
    let _ = CASCADE_OFFSET;
    v
}

fn main() {
    let args: Vec<String> = std::env::args().skip(1).collect();
    let mut ctx = Ctx::new("C01", &args);
    ctx.rule(
        "op lists (attach/link/sync/unlink/command/program + schedule ops: remote writes <=n bytes, reads <=n bytes, \
         poll system <=k, settle, advance) over 3 value lanes and 1-4 remotes with channel capacities 1..4096 bytes and \
         generated lane buffer sizes / coop budget / select seed. Non-trivial = some remote, inside one link session, \
         skipped at least one value of the lane's history (coalescing under backpressure actually happened). \
         Distinct by the Debug form of the case.",
    );
    ctx.assume("the agent-side on_event trace is the ground truth for the values a lane held (checked independently by C06)");
    ctx.assume("single-threaded harness-owned schedule; op-level interleavings of agent task vs remotes");
    let n = ctx.pick(200_000, 6_000_000);
    let max_ops = ctx.pick(60, 200);
    ctx.prop("value-lane-view", n, move || arb_case(max_ops), check);
    ctx.finish();
}
