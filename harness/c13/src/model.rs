//! Case representation, generators and the reference model for C13.
use proptest::prelude::*;
use serde::{Deserialize, Deserializer, Serialize, Serializer};
use std::collections::BTreeMap;
use std::fmt::{Debug, Formatter};

/// Byte string (hex in replay files and in Debug output).
#[derive(Clone, PartialEq, Eq, PartialOrd, Ord, Hash, Default)]
pub struct B(pub Vec<u8>);

fn hex(bytes: &[u8]) -> String {
    let mut s = String::with_capacity(bytes.len() * 2);
    for b in bytes {
        s.push_str(&format!("{:02x}", b));
    }
    s
}

/// Abbreviated rendering for failure details.
pub fn show(bytes: &[u8]) -> String {
    if bytes.len() <= 24 {
        format!("x'{}'", hex(bytes))
    } else {
        format!("x'{}..'(len {})", hex(&bytes[..12]), bytes.len())
    }
}

impl Debug for B {
    fn fmt(&self, f: &mut Formatter<'_>) -> std::fmt::Result {
        write!(f, "x'{}'", hex(&self.0))
    }
}

impl Serialize for B {
    fn serialize<S: Serializer>(&self, s: S) -> Result<S::Ok, S::Error> {
        s.serialize_str(&hex(&self.0))
    }
}

impl<'de> Deserialize<'de> for B {
    fn deserialize<D: Deserializer<'de>>(d: D) -> Result<Self, D::Error> {
        let s = String::deserialize(d)?;
        if s.len() % 2 != 0 {
            return Err(serde::de::Error::custom("odd hex length"));
        }
        let mut out = Vec::with_capacity(s.len() / 2);
        for i in (0..s.len()).step_by(2) {
            let b = u8::from_str_radix(&s[i..i + 2], 16).map_err(serde::de::Error::custom)?;
            out.push(b);
        }
        Ok(B(out))
    }
}

#[derive(Clone, Debug, Serialize, Deserialize)]
pub struct ItemDef {
    pub name: String,
    /// The item is a map (update/remove/clear/read_map) rather than a value (put/get/delete).
    pub map: bool,
}

#[derive(Clone, Debug, Serialize, Deserialize)]
pub struct AgentDef {
    pub uri: String,
    pub items: Vec<ItemDef>,
}

/// Operations are kind-adaptive (the item, not the op, fixes value vs map kind, as in the runtime
/// where a store id is only ever used through `put_value`/`get_value` or through
/// `apply_map`/`read_map`), so every shrunk case is still a valid history.
#[derive(Clone, Debug, Serialize, Deserialize)]
pub enum Op {
    /// `id_for(name)` again: must equal the id in use.
    Id(u16),
    /// value item: `put_value(value)`; map item: `update_map(key, value)`.
    Write(u16, B, B),
    /// value item: `delete_value`; map item: `remove_map(key)`.
    Erase(u16, B),
    /// value item: `delete_value`; map item: `clear_map`.
    Clear(u16),
    /// value item: `get_value` into a buffer that already holds the given bytes; map item: `read_map`.
    Read(u16, B),
    /// Drop the node store of an agent (re-requested on next use).
    ReopenNode(u16),
    /// Request a new node store for the agent while the old one is alive, then drop the old one.
    Handover(u16),
    /// Drop every handle (RocksDB: closes the database; reopened from the same directory).
    ReopenAll,
    /// Drop the node store of an agent and leave the agent stopped (no read follows).
    Stop(u16),
    /// Call `node_store(uri)` and keep the returned future without polling it, whatever the state of
    /// the agent (running: this is what the server does on every route resolution, see NOTES.md).
    Request(u16),
    /// Drop one of the outstanding `node_store` futures of the agent (agent, which).
    Abandon(u16, u16),
    /// Poll one of the outstanding `node_store` futures of the agent (agent, which). If it yields a
    /// second handle while one is in use, both are used and then either the old (true) or the new
    /// (false) one is dropped.
    Resolve(u16, u16, bool),
    /// Map item: `update_map` of `n` distinct 5-byte keys `F || index(be32)` for index in 0..n (equal
    /// length, so consecutive indices are consecutive in RocksDB key order too); value = index(le16)
    /// plus the tag byte. Value item: one `put_value`. (item, n, tag)
    Fill(u16, u16, u8),
    /// Map item: point `remove_map` of the keys `F || index` for index in from..from+n, present or not
    /// (a map used as a FIFO queue). Value item: `delete_value`. (item, from, n)
    RemoveRun(u16, u16, u16),
}

pub fn bulk_key(index: u32) -> Vec<u8> {
    let mut k = vec![b'F'];
    k.extend_from_slice(&index.to_be_bytes());
    k
}

pub fn bulk_val(index: u32, tag: u8) -> Vec<u8> {
    vec![index as u8, (index >> 8) as u8, tag]
}

#[derive(Clone, Debug, Serialize, Deserialize)]
pub struct Case {
    pub agents: Vec<AgentDef>,
    /// Number of unrelated names (of the first agent) that are given ids before the history starts,
    /// so that the ids of the items lie beyond one byte (the RocksDB keys hold the id little-endian:
    /// id 256 sorts before id 1).
    #[serde(default)]
    pub prealloc: u16,
    pub ops: Vec<Op>,
}

#[derive(Clone, Debug)]
pub struct FlatItem {
    pub agent: usize,
    pub name: String,
    pub map: bool,
}

impl FlatItem {
    pub fn joined(&self, uris: &[String]) -> String {
        format!("{}/{}", uris[self.agent], self.name)
    }
}

/// Distinct agent uris and distinct (agent, name) items of a case (duplicates produced by the
/// generator or by shrinking are merged, first definition wins). With `drop_join_dups` items whose
/// `uri + "/" + name` string equals that of an earlier item are dropped too (kill tier: stays clear of
/// the known id ambiguity so that it searches for crash defects only).
pub fn flatten(case: &Case, drop_join_dups: bool) -> (Vec<String>, Vec<FlatItem>) {
    let mut uris: Vec<String> = vec![];
    let mut items: Vec<FlatItem> = vec![];
    for a in &case.agents {
        let idx = match uris.iter().position(|u| *u == a.uri) {
            Some(i) => i,
            None => {
                uris.push(a.uri.clone());
                uris.len() - 1
            }
        };
        for it in &a.items {
            if items.iter().any(|x| x.agent == idx && x.name == it.name) {
                continue;
            }
            let cand = FlatItem { agent: idx, name: it.name.clone(), map: it.map };
            if drop_join_dups && items.iter().any(|x| x.joined(&uris) == cand.joined(&uris)) {
                continue;
            }
            items.push(cand);
        }
    }
    (uris, items)
}

/// Reference state of one item.
#[derive(Clone, Debug, PartialEq, Eq)]
pub enum M {
    Val(Option<Vec<u8>>),
    Map(BTreeMap<Vec<u8>, Vec<u8>>),
}

impl M {
    pub fn empty(map: bool) -> M {
        if map {
            M::Map(BTreeMap::new())
        } else {
            M::Val(None)
        }
    }
    pub fn is_empty(&self) -> bool {
        match self {
            M::Val(v) => v.is_none(),
            M::Map(m) => m.is_empty(),
        }
    }
    pub fn describe(&self) -> String {
        match self {
            M::Val(None) => "no value".to_string(),
            M::Val(Some(v)) => format!("value {}", show(v)),
            M::Map(m) => {
                let mut s = format!("map of {} entries {{", m.len());
                for (i, (k, v)) in m.iter().enumerate() {
                    if i >= 6 {
                        s.push_str(" ..");
                        break;
                    }
                    s.push_str(&format!(" {}=>{}", show(k), show(v)));
                }
                s.push_str(" }");
                s
            }
        }
    }
    /// Apply a mutating op of the history to the model.
    pub fn apply(&mut self, op: &Op) {
        match (self, op) {
            (M::Val(v), Op::Write(_, _, val)) => *v = Some(val.0.clone()),
            (M::Val(v), Op::Erase(..)) | (M::Val(v), Op::Clear(..)) => *v = None,
            (M::Map(m), Op::Write(_, k, val)) => {
                m.insert(k.0.clone(), val.0.clone());
            }
            (M::Map(m), Op::Erase(_, k)) => {
                m.remove(&k.0);
            }
            (M::Map(m), Op::Clear(..)) => m.clear(),
            (M::Val(v), Op::Fill(_, _, tag)) => *v = Some(vec![*tag]),
            (M::Val(v), Op::RemoveRun(..)) => *v = None,
            (M::Map(m), Op::Fill(_, n, tag)) => {
                for i in 0..*n as u32 {
                    m.insert(bulk_key(i), bulk_val(i, *tag));
                }
            }
            (M::Map(m), Op::RemoveRun(_, from, n)) => {
                for i in *from as u32..*from as u32 + *n as u32 {
                    m.remove(&bulk_key(i));
                }
            }
            _ => {}
        }
    }
}

// ---------------------------------------------------------------------------------------------
// Generators

const LONG_NAME_LEN: usize = 300;

pub fn name_pool() -> Vec<String> {
    let mut v: Vec<String> = [
        "", "a", "b", "c", "ab", "a/b", "b/c", "a/", "/a", "/b", "/", "//", "a/b/c", "lane", "counter", "é",
        "e\u{301}", "名前", "a\u{0}b", "A", " ", "a b", "%2F", "a%2Fb", "lane/a",
    ]
    .iter()
    .map(|s| s.to_string())
    .collect();
    v.push("n".repeat(LONG_NAME_LEN));
    v
}

pub fn uri_pool() -> Vec<String> {
    [
        "/a", "/a/b", "/a/", "/b", "/ab", "/", "/a/b/c", "/é", "/a//b", "/a%2Fb", "/lane", "/a/a", "/名前/1",
        "/counter",
    ]
    .iter()
    .map(|s| s.to_string())
    .collect()
}

fn arb_name() -> impl Strategy<Value = String> {
    prop_oneof![
        6 => proptest::sample::select(name_pool()),
        2 => "[ab/]{0,4}",
        1 => "\\PC{0,5}",
    ]
}

fn arb_uri() -> impl Strategy<Value = String> {
    prop_oneof![
        6 => proptest::sample::select(uri_pool()),
        2 => "/[ab/]{0,5}",
    ]
}

/// Keys around the sizes that matter to the RocksDB key layout
/// `[tag][lane id: 8][KEY][len: 8][key]` with an 8 byte prefix extractor.
pub fn key_pool() -> Vec<B> {
    let mut v: Vec<Vec<u8>> = vec![
        vec![],
        vec![0],
        vec![0xFF],
        vec![0, 0],
        vec![0xFF, 0xFF],
        vec![1],
        vec![2],
        vec![1, 0],
        b"a".to_vec(),
        b"ab".to_vec(),
        b"abc".to_vec(),
        b"b".to_vec(),
    ];
    for len in [7usize, 8, 9, 16, 17, 18, 19] {
        v.push(vec![0x00; len]);
        v.push(vec![0xFF; len]);
        v.push(vec![b'k'; len]);
    }
    // the length field is little endian: 256 sorts before 1 on disk
    for len in [255usize, 256, 257] {
        v.push(vec![b'k'; len]);
    }
    // a key that spells the on-disk prefix of another lane's first key
    let mut spoof = vec![1u8];
    spoof.extend_from_slice(&1u64.to_le_bytes());
    spoof.push(1);
    spoof.extend_from_slice(&0u64.to_le_bytes());
    v.push(spoof);
    v.into_iter().map(B).collect()
}

fn arb_key() -> impl Strategy<Value = B> {
    prop_oneof![
        8 => proptest::sample::select(key_pool()),
        // one key a prefix of another
        2 => (proptest::sample::select(key_pool()), any::<u8>()).prop_map(|(mut k, b)| { k.0.push(b); k }),
        2 => proptest::collection::vec(prop_oneof![Just(0u8), Just(0xFFu8), Just(1u8), Just(2u8), any::<u8>()], 0..20).prop_map(B),
        1 => (prop_oneof![Just(7usize), Just(8), Just(9), Just(16), Just(17), Just(18)], any::<u8>(), any::<u8>())
            .prop_map(|(n, fill, last)| { let mut k = vec![fill; n]; k[n - 1] = last; B(k) }),
    ]
}

fn arb_val() -> impl Strategy<Value = B> {
    prop_oneof![
        1 => Just(B(vec![])),
        4 => proptest::collection::vec(any::<u8>(), 1..6).prop_map(B),
        2 => proptest::collection::vec(prop_oneof![Just(0u8), Just(0xFFu8), any::<u8>()], 0..40).prop_map(B),
        1 => any::<u8>().prop_map(|b| B(vec![b; 1000])),
    ]
}

fn arb_items(max: usize) -> impl Strategy<Value = Vec<ItemDef>> {
    proptest::collection::vec(
        (arb_name(), any::<bool>()).prop_map(|(name, map)| ItemDef { name, map }),
        1..=max,
    )
}

fn arb_agents(max_items: usize) -> impl Strategy<Value = Vec<AgentDef>> {
    let free = proptest::collection::vec(
        (arb_uri(), arb_items(max_items)).prop_map(|(uri, items)| AgentDef { uri, items }),
        1..=3,
    );
    // Directed: the same name under several agents (isolation between agents).
    let same_names = (proptest::collection::vec(arb_uri(), 2..=3), arb_items(max_items)).prop_map(|(uris, items)| {
        uris.into_iter().map(|uri| AgentDef { uri, items: items.clone() }).collect::<Vec<_>>()
    });
    // Directed: (U, "x/y") next to (U + "/x", "y"): distinct (uri, name) pairs whose concatenation
    // with "/" is the same string.
    let joined = (
        arb_uri(),
        prop_oneof![Just("b".to_string()), Just("x".to_string()), Just("".to_string()), "[ab]{1,2}"],
        prop_oneof![Just("c".to_string()), Just("".to_string()), Just("y/z".to_string()), "[ab]{1,2}"],
        any::<bool>(),
        any::<bool>(),
        arb_items(2),
        any::<bool>(),
    )
        .prop_map(|(uri, x, y, m1, m2, extra, swap)| {
            let a1 = AgentDef {
                uri: uri.clone(),
                items: vec![ItemDef { name: format!("{}/{}", x, y), map: m1 }],
            };
            let mut items2 = vec![ItemDef { name: y, map: m2 }];
            items2.extend(extra);
            let a2 = AgentDef { uri: format!("{}/{}", uri, x), items: items2 };
            if swap {
                vec![a2, a1]
            } else {
                vec![a1, a2]
            }
        });
    prop_oneof![
        6 => free,
        2 => same_names,
        1 => joined,
    ]
}

fn arb_op(reopen_weight: u32, lifecycle: bool) -> BoxedStrategy<Op> {
    if lifecycle {
        prop_oneof![
            23 => arb_base_op(reopen_weight),
            6 => arb_lifecycle_op(),
        ]
        .boxed()
    } else {
        arb_base_op(reopen_weight).boxed()
    }
}

/// Corners of `PlanePersistence::node_store`: requests that are left outstanding, abandoned, resolved
/// late or resolved while another handle is in use.
fn arb_lifecycle_op() -> impl Strategy<Value = Op> {
    prop_oneof![
        1 => any::<u16>().prop_map(Op::Stop),
        2 => any::<u16>().prop_map(Op::Request),
        2 => (any::<u16>(), any::<u16>()).prop_map(|(a, w)| Op::Abandon(a, w)),
        1 => (any::<u16>(), any::<u16>(), any::<bool>()).prop_map(|(a, w, n)| Op::Resolve(a, w, n)),
    ]
}

fn arb_base_op(reopen_weight: u32) -> impl Strategy<Value = Op> {
    prop_oneof![
        2 => any::<u16>().prop_map(Op::Id),
        9 => (any::<u16>(), arb_key(), arb_val()).prop_map(|(i, k, v)| Op::Write(i, k, v)),
        3 => (any::<u16>(), arb_key()).prop_map(|(i, k)| Op::Erase(i, k)),
        2 => any::<u16>().prop_map(Op::Clear),
        4 => (any::<u16>(), proptest::collection::vec(any::<u8>(), 0..4)).prop_map(|(i, p)| Op::Read(i, B(p))),
        reopen_weight => any::<u16>().prop_map(Op::ReopenNode),
        reopen_weight => any::<u16>().prop_map(Op::Handover),
        reopen_weight => Just(Op::ReopenAll),
    ]
}

fn arb_prealloc() -> impl Strategy<Value = u16> {
    prop_oneof![
        5 => Just(0u16),
        1 => 245u16..=258,
    ]
}

/// Histories for the model-based sub-checks (1-3 agents x 1-4 items).
pub fn arb_case() -> impl Strategy<Value = Case> {
    (arb_agents(4), arb_prealloc(), proptest::collection::vec(arb_op(1, true), 1..48))
        .prop_map(|(agents, prealloc, ops)| Case { agents, prealloc, ops })
}

fn arb_fill_size() -> impl Strategy<Value = u16> {
    prop_oneof![
        3 => 60u16..=70,
        2 => 1u16..=300,
        3 => 2030u16..=2080,
        2 => 4080u16..=4120,
        2 => 1u16..=6000,
        1 => 5000u16..=6000,
    ]
}

/// Size regime that the pools never reach: one map item (the first item of the first agent) is filled
/// with up to 6000 entries and then has a consecutive run of keys removed one by one, or is cleared,
/// in the middle of an ordinary history. 1 model case in 12 is of this kind.
pub fn arb_bulk_case() -> impl Strategy<Value = Case> {
    (
        arb_agents(3),
        proptest::collection::vec(arb_op(1, true), 0..5),
        arb_fill_size(),
        any::<u8>(),
        proptest::collection::vec(arb_op(1, true), 0..3),
        // what happens to the filled map: (kind, from, run length selector)
        (0u8..8, prop_oneof![3 => Just(0u16), 1 => 0u16..40, 1 => any::<u16>()], any::<u16>(), 0u8..6),
        proptest::collection::vec(arb_op(1, true), 0..6),
        any::<bool>(),
    )
        .prop_map(|(mut agents, pre, n, tag, mid, (kind, from, msel, mkind), post, reopen)| {
            agents[0].items[0].map = true;
            let mut ops = pre;
            ops.push(Op::Fill(0, n, tag));
            ops.extend(mid);
            let from = from % n.max(1);
            let room = n - from;
            let m = match mkind {
                0 => room,
                1 => room.saturating_sub(1),
                2 => 2030 + msel % 50,
                3 => 4080 + msel % 40,
                4 => room / 2,
                _ => msel % (room + 1),
            };
            match kind {
                0..=4 => ops.push(Op::RemoveRun(0, from, m)),
                5 | 6 => ops.push(Op::Clear(0)),
                _ => {
                    // FIFO: remove the head, append nothing, remove again
                    ops.push(Op::RemoveRun(0, from, m / 2));
                    ops.push(Op::RemoveRun(0, from + m / 2, m - m / 2));
                }
            }
            if reopen {
                ops.push(Op::ReopenAll);
            }
            ops.push(Op::Read(0, B(vec![])));
            ops.extend(post);
            Case { agents, prealloc: 0, ops }
        })
}

/// The strategy of the two model sub-checks.
pub fn arb_model_case() -> impl Strategy<Value = Case> {
    prop_oneof![
        11 => arb_case(),
        1 => arb_bulk_case(),
    ]
}

/// Histories for the kill sub-check: more items (every first use of an item allocates an id, which is
/// the multi-write operation whose crash atomicity matters) and no hand-over op (identical to
/// ReopenNode for RocksDB).
pub fn arb_kill_history() -> impl Strategy<Value = Case> {
    let op = prop_oneof![
        12 => arb_op(1, false),
        1 => any::<u16>().prop_map(Op::Id),
    ];
    (arb_agents(6), proptest::collection::vec(op, 4..60)).prop_map(|(agents, ops)| Case { agents, prealloc: 0, ops })
}
