//! Pure engines: C09 C10 C15 C16 C18 C19 (and the pure halves of C11/C12).
mod gen;
mod c19;

use vcommon::Ctx;

fn main() {
    let args: Vec<String> = std::env::args().skip(1).collect();
    let Some(id) = args.first().cloned() else {
        eprintln!("usage: vcore <ID> [quick|thorough] | <ID> --replay <file>");
        std::process::exit(2);
    };
    let mut ctx = Ctx::new(&id, &args[1..]);
    match id.as_str() {
        "C19" => c19::run(&mut ctx),
        _ => {
            eprintln!("vcore: unknown property {}", id);
            std::process::exit(2);
        }
    }
    ctx.finish();
}
