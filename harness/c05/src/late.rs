//! Sub-check `late-lane`: a persistent value lane that is registered AFTER the agent has started.
//! The agent API only opens transient lanes dynamically, so the agent is written directly against
//! `swimos_api::agent::Agent`: its task waits for a harness trigger, then calls
//! `AgentContext::add_lane("v0", Value, non-transient)`, goes through the initialisation handshake (the
//! runtime streams the stored value, then `InitComplete`; the lane answers `Initialized`) and from then
//! on plays a value lane: a command sets the value and emits a standard event, a sync is answered with
//! the current value and `synced`. Values are unique, so the order rule is exact: every event frame a
//! remote reads carries a value that a `put_value` recorded before (or the value restored at start).

use crate::store::{Call, Entry, RecStore, SharedData};
use crate::{Cut, Runner};
use futures::future::BoxFuture;
use futures::{FutureExt, SinkExt, StreamExt};
use parking_lot::Mutex;
use proptest::prelude::*;
use serde::{Deserialize, Serialize};
use std::collections::HashMap;
use std::sync::atomic::{AtomicU64, Ordering};
use std::sync::Arc;
use swimos_agent_protocol::encoding::lane::{RawValueLaneRequestDecoder, RawValueLaneResponseEncoder};
use swimos_agent_protocol::{LaneRequest, LaneResponse};
use swimos_api::agent::{Agent, AgentConfig, AgentContext, AgentInitResult, LaneConfig, WarpLaneKind};
use swimos_utilities::routing::RouteUri;
use swimos_utilities::trigger;
use tokio_util::codec::{FramedRead, FramedWrite};
use vcommon::{Bulk, Verdict};
use vsim::{arb_sched_op, arb_small_cap, block_on_paused, Frame, FrameKind, Op, Req, Sim, SimParams};

#[derive(Clone, Debug, PartialEq, Eq)]
pub enum LEv {
    /// The lane has been registered and initialised with this stored value (None = nothing stored).
    Opened(Option<Vec<u8>>),
    Set(Vec<u8>),
}

#[derive(Default)]
pub struct LShared {
    open: Mutex<Option<trigger::Sender>>,
    trace: Mutex<Vec<(u64, LEv)>>,
}

pub struct LateAgent {
    shared: Arc<LShared>,
    clock: Arc<AtomicU64>,
}

impl Agent for LateAgent {
    fn run(
        &self,
        _route: RouteUri,
        _route_params: HashMap<String, String>,
        config: AgentConfig,
        context: Box<dyn AgentContext + Send>,
    ) -> BoxFuture<'static, AgentInitResult> {
        let shared = self.shared.clone();
        let clock = self.clock.clone();
        async move {
            let (open_tx, open_rx) = trigger::trigger();
            *shared.open.lock() = Some(open_tx);
            let task: BoxFuture<'static, Result<(), swimos_api::error::AgentTaskError>> = async move {
                if open_rx.await.is_err() {
                    return Ok(());
                }
                let mut lc: LaneConfig = config.default_lane_config.unwrap_or_default();
                lc.transient = false;
                let Ok((tx, rx)) = context.add_lane("v0", WarpLaneKind::Value, lc).await else {
                    return Ok(());
                };
                let mut reader = FramedRead::new(rx, RawValueLaneRequestDecoder::default());
                let mut writer = FramedWrite::new(tx, RawValueLaneResponseEncoder::default());
                let rec = |ev: LEv| {
                    let s = clock.fetch_add(1, Ordering::SeqCst);
                    shared.trace.lock().push((s, ev));
                };
                let mut current: Vec<u8> = b"0".to_vec();
                let mut stored: Option<Vec<u8>> = None;
                let mut initialised = false;
                while let Some(Ok(req)) = reader.next().await {
                    match req {
                        LaneRequest::Command(body) if !initialised => stored = Some(body.to_vec()),
                        LaneRequest::InitComplete => {
                            initialised = true;
                            if let Some(v) = &stored {
                                current = v.clone();
                            }
                            rec(LEv::Opened(stored.clone()));
                            let msg: LaneResponse<&[u8]> = LaneResponse::Initialized;
                            if writer.send(msg).await.is_err() {
                                break;
                            }
                        }
                        LaneRequest::Command(body) => {
                            current = body.to_vec();
                            rec(LEv::Set(current.clone()));
                            if writer.send(LaneResponse::StandardEvent(current.as_slice())).await.is_err() {
                                break;
                            }
                        }
                        LaneRequest::Sync(id) => {
                            if writer.send(LaneResponse::SyncEvent(id, current.as_slice())).await.is_err() {
                                break;
                            }
                            let done: LaneResponse<&[u8]> = LaneResponse::Synced(id);
                            if writer.send(done).await.is_err() {
                                break;
                            }
                        }
                    }
                }
                drop(context);
                Ok(())
            }
            .boxed();
            Ok(task)
        }
        .boxed()
    }
}

#[derive(Clone, Debug, Serialize, Deserialize)]
pub struct LateCase {
    params: SimParams,
    /// Ops before the lane is opened (requests for the not yet existing lane are legal).
    before: Vec<Op>,
    after: Vec<Op>,
    /// Second incarnation: ops after the lane was opened again.
    second: Vec<Op>,
}

fn arb_ops(n: usize) -> impl Strategy<Value = Vec<Op>> {
    let op = prop_oneof![
        6 => any::<u16>().prop_map(|r| Op::Cmd { r, lane: 0, body: String::new() }),
        2 => any::<u16>().prop_map(|r| Op::Sync { r, lane: 0 }),
        2 => any::<u16>().prop_map(|r| Op::Link { r, lane: 0 }),
        1 => any::<u16>().prop_map(|r| Op::Unlink { r, lane: 0 }),
        1 => (arb_small_cap(), arb_small_cap()).prop_map(|(in_cap, out_cap)| Op::Attach { in_cap, out_cap }),
        6 => arb_sched_op(),
    ];
    proptest::collection::vec(op, 0..n)
}

pub fn arb_late(max_ops: usize) -> impl Strategy<Value = LateCase> {
    (crate::arb_params(), arb_ops(6), arb_ops(max_ops), arb_ops(max_ops / 2)).prop_map(|(params, before, after, second)| {
        // unique values: a value identifies one state of the lane
        let mut next = 1i64;
        let mut number = |ops: Vec<Op>| -> Vec<Op> {
            ops.into_iter()
                .map(|op| match op {
                    Op::Cmd { r, lane, .. } => {
                        next += 1;
                        Op::Cmd { r, lane, body: next.to_string() }
                    }
                    o => o,
                })
                .collect()
        };
        let before = number(before);
        let mut a = vec![Op::Link { r: 0, lane: 0 }];
        a.extend(number(after));
        a.push(Op::Settle);
        let mut s2 = number(second);
        s2.push(Op::Settle);
        LateCase { params, before, after: a, second: s2 }
    })
}

struct Phase {
    frames: Vec<Vec<Frame>>,
    trace: Vec<(u64, LEv)>,
    log_end: usize,
    result: Option<Result<(), String>>,
}

struct LateObs {
    phases: Vec<Phase>,
    log: Vec<Entry>,
    lane_id: Option<u64>,
}

async fn incarnation(case: &LateCase, data: &SharedData, clock: &Arc<AtomicU64>, inc: u32, before: &[Op], after: &[Op]) -> Phase {
    let shared = Arc::new(LShared::default());
    let agent = LateAgent { shared: shared.clone(), clock: clock.clone() };
    let mut sim = Sim::start_with_store(&agent, &case.params, clock.clone(), None, RecStore::new(data.clone(), clock.clone(), inc));
    sim.run_until_idle();
    sim.attach(4096, 64);
    let polls0 = sim.polls;
    let mut run = Runner { sim, cut: Cut::End, frames: 0, polls0, hit: false };
    for op in before {
        run.apply(op).await;
    }
    // the lane is registered now, long after the agent has started
    if let Some(t) = shared.open.lock().take() {
        t.trigger();
    }
    run.settle();
    for op in after {
        run.apply(op).await;
    }
    // a last sync by the first remote shows the final state
    run.sim.remotes[0].send("v0", Req::Sync);
    run.settle();
    let frames = run.sim.remotes.iter().map(|r| r.frames.clone()).collect();
    let result = run.sim.result.clone();
    run.sim.crash();
    drop(run);
    let trace = shared.trace.lock().clone();
    Phase { frames, trace, log_end: data.lock().log.len(), result }
}

fn execute(case: &LateCase) -> LateObs {
    block_on_paused(case.params.seed, async {
        let clock = Arc::new(AtomicU64::new(1));
        let data: SharedData = SharedData::default();
        let p1 = incarnation(case, &data, &clock, 1, &case.before, &case.after).await;
        tokio::task::yield_now().await;
        let p2 = incarnation(case, &data, &clock, 2, &[], &case.second).await;
        let g = data.lock();
        LateObs { phases: vec![p1, p2], log: g.log.clone(), lane_id: g.ids.get("v0").copied() }
    })
}

pub fn check(case: &LateCase) -> Verdict {
    let mut v = Verdict::new();
    let obs = execute(case);
    let mut start = 0usize;
    let mut stored: Option<Vec<u8>> = None; // fold of the applied puts so far
    let mut frames_checked = 0usize;
    let mut puts_total = 0usize;
    for (pi, ph) in obs.phases.iter().enumerate() {
        let ctx = format!("[incarnation {}]", pi + 1);
        if let Some(Err(e)) = &ph.result {
            v.fail("late:agent-failed", format!("{} the agent task ended with an error: {}", ctx, e));
        }
        let opened = ph.trace.iter().find_map(|(s, e)| match e {
            LEv::Opened(x) => Some((*s, x.clone())),
            _ => None,
        });
        let Some((_, restored)) = opened else {
            v.fail("late:lane-not-opened", format!("{} the late lane was never initialised", ctx));
            break;
        };
        // restart: the late lane is initialised with the last value handed to the store
        if restored != stored {
            v.fail(
                "late:restart:value-lane",
                format!("{} the late lane was initialised with {:?} but the last value handed to the store is {:?}", ctx, restored.as_ref().map(|b| String::from_utf8_lossy(b).to_string()), stored.as_ref().map(|b| String::from_utf8_lossy(b).to_string())),
            );
        }
        let initial = restored.clone().unwrap_or_else(|| b"0".to_vec());
        let puts: Vec<(u64, Vec<u8>)> = obs.log[start..ph.log_end]
            .iter()
            .filter(|e| e.applied)
            .filter_map(|e| match &e.call {
                Call::PutValue(id, b) if Some(*id) == obs.lane_id => Some((e.seq, b.clone())),
                _ => None,
            })
            .collect();
        puts_total += puts.len();
        // order: every event frame carries a value that had been put before it was read (or the value the
        // lane was initialised with)
        for (ri, frames) in ph.frames.iter().enumerate() {
            for f in frames.iter().filter(|f| f.lane == "v0") {
                let FrameKind::Event(body) = &f.kind else { continue };
                frames_checked += 1;
                if *body == initial {
                    continue;
                }
                if !puts.iter().any(|(s, b)| b == body && *s < f.seq) {
                    v.fail(
                        "late:order:value-frame-before-store",
                        format!(
                            "{} remote {} read the event {:?} of the late lane at seq {} but no put_value with that value was recorded before it; puts of the lane in this incarnation: {:?}",
                            ctx, ri, String::from_utf8_lossy(body), f.seq,
                            puts.iter().map(|(s, b)| (*s, String::from_utf8_lossy(b).to_string())).collect::<Vec<_>>()
                        ),
                    );
                }
            }
        }
        if let Some((_, b)) = puts.last() {
            stored = Some(b.clone());
        }
        start = ph.log_end;
    }
    let sets: usize = obs.phases.iter().map(|p| p.trace.iter().filter(|(_, e)| matches!(e, LEv::Set(_))).count()).sum();
    let mut classes: Vec<(&'static str, u64)> = vec![];
    if obs.phases.len() == 2 && obs.phases[1].trace.iter().any(|(_, e)| matches!(e, LEv::Opened(Some(_)))) {
        classes.push(("late-lane-restored-a-stored-value", 1));
    }
    if case.before.iter().any(|op| matches!(op, Op::Link { .. } | Op::Sync { .. } | Op::Cmd { .. })) {
        classes.push(("requests-before-the-lane-existed", 1));
    }
    let nontrivial = puts_total >= 1 && frames_checked >= 1 && sets >= 3;
    v.bulk = Some(Bulk { evaluations: 1, distinct_nontrivial: nontrivial as u64, classes });
    v
}
