use proptest::strategy::{Strategy, ValueTree};
use proptest::test_runner::{Config, RngAlgorithm, TestCaseError, TestError, TestRng, TestRunner};
use serde::de::DeserializeOwned;
use serde::Serialize;
use std::cell::{Cell, RefCell};
use std::collections::{BTreeMap, HashSet};
use std::fmt::Debug;
use std::panic::{catch_unwind, AssertUnwindSafe};
use std::path::PathBuf;
use std::sync::atomic::{AtomicBool, AtomicU64, Ordering};
use std::sync::{Mutex, Once};
use std::time::Instant;

pub const VERIF_ROOT_DEFAULT: &str = "/verif";

/// Root for evidence/, replays/ and known_findings.txt. Overridable (VERIF_ROOT) only so that scratch
/// sensitivity runs against a mutated worktree do not write into /verif.
pub fn verif_root() -> PathBuf {
    PathBuf::from(std::env::var("VERIF_ROOT").unwrap_or_else(|_| VERIF_ROOT_DEFAULT.to_string()))
}

#[derive(Clone, Copy, Debug, PartialEq, Eq)]
pub enum Tier {
    Quick,
    Thorough,
}

impl Tier {
    pub fn name(&self) -> &'static str {
        match self {
            Tier::Quick => "quick",
            Tier::Thorough => "thorough",
        }
    }
}

#[derive(Clone, Debug)]
pub struct Failure {
    /// Names the cell / call site / law that failed; matched against known_findings.txt.
    pub sig: String,
    pub detail: String,
}

/// Result of running the oracle on one case.
#[derive(Default, Debug)]
pub struct Verdict {
    pub failures: Vec<Failure>,
    pub nontrivial: bool,
    pub classes: Vec<&'static str>,
    /// Overrides the default fingerprint (hash of the Debug form of the case).
    pub fingerprint: Option<u64>,
    /// When one runner case stands for a whole family of executions (e.g. a subtree of an
    /// exhaustive enumeration executed inside the oracle), the oracle reports the measured counts here
    /// and they replace the per-case +1 accounting. The executions counted as distinct non-trivial
    /// must be distinct by construction across cases.
    pub bulk: Option<Bulk>,
}

#[derive(Default, Debug, Clone)]
pub struct Bulk {
    pub evaluations: u64,
    pub distinct_nontrivial: u64,
    pub classes: Vec<(&'static str, u64)>,
}

impl Verdict {
    pub fn new() -> Self {
        Self::default()
    }
    pub fn fail(&mut self, sig: impl Into<String>, detail: impl Into<String>) {
        self.failures.push(Failure {
            sig: sig.into(),
            detail: detail.into(),
        });
    }
    pub fn class(&mut self, c: &'static str) {
        if !self.classes.contains(&c) {
            self.classes.push(c);
        }
    }
    pub fn class_if(&mut self, cond: bool, c: &'static str) {
        if cond {
            self.class(c);
        }
    }
    pub fn nontrivial(&mut self) {
        self.nontrivial = true;
    }
    pub fn merge(&mut self, other: Verdict) {
        self.failures.extend(other.failures);
        self.nontrivial |= other.nontrivial;
        for c in other.classes {
            self.class(c);
        }
    }
}

#[macro_export]
macro_rules! vcheck {
    ($v:expr, $cond:expr, $sig:expr, $($fmt:tt)+) => {
        if !($cond) {
            $v.fail($sig, format!($($fmt)+));
        }
    };
}

pub fn fnv1a(bytes: &[u8]) -> u64 {
    let mut h: u64 = 0xcbf29ce484222325;
    for b in bytes {
        h ^= *b as u64;
        h = h.wrapping_mul(0x100000001b3);
    }
    h
}

pub fn mix_seed(seed: u64, parts: &[&str], worker: u64) -> [u8; 32] {
    let mut out = [0u8; 32];
    let mut h = seed ^ 0x9E3779B97F4A7C15;
    for p in parts {
        h = h.rotate_left(17) ^ fnv1a(p.as_bytes());
        h = h.wrapping_mul(0xD6E8FEB86659FD93);
    }
    h ^= worker.wrapping_mul(0xA24BAED4963EE407);
    for (i, chunk) in out.chunks_mut(8).enumerate() {
        // splitmix64
        h = h.wrapping_add(0x9E3779B97F4A7C15);
        let mut z = h ^ (i as u64);
        z = (z ^ (z >> 30)).wrapping_mul(0xBF58476D1CE4E5B9);
        z = (z ^ (z >> 27)).wrapping_mul(0x94D049BB133111EB);
        z ^= z >> 31;
        chunk.copy_from_slice(&z.to_le_bytes());
    }
    out
}

// ---------------------------------------------------------------------------------------------
// Panic capture

thread_local! {
    static CAPTURE: Cell<bool> = const { Cell::new(false) };
    static LAST_PANIC: RefCell<Option<(String, String)>> = const { RefCell::new(None) };
}
static HOOK: Once = Once::new();

fn install_hook() {
    HOOK.call_once(|| {
        let default = std::panic::take_hook();
        std::panic::set_hook(Box::new(move |info| {
            let capturing = CAPTURE.with(|c| c.get());
            if capturing {
                let loc = info
                    .location()
                    .map(|l| {
                        let f = l.file();
                        let f = f.strip_prefix("/repo/").unwrap_or(f);
                        format!("{}:{}", f, l.line())
                    })
                    .unwrap_or_else(|| "?".to_string());
                let msg = if let Some(s) = info.payload().downcast_ref::<&str>() {
                    s.to_string()
                } else if let Some(s) = info.payload().downcast_ref::<String>() {
                    s.clone()
                } else {
                    "<non-string panic>".to_string()
                };
                LAST_PANIC.with(|p| *p.borrow_mut() = Some((loc, msg)));
            } else {
                default(info);
            }
        }));
    });
}

/// Run `f`, turning a panic into a failure with signature `panic:<file>:<line>`.
pub fn guarded<R>(f: impl FnOnce() -> R) -> Result<R, Failure> {
    install_hook();
    let prev = CAPTURE.with(|c| c.replace(true));
    LAST_PANIC.with(|p| *p.borrow_mut() = None);
    let r = catch_unwind(AssertUnwindSafe(f));
    CAPTURE.with(|c| c.set(prev));
    match r {
        Ok(r) => Ok(r),
        Err(_) => {
            let (loc, msg) = LAST_PANIC
                .with(|p| p.borrow_mut().take())
                .unwrap_or_else(|| ("?".into(), "?".into()));
            Err(Failure {
                sig: format!("panic:{}", loc),
                detail: format!("panic at {}: {}", loc, msg),
            })
        }
    }
}

// ---------------------------------------------------------------------------------------------
// Known findings

#[derive(Clone, Debug)]
pub struct KnownFinding {
    pub property: String,
    pub sig: String,
    pub desc: String,
}

pub fn load_known_findings(property: &str) -> Vec<KnownFinding> {
    let path = verif_root().join("known_findings.txt");
    let Ok(text) = std::fs::read_to_string(path) else {
        return vec![];
    };
    let mut out = vec![];
    for line in text.lines() {
        let line = line.trim();
        let Some(rest) = line.strip_prefix("finding:") else {
            continue; // `fixed:` lines and comments suppress nothing
        };
        let (head, desc) = match rest.split_once(" -- ") {
            Some((h, d)) => (h, d.trim().to_string()),
            None => (rest, String::new()),
        };
        let mut prop = None;
        let mut sig = None;
        for tok in head.split_whitespace() {
            if let Some(p) = tok.strip_prefix("property=") {
                prop = Some(p.to_string());
            } else if let Some(s) = tok.strip_prefix("sig=") {
                sig = Some(s.to_string());
            }
        }
        if let (Some(p), Some(s)) = (prop, sig) {
            if p == property {
                out.push(KnownFinding {
                    property: p,
                    sig: s,
                    desc,
                });
            }
        }
    }
    out
}

// ---------------------------------------------------------------------------------------------
// Stats

#[derive(Default)]
struct SubStats {
    evaluations: u64,
    bulk_nontrivial: u64,
    nontrivial: HashSet<u64>,
    classes: BTreeMap<&'static str, u64>,
    samples: Vec<serde_json::Value>,
    excluded_known: u64,
    exhaustive: bool,
}

impl SubStats {
    fn nontrivial_count(&self) -> u64 {
        self.nontrivial.len() as u64 + self.bulk_nontrivial
    }

    /// Account one evaluated case. Returns true if it is a fresh non-trivial case (sample candidate).
    fn record<T: Debug>(&mut self, v: &Verdict, known: u64, case: &T) -> bool {
        self.excluded_known += known;
        if let Some(b) = &v.bulk {
            self.evaluations += b.evaluations;
            self.bulk_nontrivial += b.distinct_nontrivial;
            for (c, n) in &b.classes {
                *self.classes.entry(c).or_default() += n;
            }
            for c in &v.classes {
                *self.classes.entry(c).or_default() += 1;
            }
            return b.distinct_nontrivial > 0;
        }
        self.evaluations += 1;
        for c in &v.classes {
            *self.classes.entry(c).or_default() += 1;
        }
        if v.nontrivial {
            let fp = v
                .fingerprint
                .unwrap_or_else(|| fnv1a(format!("{:?}", case).as_bytes()));
            self.nontrivial.insert(fp)
        } else {
            false
        }
    }

    fn merge(&mut self, o: SubStats) {
        self.evaluations += o.evaluations;
        self.bulk_nontrivial += o.bulk_nontrivial;
        self.nontrivial.extend(o.nontrivial);
        for (k, v) in o.classes {
            *self.classes.entry(k).or_default() += v;
        }
        for s in o.samples {
            if self.samples.len() < 3 {
                self.samples.push(s);
            }
        }
        self.excluded_known += o.excluded_known;
    }
}

#[derive(Clone, Debug, serde::Serialize, serde::Deserialize)]
pub struct ReplayFile {
    pub property: String,
    pub sub: String,
    pub seed: u64,
    pub sig: String,
    pub detail: String,
    pub case: serde_json::Value,
}

enum Mode {
    Search,
    Replay(PathBuf),
}

pub struct Ctx {
    pub id: String,
    pub tier: Tier,
    pub seed: u64,
    pub workers: usize,
    level: &'static str,
    mode: Mode,
    known: Vec<KnownFinding>,
    known_hits: Mutex<BTreeMap<String, u64>>,
    start: Instant,
    subs: Vec<(String, SubStats)>,
    violations: Vec<(String, String, PathBuf)>,
    rule: String,
    assumptions: Vec<String>,
    inconclusive: Vec<String>,
    replayed: u64,
    only: Option<String>,
    /// VERIF_TRACE_CASE=1: print every case before evaluating it (to diagnose hangs).
    trace_cases: bool,
}

static PROGRESS: AtomicU64 = AtomicU64::new(0);
/// Failures seen (not yet shrunk / reported) by worker threads: if a later case hangs and the watchdog
/// has to end the process, these are still reported as violations instead of being lost.
static PENDING_FAILURES: Mutex<Vec<ReplayFile>> = Mutex::new(Vec::new());

fn flush_pending_on_watchdog() -> bool {
    let pending = PENDING_FAILURES.lock().map(|g| g.clone()).unwrap_or_default();
    if pending.is_empty() {
        return false;
    }
    let mut seen = HashSet::new();
    for rf in pending {
        if !seen.insert((rf.sub.clone(), rf.sig.clone())) {
            continue;
        }
        let dir = verif_root().join("replays").join(&rf.property);
        let _ = std::fs::create_dir_all(&dir);
        let text = serde_json::to_string_pretty(&rf).unwrap_or_default();
        let path = dir.join(format!("{}-{:016x}.json", rf.sub, fnv1a(text.as_bytes())));
        let _ = std::fs::write(&path, text);
        println!("  violation sig={} (unshrunk: a later case hung before shrinking finished)", rf.sig);
        println!("VIOLATION property={} replay={}", rf.property, path.display());
    }
    true
}
static WATCHDOG: Once = Once::new();
static WATCHDOG_WHERE: Mutex<String> = Mutex::new(String::new());
static FINISHED: AtomicBool = AtomicBool::new(false);

fn start_watchdog() {
    WATCHDOG.call_once(|| {
        let limit: u64 = std::env::var("VERIF_WATCHDOG_S")
            .ok()
            .and_then(|s| s.parse().ok())
            .unwrap_or(600);
        std::thread::spawn(move || {
            let mut last = PROGRESS.load(Ordering::Relaxed);
            let mut still = 0u64;
            loop {
                std::thread::sleep(std::time::Duration::from_secs(5));
                if FINISHED.load(Ordering::Relaxed) {
                    return;
                }
                let now = PROGRESS.load(Ordering::Relaxed);
                if now == last {
                    still += 5;
                    if still >= limit {
                        let w = WATCHDOG_WHERE.lock().map(|g| g.clone()).unwrap_or_default();
                        println!(
                            "INCONCLUSIVE: watchdog, no case completed for {} s in {}",
                            still, w
                        );
                        if flush_pending_on_watchdog() {
                            std::process::exit(1);
                        }
                        std::process::exit(2);
                    }
                } else {
                    last = now;
                    still = 0;
                }
            }
        });
    });
}

pub fn tick() {
    PROGRESS.fetch_add(1, Ordering::Relaxed);
}

impl Ctx {
    /// args: `<ID> [quick|thorough]` or `<ID> --replay <file>`; env VERIF_SEED, VERIF_TIER,
    /// VERIF_WORKERS, VERIF_ONLY (restrict to one sub-check).
    pub fn new(id: &str, args: &[String]) -> Ctx {
        install_hook();
        let mut tier = match std::env::var("VERIF_TIER").ok().as_deref() {
            Some("thorough") => Tier::Thorough,
            _ => Tier::Quick,
        };
        let mut mode = Mode::Search;
        let mut i = 0;
        while i < args.len() {
            match args[i].as_str() {
                "quick" => tier = Tier::Quick,
                "thorough" => tier = Tier::Thorough,
                "--replay" => {
                    i += 1;
                    mode = Mode::Replay(PathBuf::from(&args[i]));
                }
                _ => {}
            }
            i += 1;
        }
        let seed = std::env::var("VERIF_SEED")
            .ok()
            .and_then(|s| s.trim().parse::<i128>().ok())
            .map(|v| v as u64)
            .unwrap_or(0);
        let workers = std::env::var("VERIF_WORKERS")
            .ok()
            .and_then(|s| s.parse().ok())
            .unwrap_or(16usize)
            .max(1);
        start_watchdog();
        Ctx {
            id: id.to_string(),
            tier,
            seed,
            workers,
            level: "exploration",
            mode,
            known: load_known_findings(id),
            known_hits: Mutex::new(BTreeMap::new()),
            start: Instant::now(),
            subs: vec![],
            violations: vec![],
            rule: String::new(),
            assumptions: vec![],
            inconclusive: vec![],
            replayed: 0,
            only: std::env::var("VERIF_ONLY").ok(),
            trace_cases: std::env::var("VERIF_TRACE_CASE").is_ok(),
        }
    }

    pub fn level(&mut self, level: &'static str) {
        self.level = level;
    }
    pub fn rule(&mut self, rule: &str) {
        self.rule = rule.to_string();
    }
    pub fn assume(&mut self, a: &str) {
        self.assumptions.push(a.to_string());
    }
    pub fn is_replay(&self) -> bool {
        matches!(self.mode, Mode::Replay(_))
    }
    pub fn pick<T>(&self, quick: T, thorough: T) -> T {
        match self.tier {
            Tier::Quick => quick,
            Tier::Thorough => thorough,
        }
    }
    pub fn inconclusive(&mut self, why: impl Into<String>) {
        self.inconclusive.push(why.into());
    }

    fn is_known(&self, sig: &str) -> bool {
        self.known.iter().any(|k| k.sig == sig)
    }

    fn replay_dir(&self) -> PathBuf {
        verif_root().join("replays").join(&self.id)
    }

    /// Evaluate one case: panics become failures; known signatures are counted and removed.
    fn eval<T: Debug, F: Fn(&T) -> Verdict>(&self, f: &F, case: &T) -> (Verdict, u64) {
        if self.trace_cases {
            eprintln!("CASE {:?}", case);
        }
        let mut v = match guarded(|| f(case)) {
            Ok(v) => v,
            Err(fail) => {
                let mut v = Verdict::new();
                v.failures.push(fail);
                v
            }
        };
        let mut known = 0;
        if !v.failures.is_empty() {
            let mut keep = vec![];
            for fl in v.failures.drain(..) {
                if self.is_known(&fl.sig) {
                    known += 1;
                    *self
                        .known_hits
                        .lock()
                        .unwrap()
                        .entry(fl.sig.clone())
                        .or_default() += 1;
                } else {
                    keep.push(fl);
                }
            }
            v.failures = keep;
        }
        (v, known)
    }

    fn run_replays<T, F>(&mut self, sub: &str, f: &F)
    where
        T: DeserializeOwned + Debug,
        F: Fn(&T) -> Verdict,
    {
        let files: Vec<PathBuf> = match &self.mode {
            Mode::Replay(p) => vec![p.clone()],
            Mode::Search => {
                let mut v: Vec<PathBuf> = std::fs::read_dir(self.replay_dir())
                    .map(|rd| {
                        rd.filter_map(|e| e.ok().map(|e| e.path()))
                            .filter(|p| p.extension().map(|e| e == "json").unwrap_or(false))
                            .collect()
                    })
                    .unwrap_or_default();
                v.sort();
                v
            }
        };
        for path in files {
            let Ok(text) = std::fs::read_to_string(&path) else {
                if self.is_replay() {
                    self.inconclusive(format!("cannot read replay file {}", path.display()));
                }
                continue;
            };
            let Ok(rf) = serde_json::from_str::<ReplayFile>(&text) else {
                if self.is_replay() {
                    self.inconclusive(format!("cannot parse replay file {}", path.display()));
                }
                continue;
            };
            if rf.property != self.id || rf.sub != sub {
                continue;
            }
            let case: T = match serde_json::from_value(rf.case.clone()) {
                Ok(c) => c,
                Err(e) => {
                    // The case format changed since the file was saved: not a verdict.
                    println!(
                        "note: replay {} no longer decodes ({}); skipped",
                        path.display(),
                        e
                    );
                    continue;
                }
            };
            self.replayed += 1;
            // Engines with internal nondeterminism (hash-map iteration order inside the system under
            // test) may need several executions to reproduce: a replay fails if any execution fails.
            let repeats: u32 = std::env::var("VERIF_REPLAY_REPEAT")
                .ok()
                .and_then(|s| s.parse().ok())
                .unwrap_or(if self.is_replay() { 16 } else { 2 });
            let mut v = Verdict::new();
            for _ in 0..repeats.max(1) {
                let (vi, _known) = self.eval(f, &case);
                if !vi.failures.is_empty() {
                    v = vi;
                    break;
                }
            }
            if let Some(fl) = v.failures.first() {
                println!(
                    "replay {}: FAIL sig={} {}",
                    path.display(),
                    fl.sig,
                    fl.detail
                );
                self.violations
                    .push((fl.sig.clone(), fl.detail.clone(), path.clone()));
            } else if self.is_replay() {
                println!("replay {}: pass", path.display());
            }
        }
    }

    fn write_replay<T: Serialize>(&self, sub: &str, fl: &Failure, case: &T) -> PathBuf {
        let dir = self.replay_dir();
        let _ = std::fs::create_dir_all(&dir);
        let case = serde_json::to_value(case).unwrap_or(serde_json::Value::Null);
        let rf = ReplayFile {
            property: self.id.clone(),
            sub: sub.to_string(),
            seed: self.seed,
            sig: fl.sig.clone(),
            detail: fl.detail.clone(),
            case,
        };
        let text = serde_json::to_string_pretty(&rf).unwrap();
        let name = format!("{}-{:016x}.json", sub, fnv1a(text.as_bytes()));
        let path = dir.join(name);
        let _ = std::fs::write(&path, text);
        path
    }

    fn want(&self, sub: &str) -> bool {
        self.only.as_deref().map(|o| o == sub).unwrap_or(true)
    }

    /// Random search: `total_cases` cases split over the workers, each worker with its own
    /// deterministic RNG. The first unlisted failure of a worker is shrunk (keeping its
    /// signature) and saved as a replay file.
    pub fn prop<T, S, SF, F>(&mut self, sub: &str, total_cases: u64, strat: SF, f: F)
    where
        T: Debug + Clone + Serialize + DeserializeOwned + Send,
        S: Strategy<Value = T>,
        SF: Fn() -> S + Sync,
        F: Fn(&T) -> Verdict + Sync,
    {
        if !self.want(sub) {
            return;
        }
        *WATCHDOG_WHERE.lock().unwrap() = format!("{}::{}", self.id, sub);
        self.run_replays::<T, F>(sub, &f);
        if self.is_replay() {
            return;
        }
        let workers = self.workers.min(total_cases.max(1) as usize).max(1);
        let per = total_cases.div_ceil(workers as u64);
        let this: &Ctx = self;
        let results: Vec<(SubStats, Option<(Failure, T)>)> = std::thread::scope(|scope| {
            let handles: Vec<_> = (0..workers)
                .map(|w| {
                    let strat = &strat;
                    let f = &f;
                    scope.spawn(move || this.worker_prop(sub, w as u64, per, strat(), f))
                })
                .collect();
            handles.into_iter().map(|h| h.join().unwrap()).collect()
        });
        let mut stats = SubStats::default();
        let mut seen = HashSet::new();
        let mut fails = vec![];
        for (s, fl) in results {
            stats.merge(s);
            if let Some((fl, case)) = fl {
                if seen.insert(fl.sig.clone()) {
                    fails.push((fl, case));
                }
            }
        }
        for (fl, case) in fails {
            let path = self.write_replay(sub, &fl, &case);
            println!("  failing case ({}): {}", fl.sig, truncate(&format!("{:?}", case), 2000));
            println!("  detail: {}", truncate(&fl.detail, 4000));
            self.violations.push((fl.sig, fl.detail, path));
        }
        self.subs.push((sub.to_string(), stats));
    }

    fn worker_prop<T, S, F>(
        &self,
        sub: &str,
        worker: u64,
        cases: u64,
        strat: S,
        f: &F,
    ) -> (SubStats, Option<(Failure, T)>)
    where
        T: Debug + Clone + Serialize,
        S: Strategy<Value = T>,
        F: Fn(&T) -> Verdict,
    {
        let cfg = Config {
            cases: cases as u32,
            failure_persistence: None,
            max_shrink_iters: std::env::var("VERIF_MAX_SHRINK")
                .ok()
                .and_then(|s| s.parse().ok())
                .unwrap_or(2000),
            max_global_rejects: u32::MAX,
            max_local_rejects: u32::MAX,
            ..Config::default()
        };
        let seed = mix_seed(self.seed, &[&self.id, sub], worker);
        let rng = TestRng::from_seed(RngAlgorithm::ChaCha, &seed);
        let mut runner = TestRunner::new_with_rng(cfg, rng);
        let stats = RefCell::new(SubStats::default());
        let first: RefCell<Option<String>> = RefCell::new(None);
        let result = runner.run(&strat, |case| {
            tick();
            let (v, known) = self.eval(f, &case);
            let shrinking = first.borrow().is_some();
            if shrinking {
                let target = first.borrow();
                let target = target.as_ref().unwrap();
                return if v.failures.iter().any(|fl| &fl.sig == target) {
                    Err(TestCaseError::fail(target.clone()))
                } else {
                    Ok(())
                };
            }
            {
                let mut st = stats.borrow_mut();
                let fresh = st.record(&v, known, &case);
                if fresh && worker == 0 && st.samples.len() < 3 {
                    if let Ok(j) = serde_json::to_value(&case) {
                        st.samples.push(j);
                    }
                }
            }
            if let Some(fl) = v.failures.first() {
                *first.borrow_mut() = Some(fl.sig.clone());
                if let Ok(mut p) = PENDING_FAILURES.lock() {
                    if p.len() < 64 {
                        p.push(ReplayFile {
                            property: self.id.clone(),
                            sub: sub.to_string(),
                            seed: self.seed,
                            sig: fl.sig.clone(),
                            detail: fl.detail.clone(),
                            case: serde_json::to_value(&case).unwrap_or(serde_json::Value::Null),
                        });
                    }
                }
                Err(TestCaseError::fail(fl.sig.clone()))
            } else {
                Ok(())
            }
        });
        let fail = match result {
            Ok(()) => None,
            Err(TestError::Fail(_, minimal)) => {
                let target = first.borrow().clone().unwrap_or_default();
                let (v, _) = self.eval(f, &minimal);
                let fl = v
                    .failures
                    .iter()
                    .find(|fl| fl.sig == target)
                    .or(v.failures.first())
                    .cloned()
                    .unwrap_or(Failure {
                        sig: target,
                        detail: "(failure did not reproduce on the shrunk case: nondeterministic oracle?)".into(),
                    });
                Some((fl, minimal))
            }
            Err(TestError::Abort(reason)) => {
                println!("INCONCLUSIVE: proptest aborted in {}::{}: {}", self.id, sub, reason);
                std::process::exit(2);
            }
        };
        (stats.into_inner(), fail)
    }

    /// Bounded-exhaustive enumeration. `make(worker, workers)` must return the slice of the space
    /// belonging to that worker (the union over workers is the whole space). Cases should be
    /// enumerated smallest first so the first failure is (near) minimal.
    pub fn enumerate<T, I, MF, F>(&mut self, sub: &str, make: MF, f: F)
    where
        T: Debug + Clone + Serialize + DeserializeOwned + Send,
        I: Iterator<Item = T>,
        MF: Fn(usize, usize) -> I + Sync,
        F: Fn(&T) -> Verdict + Sync,
    {
        if !self.want(sub) {
            return;
        }
        *WATCHDOG_WHERE.lock().unwrap() = format!("{}::{}", self.id, sub);
        self.run_replays::<T, F>(sub, &f);
        if self.is_replay() {
            return;
        }
        let workers = self.workers;
        let this: &Ctx = self;
        let results: Vec<(SubStats, Vec<(Failure, T)>)> = std::thread::scope(|scope| {
            let handles: Vec<_> = (0..workers)
                .map(|w| {
                    let make = &make;
                    let f = &f;
                    scope.spawn(move || {
                        let mut st = SubStats::default();
                        let mut fails: Vec<(Failure, T)> = vec![];
                        let mut sigs = HashSet::new();
                        for case in make(w, workers) {
                            tick();
                            let (v, known) = this.eval(f, &case);
                            let fresh = st.record(&v, known, &case);
                            if fresh && w == 0 && st.samples.len() < 3 {
                                if let Ok(j) = serde_json::to_value(&case) {
                                    st.samples.push(j);
                                }
                            }
                            for fl in v.failures {
                                if sigs.insert(fl.sig.clone()) {
                                    fails.push((fl, case.clone()));
                                }
                            }
                            if fails.len() >= 8 {
                                break;
                            }
                        }
                        (st, fails)
                    })
                })
                .collect();
            handles.into_iter().map(|h| h.join().unwrap()).collect()
        });
        let mut stats = SubStats::default();
        stats.exhaustive = true;
        let mut seen = HashSet::new();
        let mut all = vec![];
        for (s, fails) in results {
            stats.merge(s);
            for (fl, case) in fails {
                if seen.insert(fl.sig.clone()) {
                    all.push((fl, case));
                }
            }
        }
        if !all.is_empty() {
            stats.exhaustive = false;
        }
        for (fl, case) in all {
            let path = self.write_replay(sub, &fl, &case);
            println!("  failing case ({}): {}", fl.sig, truncate(&format!("{:?}", case), 2000));
            println!("  detail: {}", truncate(&fl.detail, 4000));
            self.violations.push((fl.sig, fl.detail, path));
        }
        self.subs.push((sub.to_string(), stats));
    }

    /// Write evidence, print the verdict lines and exit.
    pub fn finish(self) -> ! {
        FINISHED.store(true, Ordering::Relaxed);
        let wall = self.start.elapsed().as_secs_f64();
        let hits = self.known_hits.lock().unwrap().clone();
        for k in &self.known {
            if let Some(n) = hits.get(&k.sig) {
                println!(
                    "KNOWN-FINDING: property={} sig={} hits={} {}",
                    self.id, k.sig, n, k.desc
                );
            }
        }
        if self.is_replay() {
            if self.replayed == 0 {
                println!("INCONCLUSIVE: replay file matched no sub-check of {}", self.id);
                std::process::exit(2);
            }
            for (_sig, _d, path) in &self.violations {
                println!("VIOLATION property={} replay={}", self.id, path.display());
            }
            std::process::exit(if self.violations.is_empty() { 0 } else { 1 });
        }
        let mut evaluations = 0u64;
        let mut nontrivial = 0u64;
        let mut samples = vec![];
        let mut subs = serde_json::Map::new();
        let mut excluded = 0u64;
        let mut all_exhaustive = !self.subs.is_empty();
        for (name, st) in &self.subs {
            evaluations += st.evaluations;
            nontrivial += st.nontrivial_count();
            excluded += st.excluded_known;
            all_exhaustive &= st.exhaustive;
            for s in st.samples.iter().take(2) {
                if samples.len() < 8 {
                    samples.push(serde_json::json!({"sub": name, "case": s}));
                }
            }
            let classes: serde_json::Map<String, serde_json::Value> = st
                .classes
                .iter()
                .map(|(k, v)| (k.to_string(), serde_json::json!(v)))
                .collect();
            subs.insert(
                name.clone(),
                serde_json::json!({
                    "evaluations": st.evaluations,
                    "distinct_nontrivial": st.nontrivial_count(),
                    "classes": classes,
                    "excluded_known": st.excluded_known,
                    "exhaustive": st.exhaustive,
                }),
            );
        }
        let known_confirmed: Vec<serde_json::Value> = self
            .known
            .iter()
            .filter_map(|k| {
                hits.get(&k.sig)
                    .map(|n| serde_json::json!({"sig": k.sig, "hits": n, "desc": k.desc}))
            })
            .collect();
        let ev = serde_json::json!({
            "property_id": self.id,
            "tier": self.tier.name(),
            "seed": self.seed as i64,
            "level": self.level,
            "coverage": {
                "evaluations": evaluations,
                "distinct_nontrivial": nontrivial,
                "rule": self.rule,
                "samples": samples,
                "sub_checks": subs,
                "excluded_known": excluded,
                "known_findings_confirmed": known_confirmed,
                "replays_run": self.replayed,
                "exhaustive": all_exhaustive,
                "workers": self.workers,
            },
            "assumptions": self.assumptions,
            "wall_s": wall,
            "violations": self.violations.len(),
        });
        let dir = verif_root().join("evidence");
        let _ = std::fs::create_dir_all(&dir);
        let path = dir.join(format!("{}.json", self.id));
        if let Err(e) = std::fs::write(&path, serde_json::to_string_pretty(&ev).unwrap()) {
            println!("INCONCLUSIVE: cannot write evidence {}: {}", path.display(), e);
            std::process::exit(2);
        }
        println!(
            "{} {}: seed={} evaluations={} distinct_nontrivial={} excluded_known={} violations={} wall={:.1}s",
            self.id,
            self.tier.name(),
            self.seed,
            evaluations,
            nontrivial,
            excluded,
            self.violations.len(),
            wall
        );
        for (name, st) in &self.subs {
            println!(
                "  {:<28} eval={:<9} nontrivial={:<8} classes={:?}",
                name,
                st.evaluations,
                st.nontrivial_count(),
                st.classes
            );
        }
        if !self.violations.is_empty() {
            let mut seen = HashSet::new();
            for (sig, _d, path) in &self.violations {
                if seen.insert(sig.clone()) {
                    println!("  violation sig={}", sig);
                    println!("VIOLATION property={} replay={}", self.id, path.display());
                }
            }
            std::process::exit(1);
        }
        if !self.inconclusive.is_empty() {
            for w in &self.inconclusive {
                println!("INCONCLUSIVE: {}", w);
            }
            std::process::exit(2);
        }
        if nontrivial < 2 || evaluations < 1 {
            println!(
                "INCONCLUSIVE: generator produced {} non-trivial cases (generator regression)",
                nontrivial
            );
            std::process::exit(2);
        }
        std::process::exit(0);
    }
}

fn truncate(s: &str, n: usize) -> String {
    if s.len() <= n {
        s.to_string()
    } else {
        let mut end = n;
        while !s.is_char_boundary(end) {
            end -= 1;
        }
        format!("{}… ({} bytes)", &s[..end], s.len())
    }
}

/// Monotone index mapping for shrinking-friendly choices: maps a u16 onto 0..len.
pub fn pick_index(i: u16, len: usize) -> usize {
    if len == 0 {
        0
    } else {
        ((i as usize) * len) >> 16
    }
}

/// Convenience: run a generated value tree once (used by generators' self tests).
pub fn sample_one<S: Strategy>(s: &S, seed: u64) -> S::Value {
    let rng = TestRng::from_seed(RngAlgorithm::ChaCha, &mix_seed(seed, &["sample"], 0));
    let mut runner = TestRunner::new_with_rng(Config::default(), rng);
    s.new_tree(&mut runner).unwrap().current()
}
