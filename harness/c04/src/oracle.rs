//! The statement of C04 as an invariant over the histories observed by the `rawlane` engine.

use crate::raw::{Case, EmKind, Emission, LKind, LaneObs, Obs, RemoteObs, GHOST_NAMES, LANE_NAMES};
use vcommon::Verdict;
use vsim::{Frame, FrameKind, Req};

const LANE_NOT_FOUND: &[u8] = b"@laneNotFound";

fn kind_name(k: LKind) -> &'static str {
    match k {
        LKind::Value => "value",
        LKind::Map => "map",
        LKind::Supply => "supply",
    }
}

fn frame_len(f: &Frame) -> u64 {
    let body = match &f.kind {
        FrameKind::Event(b) => b.len(),
        FrameKind::Unlinked(Some(b)) => b.len(),
        _ => 0,
    };
    (32 + f.node.len() + f.lane.len() + body) as u64
}

/// The emissions of a lane that are addressed to remote `r` (standard events and responses targeted
/// at it), in emission order: (index into lane.emissions).
fn stream_for(lane: &LaneObs, r: &RemoteObs) -> Vec<usize> {
    lane.emissions
        .iter()
        .enumerate()
        .filter(|(_, e)| matches!(e.kind, EmKind::Event(_)) && (e.target.is_none() || e.target == Some(r.id)))
        .map(|(i, _)| i)
        .collect()
}

fn body_of(e: &Emission) -> Option<&[u8]> {
    match &e.kind {
        EmKind::Event(b) => Some(b.as_slice()),
        _ => None,
    }
}

/// Why a body that is not in the remote's stream of the lane is wrong, as precisely as possible.
fn classify_foreign(body: &[u8], seq: u64, lane: &LaneObs, all: &[LaneObs], r: &RemoteObs) -> (&'static str, String) {
    if lane.emissions.iter().any(|e| body_of(e) == Some(body) && (e.target.is_none() || e.target == Some(r.id)) && e.queued >= seq) {
        return ("event-before-emission", "the lane produced this body only later".into());
    }
    if lane.emissions.iter().any(|e| body_of(e) == Some(body) && e.target.is_some() && e.target != Some(r.id)) {
        return ("event-targeted-at-other-remote", "the lane produced this body only as a sync event for another remote".into());
    }
    for other in all {
        if other.name != lane.name && other.emissions.iter().any(|e| body_of(e) == Some(body)) {
            return ("event-from-other-lane", format!("the body was produced by lane {}", other.name));
        }
    }
    if lane.emissions.iter().any(|e| body_of(e).map(|b| b.len() > body.len() && b.starts_with(body) && !body.is_empty()).unwrap_or(false)) {
        return ("event-truncated", "the body is a strict prefix of a body the lane produced".into());
    }
    if body.is_empty() {
        return ("event-fabricated-empty", "the lane never produced an empty body".into());
    }
    ("event-fabricated", "no lane produced this body".into())
}

struct StreamState {
    open: bool,
    sessions: u64,
    linked_frames: u64,
    extra_linked: u64,
    explicit_openers: u64,
    synced_frames: u64,
    /// position (in the remote's stream of the lane) of the last matched event; value: non-decreasing,
    /// supply: strictly increasing
    last_pos: Option<usize>,
    /// supply: position of the last event inside the current session
    sup_set: Option<std::collections::BTreeSet<usize>>,
    sup_in_session: bool,
    skipped_value: bool,
}

pub fn check(case: &Case, obs: &Obs) -> Verdict {
    let mut v = Verdict::new();
    if obs.init_failed {
        v.fail("harness:init-failed", format!("the raw agent did not initialise: {:?}", obs.result));
        return v;
    }
    if let Some(Err(e)) = &obs.result {
        if e != "crashed by harness" {
            v.fail("agent-task-error", format!("the agent route task ended with an error: {}", e));
        }
    }
    let nlanes = obs.lanes.len();
    let known: Vec<&str> = LANE_NAMES[..nlanes].to_vec();
    let mut coalesced_value = false;
    let mut any_extra_linked = false;
    let mut any_implicit = false;
    let mut any_ghost = false;
    let mut any_failure_closed = false;
    let mut any_stop_closed = false;
    let mut sessions_total = 0u64;
    let mut survivor_shape = false;
    let mut events_total = 0u64;

    for (ri, r) in obs.remotes.iter().enumerate() {
        if let Some(e) = &r.decode_error {
            v.fail("remote-decode-error", format!("remote {} could not decode the agent's output: {}", ri, e));
        }
        for f in &r.frames {
            if f.node != "/node" {
                v.fail("wrong-node", format!("remote {} got a frame with node {:?}", ri, f.node));
            }
            if !known.contains(&f.lane.as_str()) && !GHOST_NAMES.contains(&f.lane.as_str()) {
                v.fail("frame-for-unnamed-lane", format!("remote {} got a frame for lane {:?} which nobody named", ri, f.lane));
            }
        }
        let alive_at_cp = r.dropped_at.is_none() && !r.reason_at_checkpoint;
        // Known defect attribution: a map event with a non-UTF-8 key that reaches `Uplinks::push` while
        // the remote's writer is idle makes `push` return early with the writer taken out and dropped.
        let poisoned = obs.lanes.iter().any(|l| {
            l.emissions
                .iter()
                .any(|e| e.kind == EmKind::InvalidKey && e.flushed.is_some() && (e.target.is_none() || e.target == Some(r.id)))
        });
        // all consequences share one signature
        let psig = |base: &str| -> String {
            if poisoned {
                "remote-abandoned-after-invalid-map-key".to_string()
            } else {
                base.to_string()
            }
        };

        // ------------------------------------------------------------------ known lanes
        for lane in &obs.lanes {
            let name = lane.name.as_str();
            let kn = kind_name(lane.kind);
            let stream = stream_for(lane, r);
            let link_reqs: Vec<u64> = r.sent.iter().filter(|(l, q, _, _)| l == name && *q == Req::Link).map(|s| s.2).collect();
            let sync_reqs: Vec<u64> = r.sent.iter().filter(|(l, q, _, _)| l == name && *q == Req::Sync).map(|s| s.2).collect();
            let targeted: Vec<u64> = lane.emissions.iter().filter(|e| e.target == Some(r.id)).map(|e| e.queued).collect();
            let lane_synced: Vec<u64> = lane
                .emissions
                .iter()
                .filter(|e| e.target == Some(r.id) && e.kind == EmKind::Synced)
                .map(|e| e.queued)
                .collect();
            let before = |xs: &[u64], s: u64| xs.iter().filter(|x| **x < s).count() as u64;
            let mut st = StreamState {
                open: false,
                sessions: 0,
                linked_frames: 0,
                extra_linked: 0,
                explicit_openers: 0,
                synced_frames: 0,
                last_pos: None,
                sup_set: None,
                sup_in_session: false,
                skipped_value: false,
            };
            let mut open_at_cp = false;
            let mut refusals = 0u64;
            let all_reqs: Vec<u64> = r.sent.iter().filter(|(l, q, _, _)| l == name && !matches!(q, Req::Command(_))).map(|s| s.2).collect();
            let mut seen = 0usize;
            let mut idx_in_all = 0usize;
            for f in r.frames.iter() {
                if idx_in_all == r.frames_at_checkpoint {
                    open_at_cp = st.open;
                }
                idx_in_all += 1;
                if f.lane != name {
                    continue;
                }
                seen += 1;
                // after a lane has closed its channels the read task (lane forgotten) and the write task
                // (links kept) disagree about it: known finding, own signature
                let lane_closed = lane.closed_at.map(|c| c < f.seq).unwrap_or(false);
                let csig = |base: &str| -> String {
                    if lane_closed {
                        "session-grammar-after-lane-closed-its-channels".to_string()
                    } else {
                        base.to_string()
                    }
                };
                let ctx = || format!("remote {} lane {} ({}) frame #{} {:?}", ri, name, kn, seen, f);
                match &f.kind {
                    FrameKind::Linked => {
                        st.linked_frames += 1;
                        let causes = before(&link_reqs, f.seq) + before(&targeted, f.seq);
                        if st.linked_frames > causes {
                            v.fail(
                                "linked-without-cause",
                                format!("{}: {} linked frames but only {} link requests / targeted lane responses existed before it was read", ctx(), st.linked_frames, causes),
                            );
                        }
                        if st.open {
                            st.extra_linked += 1;
                            any_extra_linked = true;
                        } else {
                            st.open = true;
                            st.sessions += 1;
                            st.sup_in_session = false;
                            if before(&targeted, f.seq) == 0 {
                                st.explicit_openers += 1;
                            } else {
                                any_implicit = true;
                            }
                        }
                        // every linked inside a session and every session that cannot have been
                        // opened implicitly answers its own explicit link request
                        if st.extra_linked + st.explicit_openers > before(&link_reqs, f.seq) {
                            v.fail(
                                "extra-linked-unrequested",
                                format!(
                                    "{}: {} linked frames inside open sessions + {} sessions that cannot be implicit, but only {} link requests had been made",
                                    ctx(), st.extra_linked, st.explicit_openers, before(&link_reqs, f.seq)
                                ),
                            );
                        }
                    }
                    FrameKind::Unlinked(body) => {
                        // Once a lane has closed its channels the read task forgets it (first failed
                        // write) and answers further requests with lane-not-found, like for a lane that
                        // never existed.
                        let refusal = body.as_deref() == Some(LANE_NOT_FOUND) && lane.closed_at.map(|c| c < f.seq).unwrap_or(false);
                        if refusal {
                            refusals += 1;
                            if refusals > before(&all_reqs, f.seq) {
                                v.fail("closed-lane:more-refusals-than-requests", format!("{}: {} lane-not-found answers but only {} requests", ctx(), refusals, before(&all_reqs, f.seq)));
                            }
                        } else if !st.open {
                            v.fail(
                                csig("unlinked-outside-session"),
                                format!("{}: unlinked although no link is open (a second unlinked, or one without linked)", ctx()),
                            );
                        }
                        st.open = false;
                    }
                    FrameKind::Synced => {
                        if !st.open {
                            v.fail(csig("synced-outside-session"), format!("{}: synced while no link is open", ctx()));
                        }
                        st.synced_frames += 1;
                        if st.synced_frames > before(&sync_reqs, f.seq) {
                            v.fail(
                                "synced-without-request",
                                format!("{}: synced #{} but the remote had asked to sync this lane only {} times before", ctx(), st.synced_frames, before(&sync_reqs, f.seq)),
                            );
                        }
                        if st.synced_frames > before(&lane_synced, f.seq) {
                            v.fail(
                                "synced-not-from-lane",
                                format!("{}: synced #{} but the lane had produced only {} synced markers for this remote", ctx(), st.synced_frames, before(&lane_synced, f.seq)),
                            );
                        }
                    }
                    FrameKind::Event(body) => {
                        events_total += 1;
                        if !st.open {
                            v.fail(csig("event-outside-session"), format!("{}: event while no link is open", ctx()));
                        }
                        // positions in the remote's stream with exactly this body, produced before the frame was read
                        let cands: Vec<usize> = stream
                            .iter()
                            .enumerate()
                            .filter(|(_, ei)| body_of(&lane.emissions[**ei]) == Some(body.as_slice()) && lane.emissions[**ei].queued < f.seq)
                            .map(|(p, _)| p)
                            .collect();
                        if cands.is_empty() {
                            let (sig, why) = classify_foreign(body, f.seq, lane, &obs.lanes, r);
                            v.fail(
                                format!("{}:{}", kn, sig),
                                format!("{}: body {:?} is not a body this lane produced for this remote ({})", ctx(), String::from_utf8_lossy(body), why),
                            );
                            continue;
                        }
                        match lane.kind {
                            LKind::Map => {}
                            LKind::Value => {
                                let pos = match st.last_pos {
                                    Some(prev) => cands.iter().copied().find(|p| *p >= prev),
                                    None => Some(cands[0]),
                                };
                                match pos {
                                    None => v.fail(
                                        "value:reordered",
                                        format!("{}: body {:?} was produced before the body of the previous event (emission order violated)", ctx(), String::from_utf8_lossy(body)),
                                    ),
                                    Some(p) => {
                                        if let Some(prev) = st.last_pos {
                                            if p > prev + 1 {
                                                st.skipped_value = true;
                                            }
                                        }
                                        st.last_pos = Some(p);
                                    }
                                }
                            }
                            LKind::Supply => {
                                // several emissions may carry the same body (empty bodies): keep every
                                // position the last delivered event can have
                                let first_in_session = !st.sup_in_session;
                                let feasible: Vec<usize> = match &st.sup_set {
                                    None => cands.clone(),
                                    Some(set) if first_in_session => cands.iter().copied().filter(|c| set.iter().any(|s| c > s)).collect(),
                                    Some(set) => cands.iter().copied().filter(|c| *c > 0 && set.contains(&(c - 1))).collect(),
                                };
                                if feasible.is_empty() {
                                    let later = match &st.sup_set {
                                        Some(set) => cands.iter().any(|c| set.iter().any(|s| c > s)),
                                        None => true,
                                    };
                                    if later {
                                        v.fail(
                                            "supply:gap-inside-session",
                                            format!("{}: inside one link session the supply events must be consecutive emissions; last delivered position(s) {:?}, this body is at {:?}", ctx(), st.sup_set, cands),
                                        );
                                    } else {
                                        v.fail(
                                            "supply:duplicate-or-reordered",
                                            format!("{}: body {:?} was already delivered or precedes the previous event in emission order (last position(s) {:?}, this body at {:?})", ctx(), String::from_utf8_lossy(body), st.sup_set, cands),
                                        );
                                    }
                                    st.sup_set = Some(cands.iter().copied().collect());
                                } else {
                                    st.sup_set = Some(feasible.into_iter().collect());
                                }
                                st.sup_in_session = true;
                            }
                        }
                    }
                }
            }
            if r.frames_at_checkpoint >= r.frames.len() {
                open_at_cp = st.open;
            }
            sessions_total += st.sessions;
            coalesced_value |= st.skipped_value;

            // ---- a failed lane closes every open link (checked at the quiescent checkpoint, before
            // the agent is ended)
            let li = LANE_NAMES.iter().position(|n| *n == name).unwrap();
            for (bseq, bl) in &obs.bad_tag_ops {
                if *bl != li {
                    continue;
                }
                let flushed = lane.emissions.iter().any(|e| e.kind == EmKind::BadTag && e.flushed.is_some());
                if !flushed || obs.done_at_checkpoint || !alive_at_cp {
                    continue;
                }
                // all of this remote's link/sync requests for the lane were processed before the
                // failure: a settle separates the last of them from the bad tag
                let last_req = link_reqs.iter().chain(sync_reqs.iter()).copied().max();
                let quiet = match last_req {
                    None => true,
                    Some(q) => obs.settles.iter().any(|s| q < *s && *s < *bseq),
                };
                if !quiet {
                    continue;
                }
                if st.sessions > 0 {
                    any_failure_closed = true;
                }
                if open_at_cp {
                    v.fail(
                        psig("open-link-after-lane-failure"),
                        format!("remote {} lane {}: the lane failed (invalid tag) but at quiescence the remote's link is still open (no unlinked received); frames {:?}", ri, name, r.frames.iter().filter(|f| f.lane == name).map(|f| &f.kind).collect::<Vec<_>>()),
                    );
                }
            }
            // ---- a remote is pruned (RemoteTimedOut) only when it has no links. An open link for which
            // the runtime never had a reason to remove it (the remote never asked to unlink this lane, the
            // lane neither failed nor closed, the remote was not dropped) is still in the registry, so the
            // remote must not have been pruned; if it was, the link can never be closed with unlinked.
            if r.reason.as_deref() == Some("Ok(RemoteTimedOut)")
                && r.dropped_at.is_none()
                && st.open
                && !r.sent.iter().any(|(l, q, _, _)| l == name && *q == Req::Unlink)
                && !lane.emissions.iter().any(|e| e.kind == EmKind::BadTag)
                && lane.closed_at.is_none()
            {
                v.fail(
                    psig("pruned-while-linked"),
                    format!(
                        "remote {} lane {}: the runtime timed the remote out as idle (RemoteTimedOut) although its link to this lane was open and nothing ever removed it (no unlink request, lane healthy): the link was never closed with unlinked; frames {:?}",
                        ri, name, r.frames.iter().filter(|f| f.lane == name).map(|f| &f.kind).collect::<Vec<_>>()
                    ),
                );
            }
            // shape class: this remote kept an open link to a healthy lane while another lane it was
            // linked to failed, and at least the prune delay passed afterwards with the agent running
            if st.sessions > 0 && !lane.emissions.iter().any(|e| e.kind == EmKind::BadTag) && lane.closed_at.is_none() && !r.sent.iter().any(|(l, q, _, _)| l == name && *q == Req::Unlink) {
                let other_failed_later = obs.bad_tag_flushed_ms.iter().any(|(bl, ms)| {
                    LANE_NAMES[*bl] != name
                        && r.frames.iter().any(|f| f.lane == LANE_NAMES[*bl] && f.kind == FrameKind::Linked)
                        && obs.checkpoint_ms >= ms + case.params.prune_remote_delay_ms
                });
                if other_failed_later && r.dropped_at.is_none() {
                    survivor_shape = true;
                }
            }
            // ---- agent stop closes every open link of a remote that is still reading
            // (a remote the runtime pruned or lost before the stop is no longer served: it had no links
            // left in the registry, whatever frames it had not read yet are gone with its channel)
            let served_to_the_end = matches!(r.reason.as_deref(), Some("Ok(AgentStoppedExternally)") | Some("Ok(AgentTimedOut)"));
            if obs.done_at_end && r.dropped_at.is_none() && served_to_the_end {
                if st.sessions > 0 {
                    any_stop_closed = true;
                }
                if st.open {
                    v.fail(
                        psig("open-link-after-agent-stop"),
                        format!("remote {} lane {}: the agent has stopped but the remote never received unlinked for its open link; frames {:?}", ri, name, r.frames.iter().filter(|f| f.lane == name).map(|f| &f.kind).collect::<Vec<_>>()),
                    );
                }
            }
        }

        // ------------------------------------------------------------------ lanes that do not exist
        for g in GHOST_NAMES {
            let frames: Vec<(usize, &Frame)> = r.frames.iter().enumerate().filter(|(_, f)| f.lane == g).collect();
            let reqs: Vec<&(String, Req, u64, Option<u64>)> = r.sent.iter().filter(|(l, q, _, _)| l == g && !matches!(q, Req::Command(_))).collect();
            if !reqs.is_empty() {
                any_ghost = true;
            }
            for (k, (_, f)) in frames.iter().enumerate() {
                if f.kind != FrameKind::Unlinked(Some(LANE_NOT_FOUND.to_vec())) {
                    v.fail("ghost:wrong-frame", format!("remote {}: frame for the non-existent lane {} is not unlinked @laneNotFound: {:?}", ri, g, f));
                }
                match reqs.get(k) {
                    None => v.fail(
                        "ghost:more-answers-than-requests",
                        format!("remote {}: {} lane-not-found frames for lane {} but only {} link/sync/unlink requests (commands must not be answered)", ri, frames.len(), g, reqs.len()),
                    ),
                    Some(req) => {
                        if f.seq < req.2 {
                            v.fail("ghost:answer-before-request", format!("remote {}: lane-not-found #{} for {} read before request #{} was made", ri, k + 1, g, k + 1));
                        }
                    }
                }
            }
            // at the quiescent checkpoint every link/sync that was delivered has been answered
            if alive_at_cp && !obs.done_at_checkpoint {
                let must = r.sent[..r.sent_at_checkpoint]
                    .iter()
                    .filter(|(l, q, _, w)| l == g && matches!(q, Req::Link | Req::Sync) && w.is_some())
                    .count();
                let got = frames.iter().filter(|(i, _)| *i < r.frames_at_checkpoint).count();
                if got < must {
                    v.fail(
                        psig("ghost:missing-lane-not-found"),
                        format!("remote {}: {} link/sync requests for the non-existent lane {} were delivered but only {} lane-not-found frames arrived by quiescence", ri, must, g, got),
                    );
                }
            }
        }
    }

    // ---------------------------------------------------------------------- evidence
    // non-trivial: at an instant where a remote's writer was provably parked on a full channel (a
    // harness read woke an idle system) more specials / synced markers had been caused than had been
    // written so far, i.e. one was queued behind the lent-out writer (or coalesced there).
    let mut nt = false;
    for w in &obs.wakes {
        let r = &obs.remotes[w.remote];
        let mut off = 0u64;
        let mut specials_written = 0u64;
        let mut synced_written = 0u64;
        for f in &r.frames {
            if off >= w.written {
                break;
            }
            match &f.kind {
                FrameKind::Linked => specials_written += 1,
                FrameKind::Unlinked(_) if GHOST_NAMES.contains(&f.lane.as_str()) => specials_written += 1,
                FrameKind::Synced => synced_written += 1,
                _ => {}
            }
            off += frame_len(f);
        }
        let specials_caused = r
            .sent
            .iter()
            .filter(|(l, q, _, wr)| {
                wr.map(|x| x < w.seq).unwrap_or(false)
                    && ((known.contains(&l.as_str()) && *q == Req::Link)
                        || (GHOST_NAMES.contains(&l.as_str()) && !matches!(q, Req::Command(_))))
            })
            .count() as u64;
        let synced_caused: u64 = obs
            .lanes
            .iter()
            .map(|l| {
                l.emissions
                    .iter()
                    .filter(|e| e.kind == EmKind::Synced && e.target == Some(r.id) && e.flushed.map(|x| x < w.seq).unwrap_or(false))
                    .count() as u64
            })
            .sum();
        if specials_caused > specials_written || synced_caused > synced_written {
            nt = true;
        }
    }
    if nt {
        v.nontrivial();
    }
    v.class_if(nt, "special-or-synced-queued-behind-busy-writer");
    v.class_if(!obs.wakes.is_empty(), "writer-parked-observed");
    v.class_if(coalesced_value, "value-coalesced");
    v.class_if(any_extra_linked, "repeated-link");
    v.class_if(any_implicit, "possibly-implicit-link");
    v.class_if(any_ghost, "unknown-lane-request");
    v.class_if(any_failure_closed, "lane-failure-with-sessions");
    v.class_if(any_stop_closed, "agent-stop-with-sessions");
    v.class_if(survivor_shape, "link-survives-other-lane-failure-past-prune-delay");
    v.class_if(obs.stop_at.is_some(), "stop-trigger");
    v.class_if(obs.req_while_vote, "request-while-stop-vote-outstanding(model)");
    v.class_if(obs.coord_while_write_voted, "write-scheduled-while-write-task-voted(model)");
    v.class_if(
        obs.coord_while_write_voted && obs.remotes.iter().any(|r| r.reason.as_deref() == Some("Ok(AgentTimedOut)")),
        "write-scheduled-in-vote-window-and-stop-was-unanimous",
    );
    v.class_if(obs.agent_end_at.map(|e| e < obs.checkpoint_seq).unwrap_or(false), "agent-end-op");
    v.class_if(obs.remotes.iter().any(|r| r.dropped_at.is_some()), "remote-dropped");
    v.class_if(obs.remotes.iter().any(|r| r.reason.as_deref() == Some("Ok(RemoteTimedOut)")), "remote-pruned");
    v.class_if(obs.remotes.iter().any(|r| r.reason.as_deref() == Some("Ok(AgentTimedOut)")), "agent-timed-out");
    v.class_if(obs.lanes.iter().any(|l| l.closed_at.is_some()), "lane-closed");
    v.class_if(!obs.done_at_end, "agent-not-done-at-end");
    v.class_if(sessions_total >= 3, "sessions>=3");
    v.class_if(events_total >= 5, "events>=5");
    v.class_if(case.allow_empty, "empty-bodies-allowed");
    v
}
