// Shared helpers for the fuzz targets (included with `include!`).
use swimos_model::{Item, Value};

/// Kind-exact structural equality (unlike `Value::eq` it never identifies numbers of different kinds).
#[allow(dead_code)]
fn structural_eq(a: &Value, b: &Value) -> bool {
    match (a, b) {
        (Value::Extant, Value::Extant) => true,
        (Value::Int32Value(x), Value::Int32Value(y)) => x == y,
        (Value::Int64Value(x), Value::Int64Value(y)) => x == y,
        (Value::UInt32Value(x), Value::UInt32Value(y)) => x == y,
        (Value::UInt64Value(x), Value::UInt64Value(y)) => x == y,
        (Value::Float64Value(x), Value::Float64Value(y)) => (x.is_nan() && y.is_nan()) || x.to_bits() == y.to_bits(),
        (Value::BooleanValue(x), Value::BooleanValue(y)) => x == y,
        (Value::BigInt(x), Value::BigInt(y)) => x == y,
        (Value::BigUint(x), Value::BigUint(y)) => x == y,
        (Value::Text(x), Value::Text(y)) => x.as_str() == y.as_str(),
        (Value::Data(x), Value::Data(y)) => x.as_ref() == y.as_ref(),
        (Value::Record(a1, i1), Value::Record(a2, i2)) => {
            a1.len() == a2.len()
                && i1.len() == i2.len()
                && a1.iter().zip(a2).all(|(x, y)| x.name.as_str() == y.name.as_str() && structural_eq(&x.value, &y.value))
                && i1.iter().zip(i2).all(|(x, y)| match (x, y) {
                    (Item::ValueItem(x), Item::ValueItem(y)) => structural_eq(x, y),
                    (Item::Slot(k1, v1), Item::Slot(k2, v2)) => structural_eq(k1, k2) && structural_eq(v1, v2),
                    _ => false,
                })
        }
        _ => false,
    }
}

/// Known finding (C09/C15 `panic:...tokens.rs:105`): a `\uXXXX` escape naming a UTF-16 surrogate panics.
/// Inputs that contain one are skipped so that the campaign can look for *other* defects.
fn has_surrogate_escape(text: &str) -> bool {
    let b = text.as_bytes();
    let mut i = 0;
    while i + 1 < b.len() {
        if b[i] == b'\\' && b[i + 1] == b'u' {
            let mut j = i + 1;
            while j < b.len() && b[j] == b'u' {
                j += 1;
            }
            if j + 1 < b.len() && (b[j] == b'd' || b[j] == b'D') && matches!(b[j + 1], b'8' | b'9' | b'a'..=b'f' | b'A'..=b'F') {
                return true;
            }
            i = j;
        } else {
            i += 1;
        }
    }
    false
}
