//! Sub-check 3: model-based check of `swimos_utilities::multi_reader::MultiReader`.
//!
//! Scripted streams (items, externally opened gates, self-wakes, end) are added to a real
//! `MultiReader` and the harness polls it with a counting waker.

use futures::Stream;
use proptest::prelude::*;
use serde::{Deserialize, Serialize};
use std::cell::RefCell;
use std::pin::Pin;
use std::rc::Rc;
use std::sync::atomic::{AtomicUsize, Ordering};
use std::sync::Arc;
use std::task::{Context, Poll, Wake, Waker};
use swimos_utilities::multi_reader::MultiReader;
use vcommon::{pick_index, Verdict};

#[derive(Clone, Copy, Debug, PartialEq, Eq, Serialize, Deserialize)]
pub enum Step {
    /// `Ready(Some(_))`
    Item,
    /// `Pending` (storing the waker) until the harness opens the gate
    Gate,
    /// wake own waker, then `Pending`
    SelfWake,
}

#[derive(Clone, Debug, Serialize, Deserialize)]
pub enum Op {
    /// add the next not yet added stream
    Add,
    /// add the next `n` streams at once
    AddMany(u8),
    Poll,
    /// open the gate of one stream that is parked at (or will next reach) a gate
    Open(u16),
    OpenAll,
}

#[derive(Clone, Debug, Serialize, Deserialize)]
pub struct Case {
    pub streams: Vec<Vec<Step>>,
    pub ops: Vec<Op>,
}

fn arb_script() -> impl Strategy<Value = Vec<Step>> {
    proptest::collection::vec(
        prop_oneof![5 => Just(Step::Item), 2 => Just(Step::Gate), 1 => Just(Step::SelfWake)],
        0..7,
    )
}

pub fn arb_case() -> impl Strategy<Value = Case> {
    let n = prop_oneof![
        4 => 1usize..6,
        2 => 6usize..40,
        3 => 60usize..70,
        2 => 120usize..=130,
        2 => 129usize..=130,
    ];
    n.prop_flat_map(|n| {
        let ops = proptest::collection::vec(
            prop_oneof![
                3 => Just(Op::Add),
                1 => (1u8..=140).prop_map(Op::AddMany),
                8 => Just(Op::Poll),
                3 => any::<u16>().prop_map(Op::Open),
                1 => Just(Op::OpenAll),
            ],
            0..(20 + 6 * n),
        );
        (proptest::collection::vec(arb_script(), n), ops)
    })
    .prop_map(|(streams, ops)| Case { streams, ops })
}

struct Count(AtomicUsize);
impl Wake for Count {
    fn wake(self: Arc<Self>) {
        self.0.fetch_add(1, Ordering::SeqCst);
    }
    fn wake_by_ref(self: &Arc<Self>) {
        self.0.fetch_add(1, Ordering::SeqCst);
    }
}

#[derive(Default)]
struct StreamState {
    script: Vec<Step>,
    pos: usize,
    /// the gate at `pos` has been opened
    gate_open: bool,
    waker: Option<Waker>,
    /// the stream must be polled again: it was never polled, its last poll gave an item, or its
    /// waker has been woken since its last `Pending`
    notified: bool,
    ended: bool,
    polled_after_end: bool,
    next_item: usize,
    polls: usize,
    /// items other streams yielded while this one was continuously `notified`, per stream
    bypass: Vec<(usize, usize)>,
}

struct Scripted {
    id: usize,
    st: Rc<RefCell<StreamState>>,
    log: Rc<RefCell<Vec<usize>>>,
}

impl Stream for Scripted {
    type Item = (usize, usize);
    fn poll_next(self: Pin<&mut Self>, cx: &mut Context<'_>) -> Poll<Option<Self::Item>> {
        self.log.borrow_mut().push(self.id);
        let mut s = self.st.borrow_mut();
        s.polls += 1;
        s.notified = false;
        s.bypass.clear();
        if s.ended {
            s.polled_after_end = true;
            return Poll::Ready(None);
        }
        loop {
            if s.pos >= s.script.len() {
                s.ended = true;
                return Poll::Ready(None);
            }
            match s.script[s.pos] {
                Step::Item => {
                    s.pos += 1;
                    let i = s.next_item;
                    s.next_item += 1;
                    s.notified = true;
                    return Poll::Ready(Some((self.id, i)));
                }
                Step::Gate => {
                    if s.gate_open {
                        s.gate_open = false;
                        s.pos += 1;
                        continue;
                    }
                    s.waker = Some(cx.waker().clone());
                    return Poll::Pending;
                }
                Step::SelfWake => {
                    s.pos += 1;
                    s.notified = true;
                    drop(s);
                    cx.waker().wake_by_ref();
                    return Poll::Pending;
                }
            }
        }
    }
}

pub fn check(case: &Case) -> Verdict {
    let mut v = Verdict::new();
    let n = case.streams.len();
    let states: Vec<Rc<RefCell<StreamState>>> = case
        .streams
        .iter()
        .map(|s| {
            Rc::new(RefCell::new(StreamState {
                script: s.clone(),
                ..Default::default()
            }))
        })
        .collect();
    let poll_log = Rc::new(RefCell::new(Vec::new()));
    let counter = Arc::new(Count(AtomicUsize::new(0)));
    let waker = Waker::from(counter.clone());
    let mut mr: MultiReader<Scripted> = MultiReader::new();
    let mut added = 0usize;
    let mut yielded: Vec<Vec<usize>> = vec![vec![]; n];
    let mut last_pending = false;
    let mut max_live = 0usize;
    let mut pendings = 0usize;
    let mut nones = 0usize;
    let mut opens_parked = 0usize;
    let mut max_bypass = 0usize;

    let add = |mr: &mut MultiReader<Scripted>, added: &mut usize| {
        if *added < n {
            states[*added].borrow_mut().notified = true;
            mr.add(Scripted {
                id: *added,
                st: states[*added].clone(),
                log: poll_log.clone(),
            });
            *added += 1;
        }
    };

    macro_rules! do_poll {
        () => {{
            let before = counter.0.load(Ordering::SeqCst);
            poll_log.borrow_mut().clear();
            let live = (0..added).filter(|i| !states[*i].borrow().ended).count();
            max_live = max_live.max(live);
            let r = Pin::new(&mut mr).poll_next(&mut Context::from_waker(&waker));
            let woken = counter.0.load(Ordering::SeqCst) > before;
            for i in 0..added {
                if states[i].borrow().polled_after_end {
                    v.fail("mr:polled-after-end", format!("stream {} was polled again after it returned None", i));
                    states[i].borrow_mut().polled_after_end = false;
                }
            }
            match r {
                Poll::Ready(Some((id, k))) => {
                    last_pending = false;
                    yielded[id].push(k);
                    // every other stream that is waiting to be polled has been bypassed once more by `id`
                    for j in 0..added {
                        if j != id {
                            let mut s = states[j].borrow_mut();
                            if s.notified && !s.ended {
                                let c = match s.bypass.iter_mut().find(|(w, _)| *w == id) {
                                    Some((_, c)) => {
                                        *c += 1;
                                        *c
                                    }
                                    None => {
                                        s.bypass.push((id, 1));
                                        1
                                    }
                                };
                                max_bypass = max_bypass.max(c);
                                if c > 2 {
                                    v.fail(
                                        "mr:starved",
                                        format!(
                                            "stream {} has been waiting to be polled while stream {} yielded {} items (re-queueing at the back of the queue bounds this by 2)",
                                            j, id, c
                                        ),
                                    );
                                }
                            }
                        }
                    }
                }
                Poll::Ready(None) => {
                    last_pending = false;
                    nones += 1;
                    for i in 0..added {
                        let s = states[i].borrow();
                        if !s.ended {
                            v.fail(
                                "mr:none-with-live-stream",
                                format!("MultiReader returned None but stream {} has not ended (script pos {}/{})", i, s.pos, s.script.len()),
                            );
                        }
                    }
                }
                Poll::Pending => {
                    last_pending = true;
                    pendings += 1;
                    if added > 0 && (0..added).all(|i| states[i].borrow().ended) {
                        // all streams have ended and been observed: None expected, not Pending
                        v.fail("mr:pending-when-all-ended", "all streams ended but MultiReader returned Pending".to_string());
                    }
                    if !woken {
                        for i in 0..added {
                            let s = states[i].borrow();
                            if s.notified && !s.ended {
                                v.fail(
                                    "mr:lost-wakeup",
                                    format!(
                                        "MultiReader returned Pending without a wake although stream {} is due to be polled (script pos {}/{}, polled this round: {})",
                                        i, s.pos, s.script.len(), poll_log.borrow().contains(&i)
                                    ),
                                );
                                break;
                            }
                        }
                    }
                }
            }
            let live_after = (0..added).filter(|i| !states[*i].borrow().ended).count();
            if mr.is_empty() != (live_after == 0) {
                v.fail(
                    "mr:is-empty",
                    format!("is_empty() = {} with {} streams that have not returned None", mr.is_empty(), live_after),
                );
            }
            woken
        }};
    }

    macro_rules! open {
        ($i:expr) => {{
            let i: usize = $i;
            let w = {
                let mut s = states[i].borrow_mut();
                if s.ended || s.pos >= s.script.len() || s.script[s.pos] != Step::Gate || s.gate_open {
                    None
                } else {
                    s.gate_open = true;
                    match s.waker.take() {
                        Some(w) => {
                            s.notified = true;
                            Some(w)
                        }
                        None => None,
                    }
                }
            };
            if let Some(w) = w {
                opens_parked += 1;
                let before = counter.0.load(Ordering::SeqCst);
                w.wake();
                if last_pending && counter.0.load(Ordering::SeqCst) == before {
                    v.fail(
                        "mr:no-wake-on-ready",
                        format!("stream {} became ready while MultiReader was Pending but the task waker was not woken", i),
                    );
                }
            }
        }};
    }

    let gated = |states: &Vec<Rc<RefCell<StreamState>>>, added: usize| -> Vec<usize> {
        (0..added)
            .filter(|i| {
                let s = states[*i].borrow();
                !s.ended && s.pos < s.script.len() && s.script[s.pos] == Step::Gate && !s.gate_open
            })
            .collect()
    };

    for op in &case.ops {
        match op {
            Op::Add => add(&mut mr, &mut added),
            Op::AddMany(k) => {
                for _ in 0..*k {
                    add(&mut mr, &mut added);
                }
            }
            Op::Poll => {
                do_poll!();
            }
            Op::Open(x) => {
                let g = gated(&states, added);
                if !g.is_empty() {
                    open!(g[pick_index(*x, g.len())]);
                }
            }
            Op::OpenAll => {
                for i in gated(&states, added) {
                    open!(i);
                }
            }
        }
    }
    // drain: everything must come out
    while added < n {
        add(&mut mr, &mut added);
    }
    let mut guard = 0usize;
    let total_steps: usize = case.streams.iter().map(|s| s.len() + 2).sum::<usize>() + 10;
    loop {
        guard += 1;
        if guard > 20 * total_steps + 1000 {
            v.fail("mr:no-progress", "drain did not terminate".to_string());
            break;
        }
        let before_items: usize = yielded.iter().map(|y| y.len()).sum();
        let all_ended = (0..n).all(|i| states[i].borrow().ended);
        if all_ended && mr.is_empty() {
            break;
        }
        let woken = do_poll!();
        if last_pending && !woken {
            let g = gated(&states, added);
            if g.is_empty() {
                let after_items: usize = yielded.iter().map(|y| y.len()).sum();
                if after_items == before_items {
                    v.fail(
                        "mr:stuck",
                        "MultiReader is Pending, was not woken and no stream is waiting for an external event, but streams remain".to_string(),
                    );
                    break;
                }
            } else {
                for i in g {
                    open!(i);
                }
            }
        }
    }
    // after the last stream ended a further poll gives None
    if !v.failures.iter().any(|f| f.sig == "mr:stuck" || f.sig == "mr:no-progress") {
        let r = Pin::new(&mut mr).poll_next(&mut Context::from_waker(&waker));
        if !matches!(r, Poll::Ready(None)) {
            v.fail("mr:no-none-at-end", format!("after all streams ended poll_next gave {:?}", r.map(|o| o.is_some())));
        }
    }
    for i in 0..n {
        let expect: Vec<usize> = (0..case.streams[i].iter().filter(|s| **s == Step::Item).count()).collect();
        if yielded[i] != expect {
            let mut sorted = yielded[i].clone();
            sorted.sort();
            let sig = if sorted == expect {
                "mr:order"
            } else if yielded[i].len() > expect.len() || {
                let mut d = sorted.clone();
                d.dedup();
                d.len() != sorted.len()
            } {
                "mr:duplicated"
            } else {
                "mr:lost"
            };
            v.fail(sig, format!("stream {}: yielded {:?}, script has items {:?}", i, yielded[i], expect));
        }
    }
    let items: usize = case.streams.iter().map(|s| s.iter().filter(|x| **x == Step::Item).count()).sum();
    let with_items = case.streams.iter().filter(|s| s.contains(&Step::Item)).count();
    if with_items >= 3 && items >= 3 {
        v.nontrivial();
    }
    v.class_if(max_live > 64, "mr:live>64");
    v.class_if(max_live > 128, "mr:live>128");
    v.class_if(max_live <= 64, "mr:live<=64");
    v.class_if(pendings > 0, "mr:pending-seen");
    v.class_if(opens_parked > 0, "mr:gate-woken");
    v.class_if(nones > 1, "mr:none-then-more-streams");
    v.class_if(case.streams.iter().any(|s| s.contains(&Step::SelfWake)), "mr:self-wake");
    v.class_if(max_bypass >= 2, "mr:bypass=2");
    v
}
