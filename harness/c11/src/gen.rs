//! Shared generators: WARP node / lane strings and raw Recon bodies "as produced by lanes".

use proptest::prelude::*;
use swimos_model::identifier::is_identifier;
use swimos_recon::{print_recon, print_recon_compact, print_recon_pretty};

/// Hand-picked strings aimed at the writer's quoting rule (`is_identifier`) and escaping rule
/// (`escape_if_needed`) and at the reader's token grammar.
pub const WARP_TEXTS: &[&str] = &[
    "",
    "true",
    "false",
    "True",
    "truefalse",
    "node",
    "lane",
    "/node",
    "/unit/foo",
    "/unit/foo bar",
    "/unit/%20x",
    "%2Funit%2Ffoo",
    "swimos:meta:node/%2Funit%2Ffoo/lane/bar",
    "swimos:meta:mesh",
    "a b",
    " a",
    "a ",
    "  ",
    "\t",
    "a\tb",
    "a\nb",
    "\r\n",
    "\"",
    "\"\"",
    "a\"b",
    "\"quoted\"",
    "\\",
    "\\\\",
    "a\\b",
    "\\n",
    "\\u0041",
    "\\\"",
    "\\u",
    "\\x",
    "\u{0}",
    "\u{1}",
    "\u{8}",
    "\u{b}",
    "\u{c}",
    "\u{1f}",
    "\u{7f}",
    "\u{80}",
    "\u{9f}",
    "\u{a0}",
    "\u{b7}",
    "\u{d7}",
    "\u{f7}",
    "\u{37e}",
    "\u{2028}",
    "\u{2029}",
    "\u{200c}",
    "\u{feff}",
    "\u{fffd}",
    "\u{fffe}",
    "\u{ffff}",
    "\u{10000}",
    "\u{1f600}",
    "a\u{1f600}b",
    "\u{effff}",
    "\u{f0000}",
    "\u{10ffff}",
    "é",
    "日本語",
    "اسم",
    "a-b",
    "-a",
    "a-",
    "_",
    "_1",
    "1",
    "1a",
    "-1",
    "1.5",
    "1e5",
    "0x1f",
    "%",
    "%41",
    "%zz",
    "@",
    "@attr",
    "@event(node:a,lane:b)",
    "a@b",
    "(",
    ")",
    "a)b",
    "a,b",
    ",",
    ";",
    ":",
    "a:b",
    "node:",
    "lane:x",
    "{",
    "}",
    "{a:1}",
    "#",
    "#c",
    "a#b",
    "/",
    "//",
    "/a/b/",
    "?q=1&r=2",
    "a=b",
    "a+b",
    "a.b",
    "a'b",
    "`",
    "~",
    "!",
    "$",
    "^",
    "*",
    "|",
    "<>",
    "[]",
];

fn seg() -> BoxedStrategy<String> {
    prop_oneof![
        4 => "[a-z][a-z0-9_]{0,5}",
        1 => "[a-zA-Z0-9%._~-]{1,6}",
        1 => Just("%20".to_string()),
        1 => Just("%2F".to_string()),
        1 => Just(":id".to_string()),
        1 => Just("true".to_string()),
    ]
    .boxed()
}

/// Any Rust string is a possible node URI / lane name at this layer (the envelope writer takes `&str`).
pub fn arb_warp_text() -> BoxedStrategy<String> {
    prop_oneof![
        3 => "[a-zA-Z_][a-zA-Z0-9_-]{0,8}",
        4 => proptest::collection::vec(seg(), 1..4).prop_map(|s| format!("/{}", s.join("/"))),
        5 => proptest::sample::select(WARP_TEXTS).prop_map(|s| s.to_string()),
        2 => proptest::sample::select(vgen::TEXTS).prop_map(|s| s.to_string()),
        2 => "[ -~]{0,12}",
        1 => "\\PC{0,8}",
        2 => proptest::collection::vec(any::<char>(), 0..6).prop_map(|c| c.into_iter().collect::<String>()),
        3 => proptest::collection::vec(
            prop_oneof![
                Just('"'), Just('\\'), Just('\n'), Just('\t'), Just('\r'), Just('\u{8}'),
                Just('\u{c}'), Just('\u{0}'), Just('a'), Just(' '), Just('\u{b7}'), Just('\u{1f600}'),
                Just('\u{1b}'), Just('/'), Just('@'), Just('{'), Just(','), Just(':'), Just('u'),
                Just('n'), Just('0'), Just('%'), Just(')'), Just('('), Just('-'), Just('\u{7f}'),
                Just('\u{85}'), Just('\u{2028}'), Just('\u{10ffff}'), Just('\u{effff}'), Just('\u{f0000}')
            ],
            0..10
        )
        .prop_map(|c| c.into_iter().collect::<String>()),
        // very long
        1 => (arb_unit(), 50usize..4000).prop_map(|(u, n)| {
            let mut s = String::new();
            while s.len() < n {
                s.push_str(&u);
            }
            s
        }),
    ]
    .boxed()
}

fn arb_unit() -> BoxedStrategy<String> {
    prop_oneof![
        Just("a".to_string()),
        Just("/seg".to_string()),
        Just("\"".to_string()),
        Just("\\".to_string()),
        Just("\u{1}".to_string()),
        Just("\u{1f600}".to_string()),
        Just("x y".to_string()),
        "[ -~]{1,6}",
    ]
    .boxed()
}

pub fn needs_quoting(s: &str) -> bool {
    !is_identifier(s)
}

pub fn needs_escaping(s: &str) -> bool {
    s.chars().any(|c| c < '\u{20}' || c == '"' || c == '\\')
}

/// Bodies a lane / downlink really produces.
pub const BODIES: &[&str] = &[
    "",
    "@laneNotFound",
    "@nodeNotFound",
    "@clear",
    "@remove(key:x)",
    "@update(key:\"k 1\") 5",
    "@update(key:3) @inner {a:1}",
    "@drop(2)",
    "@take(3)",
    "@a@b@c",
    "@\"quoted attr\"(1)",
    "1",
    "-7",
    "0.5",
    "true",
    "false",
    "text",
    "\"\"",
    "\"two words\"",
    "\"a\\\"b\\\\c\\n\"",
    "\"@notattr\"",
    "\" leading space\"",
    "%AAEC",
    "{}",
    "{a:1,b:2}",
    "{1,2,3}",
    "{ a: 1, b: { c: 2 } }",
    "a:1",
    "1,2",
    "\u{1f600}",
    "\"\u{1f600}\\u0001\"",
    "x\ny",
    "{\n  a: 1\n}",
];

/// Raw Recon text of a body: printed by the real Recon printers from a generated value
/// (compact / standard / pretty), or taken from the pool of envelope bodies the runtime itself writes.
pub fn arb_body() -> BoxedStrategy<String> {
    prop_oneof![
        1 => Just(String::new()),
        4 => proptest::sample::select(BODIES).prop_map(|s| s.to_string()),
        6 => (vgen::arb_value(true), 0u8..3).prop_map(|(v, p)| {
            let value = v.to_value();
            match p {
                0 => format!("{}", print_recon_compact(&value)),
                1 => format!("{}", print_recon(&value)),
                _ => format!("{}", print_recon_pretty(&value)),
            }
        }),
        2 => (arb_warp_text()).prop_map(|t| {
            // a text value: printed as an identifier or as an escaped string literal
            let value = swimos_model::Value::text(t);
            format!("{}", print_recon_compact(&value))
        }),
        1 => (arb_warp_text(), vgen::arb_value(true)).prop_map(|(t, v)| {
            // attribute first: `@name(..) body`
            let value = swimos_model::Value::Record(
                vec![swimos_model::Attr::of((t.as_str(), v.to_value()))],
                vec![],
            );
            format!("{}", print_recon_compact(&value))
        }),
    ]
    // the reader strips spaces/tabs between header and body (the writer inserts one space), so a
    // body can only be carried unchanged if it does not itself begin with blank space; no Recon
    // printer emits leading blanks
    .prop_map(|s| s.trim_start_matches([' ', '\t']).to_string())
    .boxed()
}

pub fn body_class(b: &str) -> &'static str {
    if b.is_empty() {
        "body:empty"
    } else if b.starts_with('@') {
        "body:attr-first"
    } else if b.starts_with('"') {
        "body:string-literal"
    } else if b.starts_with('{') || b.contains(',') || b.contains(':') {
        "body:record"
    } else {
        "body:primitive"
    }
}
