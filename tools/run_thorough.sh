#!/bin/bash
# tools/run_thorough.sh <ID>...  runs thorough tiers sequentially (each capped at CAP seconds, default 6000), logs to
# logs/thorough-<ID>.log and appends one line per run to logs/thorough-summary.txt. VERIF_WORKERS is passed through.
CAP=${CAP:-6000}
for id in "$@"; do
  s=$(date +%s)
  timeout $CAP /verif/check $id thorough > /verif/logs/thorough-$id.log 2>&1
  rc=$?
  echo "$id thorough rc=$rc $(( $(date +%s) - s ))s $(grep -E 'thorough:' /verif/logs/thorough-$id.log | head -1)" >> /verif/logs/thorough-summary.txt
done
