//! Case types, wire encoding of notifications and the reference fold.

use bytes::BytesMut;
use serde::{Deserialize, Serialize};
use std::collections::BTreeMap;
use swimos_agent_protocol::encoding::downlink::DownlinkNotificationEncoder;
use swimos_agent_protocol::encoding::map::MapMessageEncoder;
use swimos_agent_protocol::{DownlinkNotification, MapMessage};
use tokio_util::codec::Encoder;

#[derive(Clone, Copy, Debug, PartialEq, Eq, Serialize, Deserialize)]
pub enum Kind {
    Value,
    Map,
}

impl Kind {
    pub fn name(&self) -> &'static str {
        match self {
            Kind::Value => "value",
            Kind::Map => "map",
        }
    }
}

/// One downlink notification (what the runtime writes to the downlink's input channel).
#[derive(Clone, Copy, Debug, PartialEq, Eq, Serialize, Deserialize)]
pub enum Note {
    Linked,
    Synced,
    Unlinked,
    /// Value downlinks: event carrying the lane's value.
    Set(i32),
    /// Map downlinks: event carrying a `MapMessage`.
    Upd(i32, i32),
    Rem(i32),
    Clear,
    Take(u64),
    Drop(u64),
    /// Bulk prelude: `n` updates with distinct keys (see `fill_updates`), sent as `n` update frames.
    /// One op in the case so that large maps stay cheap to generate and to shrink.
    Fill { n: u16, seed: u16 },
}

/// The updates a `Fill` stands for: keys 100 + a permutation of 0..1000 (7919 is coprime with
/// 1000, so the first n <= 1000 keys are distinct and not in key order), disjoint from the key pool.
pub fn fill_updates(n: u16, seed: u16) -> Vec<(i32, i32)> {
    (0..n.min(1000) as u32)
        .map(|i| {
            let k = 100 + ((i * 7919 + seed as u32) % 1000) as i32;
            (k, (i % 7) as i32)
        })
        .collect()
}

impl Note {
    pub fn name(&self) -> &'static str {
        match self {
            Note::Linked => "linked",
            Note::Synced => "synced",
            Note::Unlinked => "unlinked",
            Note::Set(_) => "event",
            Note::Upd(..) => "update",
            Note::Rem(_) => "remove",
            Note::Clear => "clear",
            Note::Take(_) => "take",
            Note::Drop(_) => "drop",
            Note::Fill { .. } => "fill",
        }
    }

    /// The wire frames of this notification (one, except for `Fill`).
    pub fn frames(&self) -> Vec<BytesMut> {
        match self {
            Note::Fill { n, seed } => fill_updates(*n, *seed)
                .into_iter()
                .map(|(k, v)| {
                    let mut b = BytesMut::new();
                    Note::Upd(k, v).encode(&mut b);
                    b
                })
                .collect(),
            other => {
                let mut b = BytesMut::new();
                other.encode(&mut b);
                vec![b]
            }
        }
    }

    pub fn is_event(&self) -> bool {
        !matches!(self, Note::Linked | Note::Synced | Note::Unlinked)
    }

    pub fn fits(&self, kind: Kind) -> bool {
        match self {
            Note::Linked | Note::Synced | Note::Unlinked => true,
            Note::Set(_) => kind == Kind::Value,
            _ => kind == Kind::Map,
        }
    }

    /// Append the wire form (downlink notification codec) to `out`.
    pub fn encode(&self, out: &mut BytesMut) {
        let mut enc = DownlinkNotificationEncoder;
        let raw: DownlinkNotification<BytesMut> = match self {
            Note::Linked => DownlinkNotification::Linked,
            Note::Synced => DownlinkNotification::Synced,
            Note::Unlinked => DownlinkNotification::Unlinked,
            Note::Set(v) => DownlinkNotification::Event {
                body: BytesMut::from(v.to_string().as_bytes()),
            },
            other => {
                let msg: MapMessage<i32, i32> = match other {
                    Note::Upd(k, v) => MapMessage::Update { key: *k, value: *v },
                    Note::Rem(k) => MapMessage::Remove { key: *k },
                    Note::Clear => MapMessage::Clear,
                    Note::Take(n) => MapMessage::Take(*n),
                    Note::Drop(n) => MapMessage::Drop(*n),
                    _ => unreachable!("Fill is sent through frames()"),
                };
                let mut body = BytesMut::new();
                MapMessageEncoder::default()
                    .encode(msg, &mut body)
                    .expect("encoding a map message cannot fail");
                DownlinkNotification::Event { body }
            }
        };
        enc.encode(raw, out).expect("encoding a notification cannot fail");
    }
}

/// A local write through the downlink's handle.
#[derive(Clone, Copy, Debug, PartialEq, Eq, Serialize, Deserialize)]
pub enum Write {
    Set(i32),
    Upd(i32, i32),
    Rem(i32),
    Clear,
}

impl Write {
    pub fn name(&self) -> &'static str {
        match self {
            Write::Set(_) => "write-set",
            Write::Upd(..) => "write-update",
            Write::Rem(_) => "write-remove",
            Write::Clear => "write-clear",
        }
    }
    pub fn fits(&self, kind: Kind) -> bool {
        match self {
            Write::Set(_) => kind == Kind::Value,
            _ => kind == Kind::Map,
        }
    }
}

/// Harness actions that are neither notifications nor writes. None of them is a notification, so
/// none may change the state the downlink holds.
#[derive(Clone, Copy, Debug, PartialEq, Eq, Serialize, Deserialize)]
pub enum Ctl {
    /// Drop every write handle of the downlink. Client: all senders of the model's channel (the
    /// task switches to its read-only loop). Hosted: the `*DownlinkHandle` (write stream ends, the
    /// stop trigger is dropped untriggered).
    DropWriters,
    /// Client only: the runtime's end of the downlink's *output* channel goes away (writes fail;
    /// the value task switches to its read-only loop). No-op for the hosted downlink (there a
    /// failed write is a reconnect through a new downlink request, i.e. a new link).
    DropOutput,
    /// Hosted only: `handle.stop()`. No-op for the client (it has no such operation).
    Stop,
    /// A new session on new channels without a preceding `unlinked`. Hosted: the runtime's end of
    /// the output channel is dropped and a local write fails, the agent asks for the downlink
    /// again (`LinkRequest::Downlink`) and the harness answers with fresh channels
    /// (`DownlinkChannel::connect`). Client: the task is replaced by a new one (what opening the
    /// downlink again means for a stand-alone downlink). Only generated with
    /// terminate_on_unlinked = false and while the hosted handle exists.
    Reconnect,
}

impl Ctl {
    pub fn name(&self) -> &'static str {
        match self {
            Ctl::DropWriters => "drop-writers",
            Ctl::DropOutput => "drop-output",
            Ctl::Stop => "handle-stop",
            Ctl::Reconnect => "reconnect",
        }
    }
}

#[derive(Clone, Copy, Debug, PartialEq, Eq, Serialize, Deserialize)]
pub enum DOp {
    N(Note),
    W(Write),
    C(Ctl),
}

impl DOp {
    pub fn name(&self) -> &'static str {
        match self {
            DOp::N(n) => n.name(),
            DOp::W(w) => w.name(),
            DOp::C(c) => c.name(),
        }
    }

    pub fn fits(&self, kind: Kind) -> bool {
        match self {
            DOp::N(n) => n.fits(kind),
            DOp::W(w) => w.fits(kind),
            DOp::C(_) => true,
        }
    }
}

pub type Snap = Vec<(i32, i32)>;

/// One lifecycle callback as seen by the recording lifecycles (normalised: maps as key-sorted
/// vectors, borrowed values copied).
#[derive(Clone, Debug, PartialEq, Eq, Serialize, Deserialize)]
pub enum Cb {
    Linked,
    Unlinked,
    Failed,
    SyncedV(i32),
    SyncedM(Snap),
    /// Value downlink `on_event`.
    Event(i32),
    /// Value downlink `on_set`.
    Set { prev: Option<i32>, new: i32 },
    Update { key: i32, map: Snap, prev: Option<i32>, new: i32 },
    Remove { key: i32, map: Snap, prev: i32 },
    Clear { old: Snap },
}

impl Cb {
    pub fn name(&self) -> &'static str {
        match self {
            Cb::Linked => "on_linked",
            Cb::Unlinked => "on_unlinked",
            Cb::Failed => "on_failed",
            Cb::SyncedV(_) | Cb::SyncedM(_) => "on_synced",
            Cb::Event(_) => "on_event",
            Cb::Set { .. } => "on_set",
            Cb::Update { .. } => "on_update",
            Cb::Remove { .. } => "on_remove",
            Cb::Clear { .. } => "on_clear",
        }
    }
}

/// Which argument distinguishes two callbacks of the same kind.
pub fn arg_diff(exp: &Cb, got: &Cb) -> &'static str {
    match (exp, got) {
        (Cb::SyncedV(_), Cb::SyncedV(_)) | (Cb::SyncedM(_), Cb::SyncedM(_)) => "state",
        (Cb::Event(_), Cb::Event(_)) => "value",
        (Cb::Set { prev: p1, .. }, Cb::Set { prev: p2, .. }) => {
            if p1 != p2 {
                "prev"
            } else {
                "new"
            }
        }
        (
            Cb::Update { key: k1, map: m1, prev: p1, .. },
            Cb::Update { key: k2, map: m2, prev: p2, .. },
        ) => {
            if k1 != k2 {
                "key"
            } else if p1 != p2 {
                "prev"
            } else if m1 != m2 {
                "map"
            } else {
                "new"
            }
        }
        (Cb::Remove { key: k1, map: m1, .. }, Cb::Remove { key: k2, map: m2, .. }) => {
            if k1 != k2 {
                "key"
            } else if m1 != m2 {
                "map"
            } else {
                "prev"
            }
        }
        (Cb::Clear { .. }, Cb::Clear { .. }) => "old",
        _ => "kind",
    }
}

#[derive(Clone, Copy, Debug, PartialEq, Eq)]
pub enum Phase {
    /// Not linked.
    Unl,
    /// Linked, not synced, lifecycle events suppressed (`events_when_not_synced = false`).
    Sup,
    /// Linked, not synced, lifecycle events enabled.
    Pre,
    /// Synced.
    Syn,
    /// Terminated (`terminate_on_unlinked` and an `unlinked` was received).
    Dead,
}

impl Phase {
    pub fn name(&self) -> &'static str {
        match self {
            Phase::Unl => "unlinked",
            Phase::Sup => "unsynced-suppressed",
            Phase::Pre => "unsynced-live",
            Phase::Syn => "synced",
            Phase::Dead => "terminated",
        }
    }

    /// The distinction that matters to the handling of a notification (used in signatures):
    /// are lifecycle events dispatched or not.
    pub fn cell(&self) -> &'static str {
        match self {
            Phase::Unl => "unlinked",
            Phase::Sup => "suppressed",
            Phase::Pre | Phase::Syn => "live",
            Phase::Dead => "terminated",
        }
    }
}

/// The reference: the state a downlink must hold = fold of the notifications received since it
/// linked. Local writes do not appear in it at all.
#[derive(Clone, Debug, PartialEq, Eq)]
pub struct RefState {
    pub kind: Kind,
    pub ewns: bool,
    pub term: bool,
    /// The reference is instantiated per implementation only for `Ctl::Stop` (hosted only).
    pub hosted: bool,
    pub dead: bool,
    /// The hosted handle has been dropped (a later `Stop` cannot be performed).
    pub handle_dropped: bool,
    /// `Some` while linked.
    pub linked: Option<Linked>,
}

#[derive(Clone, Debug, PartialEq, Eq)]
pub struct Linked {
    pub synced: bool,
    pub value: Option<i32>,
    pub map: BTreeMap<i32, i32>,
}

fn snap(m: &BTreeMap<i32, i32>) -> Snap {
    m.iter().map(|(k, v)| (*k, *v)).collect()
}

/// What the reference expects for one op: every acceptable callback group (the first is the
/// canonical one used to classify mismatches).
pub struct Expect {
    pub phase: Phase,
    pub accept: Vec<Vec<Cb>>,
    /// False when the notification is not one a well-behaved link can send in this state.
    pub legal: bool,
}

impl RefState {
    pub fn new(kind: Kind, ewns: bool, term: bool, hosted: bool) -> Self {
        RefState {
            kind,
            ewns,
            term,
            hosted,
            dead: false,
            handle_dropped: false,
            linked: None,
        }
    }

    pub fn phase(&self) -> Phase {
        if self.dead {
            return Phase::Dead;
        }
        match &self.linked {
            None => Phase::Unl,
            Some(l) if l.synced => Phase::Syn,
            Some(_) if self.ewns => Phase::Pre,
            Some(_) => Phase::Sup,
        }
    }

    /// Apply one op; returns the expected callbacks.
    pub fn step(&mut self, op: &DOp) -> Expect {
        let phase = self.phase();
        let note = match op {
            DOp::W(_) => {
                // a local write is a command to the remote lane; it is not a notification and so
                // must not change the state or fire a callback
                return Expect { phase, accept: vec![vec![]], legal: true };
            }
            DOp::C(Ctl::Stop) if self.hosted && !self.handle_dropped && !self.dead => {
                // "Instruct the downlink to stop": whether the loss of the link is reported is not
                // fixed by the statement (the implementation reports on_unlinked when linked);
                // afterwards the downlink is gone whatever terminate_on_unlinked says
                let accept = if self.linked.is_some() {
                    vec![vec![Cb::Unlinked], vec![]]
                } else {
                    vec![vec![]]
                };
                self.linked = None;
                self.dead = true;
                return Expect { phase, accept, legal: true };
            }
            DOp::C(Ctl::Reconnect) => {
                // the fold restarts from scratch: the new session begins unlinked with no state,
                // and no notification was received, so nothing fires
                let legal = !self.term && !self.dead && !self.handle_dropped;
                self.linked = None;
                return Expect { phase, accept: vec![vec![]], legal };
            }
            DOp::C(c) => {
                if *c == Ctl::DropWriters {
                    self.handle_dropped = true;
                }
                // the statement does not depend on whether a writer exists
                return Expect { phase, accept: vec![vec![]], legal: true };
            }
            DOp::N(n) => *n,
        };
        if self.dead {
            return Expect { phase, accept: vec![vec![]], legal: true };
        }
        let live = matches!(phase, Phase::Pre | Phase::Syn);
        let kind = self.kind;
        let mut legal = true;
        let accept: Vec<Vec<Cb>> = match note {
            Note::Linked => {
                if self.linked.is_some() {
                    legal = false;
                    vec![vec![]]
                } else {
                    self.linked = Some(Linked { synced: false, value: None, map: BTreeMap::new() });
                    vec![vec![Cb::Linked]]
                }
            }
            Note::Unlinked => {
                // legal both when linked and as the answer to a refused link request
                self.linked = None;
                if self.term {
                    self.dead = true;
                }
                vec![vec![Cb::Unlinked]]
            }
            Note::Synced => match self.linked.as_mut() {
                Some(l) if !l.synced && (kind == Kind::Map || l.value.is_some()) => {
                    l.synced = true;
                    match kind {
                        Kind::Value => vec![vec![Cb::SyncedV(l.value.unwrap())]],
                        Kind::Map => vec![vec![Cb::SyncedM(snap(&l.map))]],
                    }
                }
                _ => {
                    legal = false;
                    vec![vec![]]
                }
            },
            _ => match self.linked.as_mut() {
                None => {
                    legal = false;
                    vec![vec![]]
                }
                Some(l) => {
                    let groups = apply_event(l, note);
                    if live {
                        groups
                    } else {
                        vec![vec![]]
                    }
                }
            },
        };
        Expect { phase, accept, legal }
    }
}

/// Apply an event to the linked state and return the acceptable callback groups (as if live).
fn apply_event(l: &mut Linked, note: Note) -> Vec<Vec<Cb>> {
    match note {
        Note::Set(v) => {
            let prev = l.value.replace(v);
            vec![vec![Cb::Event(v), Cb::Set { prev, new: v }]]
        }
        Note::Upd(k, v) => {
            let prev = l.map.insert(k, v);
            vec![vec![Cb::Update { key: k, map: snap(&l.map), prev, new: v }]]
        }
        Note::Rem(k) => match l.map.remove(&k) {
            Some(prev) => vec![vec![Cb::Remove { key: k, map: snap(&l.map), prev }]],
            None => vec![vec![]],
        },
        Note::Clear => {
            let old = std::mem::take(&mut l.map);
            vec![vec![Cb::Clear { old: snap(&old) }]]
        }
        Note::Fill { n, seed } => {
            let mut all = vec![];
            for (k, v) in fill_updates(n, seed) {
                let prev = l.map.insert(k, v);
                all.push(Cb::Update { key: k, map: snap(&l.map), prev, new: v });
            }
            vec![all]
        }
        Note::Take(_) | Note::Drop(_) => {
            let before = l.map.clone();
            let len = before.len();
            let keys: Vec<i32> = before.keys().copied().collect();
            let removed: Vec<i32> = match note {
                Note::Take(n) => keys.iter().copied().skip(n.min(len as u64) as usize).collect(),
                Note::Drop(n) => keys.iter().copied().take(n.min(len as u64) as usize).collect(),
                _ => unreachable!(),
            };
            for k in &removed {
                l.map.remove(k);
            }
            let after = snap(&l.map);
            // The fold defines the state before and after the notification, not the intermediate
            // states, and not whether the loss of every entry is reported entry by entry or as a
            // clear. Acceptable: on_remove per removed entry in key order with either the
            // progressively shrinking map or the final map; or, when every entry went, on_clear.
            let mut progressive = vec![];
            let mut fin = vec![];
            let mut cur = before.clone();
            for k in &removed {
                let prev = cur.remove(k).unwrap();
                progressive.push(Cb::Remove { key: *k, map: snap(&cur), prev });
                fin.push(Cb::Remove { key: *k, map: after.clone(), prev });
            }
            let mut groups = vec![progressive];
            if !groups.contains(&fin) {
                groups.push(fin);
            }
            let whole = match note {
                Note::Take(n) => n == 0,
                Note::Drop(n) => n >= len as u64,
                _ => false,
            };
            if whole {
                let c = vec![Cb::Clear { old: snap(&before) }];
                if !groups.contains(&c) {
                    groups.push(c);
                }
            }
            groups
        }
        Note::Linked | Note::Synced | Note::Unlinked => unreachable!(),
    }
}
