//! C12 Byte channels are lossless bounded FIFO pipes with no lost wake-ups.
//!
//! Engine `enum` (DESIGN.md §2.2, §4 C12): bounded-exhaustive enumeration of operation sequences
//! {poll_write k, poll_read n, flush, shutdown, drop writer, drop reader} x capacities 1..4 x cooperative
//! budgets on the REAL `swimos_byte_channel` halves with counting wakers, compared step by step with a
//! reference FIFO model; random longer sequences (capacities to 64, fresh wakers, pre-filled read
//! buffers, explicit budget resets); and a two-thread transfer tier with deadlock detection.
mod chan;
mod threads;
mod tree;

use chan::{Cfg, Op, RunStats};
use proptest::prelude::*;
use serde::{Deserialize, Serialize};
use std::collections::BTreeMap;
use vcommon::{pick_index, Bulk, Ctx, Verdict};

/// One runner case of the exhaustive tier: the whole subtree of op sequences that extend `prefix` up to
/// `depth` operations is executed inside the oracle (every sequence from scratch on a fresh channel).
#[derive(Clone, Debug, Serialize, Deserialize)]
pub struct TreeCase {
    cap: u32,
    budget: u8,
    depth: u8,
    prefix: Vec<Op>,
}

#[derive(Clone, Debug, Serialize, Deserialize)]
pub struct SeqCase {
    cap: u32,
    budget: u8,
    repoll: bool,
    ops: Vec<Op>,
}

/// Alphabet for a capacity: write k in {1,2,cap,cap+1}, one vectored write of the slices [1, empty, cap],
/// read n in {0,1,2,cap}, flush, shutdown, drops.
fn alphabet(cap: u32) -> Vec<Op> {
    let mut ops = vec![];
    let mut ks = vec![1, 2, cap, cap + 1];
    ks.sort();
    ks.dedup();
    ops.extend(ks.into_iter().map(Op::W));
    ops.push(Op::Wv(3, [1, 0, cap, 0]));
    let mut ns = vec![0, 1, 2, cap];
    ns.sort();
    ns.dedup();
    ops.extend(ns.into_iter().map(Op::R));
    ops.extend([Op::F, Op::S, Op::DW, Op::DR]);
    ops
}

struct Grammar12 {
    ops: Vec<Op>,
}

impl tree::Grammar for Grammar12 {
    /// bit 0: writer dropped, bit 1: reader dropped
    type S = u8;
    fn init(&self) -> u8 {
        0
    }
    fn nops(&self) -> usize {
        self.ops.len()
    }
    fn next(&self, s: u8, op: usize) -> Option<u8> {
        match self.ops[op] {
            Op::W(_) | Op::Wv(..) | Op::F | Op::S => (s & 1 == 0).then_some(s),
            Op::DW => (s & 1 == 0).then_some(s | 1),
            Op::R(_) | Op::Rp(..) => (s & 2 == 0).then_some(s),
            Op::DR => (s & 2 == 0).then_some(s | 2),
            _ => None,
        }
    }
}

const CLASS_NAMES: [&str; chan::NCLASS] = chan::CLASS_NAMES;

#[derive(Default)]
struct Acc {
    evals: u64,
    nontrivial: u64,
    classes: [u64; chan::NCLASS],
    fails: BTreeMap<String, (usize, String)>,
}

impl Acc {
    fn add(&mut self, st: &RunStats) {
        self.evals += 1;
        if st.nontrivial {
            self.nontrivial += 1;
        }
        let mut c = st.classes;
        while c != 0 {
            let i = c.trailing_zeros() as usize;
            self.classes[i] += 1;
            c &= c - 1;
        }
    }
    fn fail(&mut self, sig: String, len: usize, detail: String) {
        match self.fails.get(&sig) {
            Some((l, _)) if *l <= len => {}
            _ => {
                self.fails.insert(sig, (len, detail));
            }
        }
    }
    fn into_verdict(self, bulk: bool) -> Verdict {
        let mut v = Verdict::new();
        if bulk {
            v.bulk = Some(Bulk {
                evaluations: self.evals,
                distinct_nontrivial: self.nontrivial,
                classes: CLASS_NAMES
                    .iter()
                    .zip(self.classes.iter())
                    .filter(|(_, n)| **n > 0)
                    .map(|(c, n)| (*c, *n))
                    .collect(),
            });
        } else {
            if self.nontrivial > 0 {
                v.nontrivial();
            }
            for (c, n) in CLASS_NAMES.iter().zip(self.classes.iter()) {
                if *n > 0 {
                    v.class(c);
                }
            }
        }
        for (sig, (_, detail)) in self.fails {
            v.fail(sig, detail);
        }
        v
    }
}

fn check_tree(case: &TreeCase) -> Verdict {
    let empty = || {
        let mut v = Verdict::new();
        v.bulk = Some(Bulk::default());
        v
    };
    if case.cap == 0 || case.cap as usize > chan::MAX_CAP {
        return empty();
    }
    let alpha = alphabet(case.cap);
    let prefix: Option<Vec<u8>> = case
        .prefix
        .iter()
        .map(|op| alpha.iter().position(|a| a == op).map(|i| i as u8))
        .collect();
    let Some(prefix) = prefix else {
        return empty();
    };
    let g = Grammar12 { ops: alpha.clone() };
    let Some(mut t) = tree::Tree::new(g, &prefix, case.depth as usize) else {
        return empty();
    };
    let cfg = Cfg {
        cap: case.cap,
        budget: case.budget,
        repoll: true,
    };
    let mut acc = Acc::default();
    let mut ops: Vec<Op> = Vec::with_capacity(case.depth as usize);
    loop {
        ops.clear();
        ops.extend(t.seq().iter().map(|i| alpha[*i as usize]));
        let out = chan::run(cfg, &ops, false);
        let cut = match out.end {
            chan::End::Complete => {
                acc.add(&out.stats);
                None
            }
            chan::End::Invalid(i) => Some(i),
            chan::End::Failed(i, fails) => {
                acc.add(&out.stats);
                for (sig, msg) in fails {
                    let detail = format!(
                        "capacity={} budget={} minimal failing sequence {:?}: at step {} ({:?}): {}",
                        case.cap,
                        case.budget,
                        &ops[..(i + 1).min(ops.len())],
                        i,
                        ops.get(i),
                        msg
                    );
                    acc.fail(sig, i + 1, detail);
                }
                Some(i)
            }
        };
        if !t.advance(cut) {
            break;
        }
    }
    acc.into_verdict(true)
}

fn check_seq(case: &SeqCase) -> Verdict {
    let mut acc = Acc::default();

    if case.cap == 0 || case.cap as usize > chan::MAX_CAP {
        return acc.into_verdict(false);
    }
    let cfg = Cfg {
        cap: case.cap,
        budget: case.budget,
        repoll: case.repoll,
    };
    let out = chan::run(cfg, &case.ops, true);
    acc.add(&out.stats);
    let mut bytes = vec![case.budget, case.repoll as u8];
    bytes.extend_from_slice(&case.cap.to_le_bytes());
    for op in &case.ops {
        op.code(&mut bytes);
    }
    let fp = vcommon::fnv1a(&bytes);
    if let chan::End::Failed(i, fails) = out.end {
        for (sig, msg) in fails {
            let detail = format!(
                "capacity={} budget={} repoll={} at step {} ({:?}) of {:?}: {}",
                case.cap,
                case.budget,
                case.repoll,
                i,
                case.ops.get(i),
                case.ops,
                msg
            );
            acc.fail(sig, i + 1, detail);
        }
    }
    let mut v = acc.into_verdict(false);
    v.fingerprint = Some(fp);
    v
}

/// (capacity, budget, depth) configurations, smallest first.
fn tree_cases(configs: &[(u32, u8, u8)], prefix_len: usize, worker: usize, workers: usize) -> impl Iterator<Item = TreeCase> {
    let mut out = vec![];
    let mut i = 0usize;
    for (cap, budget, depth) in configs.iter().copied() {
        let alpha = alphabet(cap);
        let g = Grammar12 { ops: alpha.clone() };
        let p = prefix_len.min(depth as usize);
        if let Some(mut t) = tree::Tree::new(g, &[], p) {
            loop {
                if i % workers == worker {
                    out.push(TreeCase {
                        cap,
                        budget,
                        depth,
                        prefix: t.seq().iter().map(|i| alpha[*i as usize]).collect(),
                    });
                }
                i += 1;
                if !t.advance(None) {
                    break;
                }
            }
        }
    }
    out.into_iter()
}

/// Random sequences are decoded from raw integers (cheap to generate, shrink towards the simplest
/// operation): low byte selects the operation by weight, the other bytes its arguments.
fn size_of(a: u8, cap: u32) -> u32 {
    match a {
        0..=19 => 0,
        20..=69 => 1,
        70..=99 => 2,
        100..=114 => cap.saturating_sub(1),
        115..=164 => cap,
        165..=194 => cap + 1,
        _ => a as u32 % (cap + 2),
    }
}

/// Sizes for the large tier: around the capacity and around 4096 / 8192 / 16384 / 65536 (+-1), capped at cap+1.
fn size_large(a: u8, x: u16, cap: u32) -> u32 {
    const MARKS: [u32; 12] = [4095, 4096, 4097, 8191, 8192, 8193, 16383, 16384, 16385, 65535, 65536, 65537];
    let v = match a {
        0..=9 => 0,
        10..=39 => 1,
        40..=49 => 2,
        50..=64 => cap.saturating_sub(1),
        65..=114 => cap,
        115..=134 => cap + 1,
        135..=214 => MARKS[(a as usize - 135) % 12],
        215..=234 => cap / 2 + (x as u32 % 3),
        _ => x as u32 % (cap + 2),
    };
    v.min(cap + 1)
}

fn decode_op(raw: u32, cap: u32, large: bool) -> Op {
    let sel = (raw & 0xff) as u8;
    let a = ((raw >> 8) & 0xff) as u8;
    let b = ((raw >> 16) & 0xff) as u8;
    let c = ((raw >> 24) & 0xff) as u8;
    let x = (raw >> 16) as u16;
    let size = |a: u8, salt: u8| {
        if large {
            size_large(a, x ^ ((salt as u16) << 5), cap)
        } else {
            size_of(a, cap)
        }
    };
    match sel {
        0..=84 => Op::W(size(a, 0)),
        85..=99 => Op::Wv(1 + c % 4, [size(a, 1), size(b, 2), size(a ^ c, 3), size(b ^ c, 4)]),
        100..=194 => Op::R(size(a, 0)),
        195..=208 => Op::Rp(1 + b % 8, size(a, 0)),
        209..=218 => Op::F,
        219..=232 => Op::B(if a < 200 { 1 + a % 6 } else { 64 }),
        233..=243 => Op::Kw,
        _ => Op::Kr,
    }
}

fn assemble(cap: u32, budget: u8, repoll: bool, raw: Vec<u32>, closers: Vec<(u16, u8)>, large: bool) -> SeqCase {
    let mut ops: Vec<Op> = raw.into_iter().map(|r| decode_op(r, cap, large)).collect();
    for (pos, c) in closers {
        let at = pick_index(pos, ops.len() + 1);
        ops.insert(at, [Op::S, Op::DW, Op::DR][c as usize % 3]);
    }
    SeqCase {
        cap,
        budget,
        repoll,
        ops,
    }
}

fn seq_strategy(max_len: usize) -> impl Strategy<Value = SeqCase> {
    let cap = prop_oneof![3 => 1u32..=4, 3 => 5u32..=16, 2 => 17u32..=64];
    let budget = prop_oneof![4 => Just(64u8), 5 => 2u8..=5, 1 => Just(1u8), 2 => 6u8..=20];
    let repoll = prop_oneof![3 => Just(true), 1 => Just(false)];
    (
        cap,
        budget,
        repoll,
        proptest::collection::vec(any::<u32>(), 0..=max_len),
        proptest::collection::vec((any::<u16>(), 0u8..3), 0..=3),
    )
        .prop_map(|(cap, budget, repoll, raw, closers)| assemble(cap, budget, repoll, raw, closers, false))
}

/// Large capacities and single operations around 4 KiB / 8 KiB / 16 KiB / 64 KiB with small coop budgets.
fn large_strategy(max_len: usize) -> impl Strategy<Value = SeqCase> {
    let cap = prop_oneof![
        6 => proptest::sample::select(vec![4095u32, 4096, 4097, 8191, 8192, 8193, 16384, 16385, 65535, 65536, 65537]),
        2 => 65u32..=70_000,
        1 => 65u32..=1024,
    ];
    let budget = prop_oneof![6 => 2u8..=5, 1 => Just(64u8), 2 => 6u8..=12];
    let repoll = prop_oneof![3 => Just(true), 1 => Just(false)];
    (
        cap,
        budget,
        repoll,
        proptest::collection::vec(any::<u32>(), 0..=max_len),
        proptest::collection::vec((any::<u16>(), 0u8..3), 0..=2),
    )
        .prop_map(|(cap, budget, repoll, raw, closers)| assemble(cap, budget, repoll, raw, closers, true))
}

fn main() {
    let args: Vec<String> = std::env::args().skip(1).collect();
    let mut ctx = Ctx::new("C12", &args);
    ctx.rule(
        "enum: every operation sequence over {Wk = poll_write of k in {1,2,cap,cap+1} bytes, Wv1+0+cap = poll_write_vectored of three \
         slices, Rn = poll_read into a buffer with n in {0,1,2,cap} bytes of room, F = poll_flush, S = poll_shutdown, DW/DR = drop \
         writer/reader} up to the depth bound (quick: 8 for budget 64, 7 for budgets 2 and 3), for capacities \
         1..4 and cooperative budgets {64 (never exhausted), 2, 3 (the task is re-polled, i.e. the budget reset, after every Pending)}, is \
         executed from scratch on the real channel with counting wakers and compared step by step with a FIFO model (written bytes are a \
         position pattern, so loss/duplication/reordering is visible); one runner case is the subtree under a 3-op prefix; \
         evaluations/distinct_nontrivial/classes are counted PER EXECUTED SEQUENCE (maximal sequences, or sequences cut at their first \
         failing step; every shorter sequence is a checked prefix of one of them; sequences in different subtrees are distinct by \
         construction). Every run whose writer is closed and reader alive ends with a drain to end-of-stream. random: proptest sequences \
         to length 200, capacities to 64, sizes 0..cap+1, vectored writes of 1-4 slices, pre-filled read buffers, fresh wakers, explicit \
         budget resets (B), budgets 1..20 and 64. random-large: the same with capacities 4095..65537 (and random to 70000), single \
         operations around cap / 4096 / 8192 / 16384 / 65536 (+-1), length <= 40, budgets mostly 2..5. threads: a writer thread and a reader thread (each parks on its own waker) move a generated amount of data through the \
         real channel; a monitor detects the state in which both are parked with unwoken wakers (lost wake-up = deadlock). A sequence is \
         non-trivial when EACH side parked at least once (its poll returned Pending because the channel was full / empty).",
    );
    ctx.assume("each poll_* call is atomic (it runs under the channel's mutex), so operation sequences executed on one thread cover all interleavings of calls; only the threads tier runs the two halves on different threads");
    ctx.assume("a Pending whose own waker was woken during the same poll is a cooperative yield (coop budget exhausted) and is legitimate whether or not the operation was blocked; a side is 'waiting' only when its last poll returned Pending without that self-wake");
    ctx.assume("tokio contract: Ready(Ok) from poll_read with no bytes added to a buffer that had room means end of stream; Ok(0) from poll_write of a non-empty buffer means the writer cannot accept bytes");
    ctx.assume("short reads / partial writes are allowed (at least one byte when possible); a write accepted after the writer's own shutdown is tolerated by the oracle (the implementation rejects it)");

    // (capacity, budget, depth)
    let (d_gen, d_small) = ctx.pick((8u8, 7u8), (9u8, 8u8));
    let mut configs = vec![];
    for cap in 1u32..=4 {
        configs.push((cap, 64u8, d_gen));
    }
    for cap in 1u32..=4 {
        for b in [2u8, 3] {
            configs.push((cap, b, d_small));
        }
    }
    ctx.enumerate("enum", |w, ws| tree_cases(&configs, 3, w, ws), check_tree);
    let n = ctx.pick(4_000_000, 40_000_000);
    ctx.prop("random", n, || seq_strategy(200), check_seq);
    let n = ctx.pick(2_000_000, 20_000_000);
    ctx.prop("random-large", n, || large_strategy(40), check_seq);
    let n = ctx.pick(12_000, 600_000);
    ctx.prop("threads", n, threads::strategy, threads::check);
    ctx.finish();
}
