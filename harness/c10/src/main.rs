//! C10 Binary frames decode to what was encoded under any fragmentation.
mod child;
mod fams;
mod model;
mod oracle;

fn main() {
    let args: Vec<String> = std::env::args().skip(1).collect();
    let fams = fams::families();
    if args.iter().any(|a| a == "--child") {
        child::child_main(&fams);
    }
    if args.first().map(|a| a == "--trace").unwrap_or(false) {
        trace(&fams, &args[1..]);
        return;
    }
    let mut ctx = vcommon::Ctx::new("C10", &args);
    ctx.rule(
        "Per decoder family (sub-checks frag:<family> and mut:<family>): streams of 1-8 generated messages encoded \
         back to back with the repository's encoders (raw and Recon-printing encoders mixed where both write the \
         same wire format). frag: the stream is fed whole, at EVERY single split point, one byte per read and with \
         a random multi-split (reads of 1-12 bytes) through append / decode-until-None / decode_eof; non-trivial = \
         the stream has a multi-byte header field (length, id, tag word) so that splits fall inside it. mut: one \
         mutation of the valid stream (invalid tag, other valid tag, length field := 0 / len-k / len+k / 2^32 / \
         2^32+len / 2^61-1 / 2^61 / 2^62 / 2^63 / u64::MAX-k / random, id byte, body byte, truncation, random byte, \
         insert, delete) fed whole, with random reads and one byte per read, in a child process; non-trivial = the \
         mutated byte belongs to a tag, flags or length field. big:<family>: one message whose frame is exactly \
         4095/4096/4097/8191/8192/8193/65535/65536/65537/65538/65600/70001/100000/140000 bytes (bytes, bare identifier, quoted string, record \
         body) between 0-2 ordinary messages, delivered whole, in reads of 7/64/1000/4096/8192/65536 bytes, with single \
         cuts around the frame end and the 4 KiB / 8 KiB / 64 KiB marks, and with random reads; for commands and routed \
         messages the big part is the body, the node, the lane, node+lane or the host (class big:<part>); always non-trivial. \
         illtyped:<family>-i32: the 13 typed decoders instantiated with i32, streams of 2-5 well-framed messages whose \
         bodies are an i32 or not (records, texts, floats, ...), fed whole, at every single split, with every pair of \
         cuts around the first ill-typed frame, 3 random cuts, random reads, one byte per read; non-trivial = the \
         stream contains an ill-typed body. Distinct by Debug form of the case.",
    );
    ctx.assume("Typed (Recon-bodied) decoders are compared with a one-shot parse (swimos_recon::parser::parse_recognize) of the body text, so Recon print/parse fidelity (C09) is trusted here");
    ctx.assume("The wire layout model in the harness (field offsets used to aim mutations and to name invalid tags) is self-checked against every encoded frame");
    ctx.assume("Unlinked(Some(empty)) and Unlinked(None) are one message on the wire (both are written as body length 0)");
    ctx.assume("After the first Err the stream is over (FramedRead semantics, and every production reader of a typed decoder drops the stream at the first Err); outside the illtyped sub-checks nothing is asserted about later calls");
    ctx.assume("illtyped sub-checks: the decoders are written to carry on after a rejected body (Discarding states, state reset on error), so after the error the following frames must decode and be consumed exactly (law resync:), although every production reader drops the stream at the first Err");
    ctx.assume("Whether a body is of the decoder's type (illtyped sub-checks) is decided by the one-shot parser parse_recognize::<i32>");
    let only_group = std::env::var("C10_GROUP").ok();
    for fam in &fams {
        if let Some(g) = &only_group {
            if g != fam.group {
                continue;
            }
        }
        // 1-byte frames only: nothing to split, a handful of cases covers it.
        let tiny = fam.name == "store-initialized";
        let frag_cases = if tiny { ctx.pick(200, 2_000) } else { ctx.pick(3_000, 120_000) };
        let mut_cases = if tiny { ctx.pick(400, 4_000) } else { ctx.pick(12_000, 480_000) };
        // Development aid only (never set by ./check): scale the budgets.
        let scale: f64 = std::env::var("C10_SCALE").ok().and_then(|s| s.parse().ok()).unwrap_or(1.0);
        let frag_cases = ((frag_cases as f64 * scale) as u64).max(16);
        let mut_cases = ((mut_cases as f64 * scale) as u64).max(16);
        ctx.prop(
            &format!("frag:{}", fam.name),
            frag_cases,
            || oracle::arb_frag(fam),
            |c| child::guarded_verdict(|| oracle::check_frag(fam, c)),
        );
        ctx.prop(
            &format!("mut:{}", fam.name),
            mut_cases,
            || oracle::arb_mut(fam),
            |c| child::run_mut(fam, c),
        );
    }
    // Large frames around the 8 KiB / 64 KiB marks delivered in many reads, every family.
    for fam in &fams {
        if only_group.as_ref().map(|g| g != fam.group).unwrap_or(false) || fam.name == "store-initialized" {
            continue;
        }
        let scale: f64 = std::env::var("C10_SCALE").ok().and_then(|s| s.parse().ok()).unwrap_or(1.0);
        // the families with length-prefixed paths get a few hundred (node / lane / host / body x sizes x reads)
        let paths = matches!(fam.group, "command" | "messages");
        let cases = ((if paths { ctx.pick(256, 10_240) } else { ctx.pick(96, 3_840) } as f64 * scale) as u64).max(16);
        ctx.prop(
            &format!("big:{}", fam.name),
            cases,
            || oracle::arb_big(fam),
            |c| child::guarded_verdict(|| oracle::check_big(fam, c)),
        );
    }
    // Well-framed bodies of the wrong type for the typed decoders (instantiated with i32).
    let strict = fams::strict_families();
    for fam in &strict {
        if only_group.as_ref().map(|g| g != fam.group).unwrap_or(false) {
            continue;
        }
        let scale: f64 = std::env::var("C10_SCALE").ok().and_then(|s| s.parse().ok()).unwrap_or(1.0);
        let cases = ((ctx.pick(1_500, 60_000) as f64 * scale) as u64).max(16);
        ctx.prop(
            &format!("illtyped:{}", fam.name),
            cases,
            || oracle::arb_ill(fam),
            |c| child::guarded_verdict(|| oracle::check_ill(fam, c)),
        );
    }
    ctx.finish();
}

/// `c10 --trace <family> <hex bytes> [chunk sizes, comma separated]`: feed a byte stream to the
/// family's decoder and print every call (reproduction aid for the findings in NOTES.md).
fn trace(fams: &[fams::Fam], args: &[String]) {
    use bytes::BytesMut;
    let bare_recognizer = fams::bare_recognizer_family();
    let strict = fams::strict_families();
    let fam = if args[0] == "recognizer" {
        &bare_recognizer
    } else {
        fams.iter().chain(strict.iter()).find(|f| f.name == args[0]).expect("unknown family")
    };
    let hex: String = args[1].chars().filter(|c| c.is_ascii_hexdigit()).collect();
    let stream: Vec<u8> = (0..hex.len() / 2).map(|i| u8::from_str_radix(&hex[2 * i..2 * i + 2], 16).unwrap()).collect();
    let chunks: Vec<usize> = args.get(2).map(|s| s.split(',').filter_map(|x| x.parse().ok()).collect()).unwrap_or_default();
    let mut dec = (fam.dec)();
    let mut buf = BytesMut::new();
    let mut fed = 0;
    let mut k = 0;
    while fed < stream.len() {
        let n = chunks.get(k).copied().unwrap_or(stream.len()).clamp(1, stream.len() - fed);
        k += 1;
        buf.extend_from_slice(&stream[fed..fed + n]);
        fed += n;
        println!("read {} bytes -> buffer {:?}", n, buf.as_ref());
        loop {
            let before = buf.len();
            let r = dec.decode(&mut buf);
            println!("  decode -> {:?}   (buffer {} -> {} bytes, consumed up to offset {})", r, before, buf.len(), fed - buf.len());
            match r {
                Ok(Some(_)) if buf.len() < before => continue,
                Ok(Some(_)) => {
                    println!("  (no progress)");
                    return;
                }
                Ok(None) => break,
                Err(_) => return,
            }
        }
    }
    loop {
        let before = buf.len();
        let r = dec.decode_eof(&mut buf);
        println!("  decode_eof -> {:?}   (buffer {} -> {} bytes)", r, before, buf.len());
        if !matches!(r, Ok(Some(_))) || buf.len() >= before {
            break;
        }
    }
}
