//! Sequential executor: the real byte channel halves, driven through the tokio `AsyncRead` / `AsyncWrite`
//! poll functions by hand with counting wakers, next to a reference FIFO model, compared step by step.
use serde::{Deserialize, Serialize};
use std::future::Future;
use std::io::IoSlice;
use std::num::NonZeroUsize;
use std::pin::Pin;
use std::sync::atomic::{AtomicUsize, Ordering};
use std::sync::Arc;
use std::task::{Context, Poll, Wake, Waker};
use swimos_byte_channel::{byte_channel, ByteReader, ByteWriter, RunWithBudget};
use tokio::io::{AsyncRead, AsyncWrite, ReadBuf};

pub const MAX_CAP: usize = 70_000;
const MAX_PRE: usize = 16;
/// The byte at absolute stream position i is `(i % 251 + i / 251) mod 256`: period 251 * 256 = 64256, so
/// loss, duplication or reordering of any amount that is not a multiple of 64256 bytes changes the content
/// (and every amount is caught by the byte counts).
pub const PERIOD: usize = 251 * 256;
const PAT_LEN: usize = PERIOD + 4 * (MAX_CAP + 1) + 64;

const fn make_pat() -> [u8; PAT_LEN] {
    let mut p = [0u8; PAT_LEN];
    let mut i = 0;
    while i < PAT_LEN {
        p[i] = ((i % 251) + (i / 251)) as u8;
        i += 1;
    }
    p
}
static PAT: [u8; PAT_LEN] = make_pat();
const MARK: u8 = 0xFE;

/// `len` bytes of the stream starting at absolute position `pos`.
pub fn pattern(pos: usize, len: usize) -> &'static [u8] {
    &PAT[pos % PERIOD..][..len]
}

fn show(data: &[u8]) -> String {
    if data.len() <= 24 {
        format!("{:?}", data)
    } else {
        format!("{:?}.. ({} bytes)", &data[..24], data.len())
    }
}

#[derive(Clone, Copy, PartialEq, Eq, Serialize, Deserialize)]
#[serde(into = "String", try_from = "String")]
pub enum Op {
    /// poll_write of the next k bytes of the pattern
    W(u32),
    /// poll_write_vectored of the next bytes of the pattern cut into `count` (1..=4) slices of these lengths
    /// (empty slices allowed); must behave like a write of the concatenation
    Wv(u8, [u32; 4]),
    /// poll_read into an empty ReadBuf with n bytes of room
    R(u32),
    /// poll_read into a ReadBuf that already holds p bytes and has n bytes of room
    Rp(u8, u32),
    /// poll_flush
    F,
    /// poll_shutdown
    S,
    /// drop the writer
    DW,
    /// drop the reader
    DR,
    /// the thread starts a new task poll under `RunWithBudget` with budget b (resets the coop budget)
    B(u8),
    /// the writer's / reader's task switches to a fresh waker for its later polls
    Kw,
    Kr,
}

impl Op {
    /// injective byte code (fingerprints)
    pub fn code(&self, out: &mut Vec<u8>) {
        let mut put = |tag: u8, a: u32, b: u8| {
            out.push(tag);
            out.extend_from_slice(&a.to_le_bytes());
            out.push(b);
        };
        match *self {
            Op::W(k) => put(0, k, 0),
            Op::R(n) => put(1, n, 0),
            Op::Rp(p, n) => put(2, n, p),
            Op::F => put(3, 0, 0),
            Op::S => put(4, 0, 0),
            Op::DW => put(5, 0, 0),
            Op::DR => put(6, 0, 0),
            Op::B(b) => put(7, 0, b),
            Op::Kw => put(8, 0, 0),
            Op::Kr => put(9, 0, 0),
            Op::Wv(c, l) => {
                for (j, x) in l.iter().take(c as usize).enumerate() {
                    put(10, *x, j as u8);
                }
                put(11, 0, c);
            }
        }
    }
}

impl std::fmt::Debug for Op {
    fn fmt(&self, f: &mut std::fmt::Formatter<'_>) -> std::fmt::Result {
        f.write_str(&String::from(*self))
    }
}

impl From<Op> for String {
    fn from(op: Op) -> String {
        match op {
            Op::W(k) => format!("W{}", k),
            Op::Wv(c, l) => format!(
                "Wv{}",
                l.iter().take((c as usize).clamp(1, 4)).map(|x| x.to_string()).collect::<Vec<_>>().join("+")
            ),
            Op::R(n) => format!("R{}", n),
            Op::Rp(p, n) => format!("R{}p{}", n, p),
            Op::F => "F".into(),
            Op::S => "S".into(),
            Op::DW => "DW".into(),
            Op::DR => "DR".into(),
            Op::B(b) => format!("B{}", b),
            Op::Kw => "Kw".into(),
            Op::Kr => "Kr".into(),
        }
    }
}

impl TryFrom<String> for Op {
    type Error = String;
    fn try_from(s: String) -> Result<Op, String> {
        let bad = || format!("bad op {}", s);
        let num = |t: &str| t.parse::<u32>().map_err(|_| bad());
        let small = |t: &str| t.parse::<u8>().map_err(|_| bad());
        match s.as_str() {
            "F" => Ok(Op::F),
            "S" => Ok(Op::S),
            "DW" => Ok(Op::DW),
            "DR" => Ok(Op::DR),
            "Kw" => Ok(Op::Kw),
            "Kr" => Ok(Op::Kr),
            t if t.starts_with("Wv") => {
                let parts: Vec<&str> = t[2..].split('+').collect();
                if parts.is_empty() || parts.len() > 4 {
                    return Err(bad());
                }
                let mut l = [0u32; 4];
                for (j, x) in parts.iter().enumerate() {
                    l[j] = num(x)?;
                }
                Ok(Op::Wv(parts.len() as u8, l))
            }
            t if t.starts_with('W') => Ok(Op::W(num(&t[1..])?)),
            t if t.starts_with('B') => Ok(Op::B(small(&t[1..])?)),
            t if t.starts_with('R') => match t[1..].split_once('p') {
                Some((n, p)) => Ok(Op::Rp(small(p)?, num(n)?)),
                None => Ok(Op::R(num(&t[1..])?)),
            },
            _ => Err(bad()),
        }
    }
}

pub struct CountWaker(pub AtomicUsize);

impl CountWaker {
    pub fn new() -> Arc<CountWaker> {
        Arc::new(CountWaker(AtomicUsize::new(0)))
    }
    pub fn count(&self) -> usize {
        self.0.load(Ordering::SeqCst)
    }
}

impl Wake for CountWaker {
    fn wake(self: Arc<Self>) {
        self.0.fetch_add(1, Ordering::SeqCst);
    }
    fn wake_by_ref(self: &Arc<Self>) {
        self.0.fetch_add(1, Ordering::SeqCst);
    }
}

/// Start a new "task poll": exactly what the server does around every task (`RunWithBudget` resets the
/// thread's cooperative budget each time the wrapped future is polled).
pub fn reset_budget(b: u8) {
    let n = NonZeroUsize::new((b as usize).max(1)).unwrap();
    let fut = RunWithBudget::with_budget(n, std::future::ready(()));
    let mut fut = std::pin::pin!(fut);
    let mut cx = Context::from_waker(Waker::noop());
    let _ = fut.as_mut().poll(&mut cx);
}

#[derive(Clone, Copy, Debug, Serialize, Deserialize, PartialEq, Eq)]
pub struct Cfg {
    pub cap: u32,
    /// coop budget the run starts with (and returns to after each Pending when `repoll`)
    pub budget: u8,
    /// after a poll returned Pending the task is polled again from the top: the budget is reset
    pub repoll: bool,
}

pub const NCLASS: usize = 15;
pub const CLASS_NAMES: [&str; NCLASS] = [
    "reader-parked",
    "writer-parked",
    "coop-forced-yield",
    "eof-seen",
    "write-failed-after-close",
    "partial-write",
    "read-limited-by-buffer",
    "zero-length-read",
    "zero-length-write",
    "channel-full",
    "parked-side-woken",
    "drained-at-end",
    "fresh-waker",
    "vectored-write",
    "bulk-op-8192+",
];
const C_RPARK: u32 = 1 << 0;
const C_WPARK: u32 = 1 << 1;
const C_YIELD: u32 = 1 << 2;
const C_EOF: u32 = 1 << 3;
const C_WFAIL: u32 = 1 << 4;
const C_PARTIAL: u32 = 1 << 5;
const C_RLIM: u32 = 1 << 6;
const C_ZR: u32 = 1 << 7;
const C_ZW: u32 = 1 << 8;
const C_FULL: u32 = 1 << 9;
const C_WOKEN: u32 = 1 << 10;
const C_DRAINED: u32 = 1 << 11;
const C_FRESH: u32 = 1 << 12;
const C_VEC: u32 = 1 << 13;
const C_BULK: u32 = 1 << 14;

#[derive(Default, Clone, Copy)]
pub struct RunStats {
    pub nontrivial: bool,
    pub classes: u32,
}

pub enum End {
    Complete,
    Invalid(usize),
    Failed(usize, Vec<(String, String)>),
}

pub struct Outcome {
    pub end: End,
    pub stats: RunStats,
}

enum StepRes {
    Ok,
    Invalid,
}

#[derive(Clone, Copy, PartialEq, Eq)]
enum Side {
    W,
    R,
}

struct Sys {
    cfg: Cfg,
    lenient: bool,
    w: Option<ByteWriter>,
    r: Option<ByteReader>,
    ww: Arc<CountWaker>,
    wr: Arc<CountWaker>,
    // ---- model ----
    cap: usize,
    /// bytes accepted from the writer / delivered to the reader so far
    wpos: usize,
    rpos: usize,
    w_alive: bool,
    r_alive: bool,
    shut: bool,
    /// the side's last poll returned Pending without waking its own waker: (waker of that poll, its count)
    wait_w: Option<(Arc<CountWaker>, usize)>,
    wait_r: Option<(Arc<CountWaker>, usize)>,
    last_read_eof: bool,
    classes: u32,
    fails: Vec<(String, String)>,
}

impl Sys {
    fn new(cfg: Cfg, lenient: bool) -> Sys {
        let cap = (cfg.cap as usize).clamp(1, MAX_CAP);
        let (w, r) = byte_channel(NonZeroUsize::new(cap).unwrap());
        reset_budget(cfg.budget);
        Sys {
            cfg,
            lenient,
            w: Some(w),
            r: Some(r),
            ww: CountWaker::new(),
            wr: CountWaker::new(),
            cap,
            wpos: 0,
            rpos: 0,
            w_alive: true,
            r_alive: true,
            shut: false,
            wait_w: None,
            wait_r: None,
            last_read_eof: false,
            classes: 0,
            fails: vec![],
        }
    }

    fn fail(&mut self, sig: &str, msg: String) {
        self.fails.push((sig.to_string(), msg));
    }

    fn buffered(&self) -> usize {
        self.wpos - self.rpos
    }

    fn closed(&self) -> bool {
        self.shut || !self.w_alive || !self.r_alive
    }

    fn state(&self) -> String {
        format!(
            "model: capacity={} buffered={} (written {}, read {}) writer={} reader={}",
            self.cap,
            self.buffered(),
            self.wpos,
            self.rpos,
            if !self.w_alive { "dropped" } else if self.shut { "shut down" } else { "open" },
            if self.r_alive { "open" } else { "dropped" }
        )
    }

    /// A poll returned Pending. Legitimate iff the operation is blocked in the model, or the task's own
    /// waker was woken during the poll (cooperative yield: the task is rescheduled, nothing is lost).
    fn on_pending(&mut self, side: Side, blocked: bool, c0: usize, cw: Arc<CountWaker>, opname: &str) {
        let c1 = cw.count();
        let slot = if c1 > c0 {
            self.classes |= C_YIELD;
            None
        } else if blocked {
            self.classes |= if side == Side::W { C_WPARK } else { C_RPARK };
            Some((cw, c1))
        } else {
            let st = self.state();
            self.fail(
                &format!("pending-not-blocked:{}", opname),
                format!("{} returned Pending although it is not blocked and its own waker was not woken (not a cooperative yield): the task would sleep with nothing to wake it; {}", opname, st),
            );
            None
        };
        match side {
            Side::W => self.wait_w = slot,
            Side::R => self.wait_r = slot,
        }
        if self.cfg.repoll {
            reset_budget(self.cfg.budget);
        }
    }

    /// No lost wake-up: a waiting side whose blocking condition no longer holds must have been woken by
    /// the end of the operation that changed it.
    fn after_op(&mut self, what: &str) {
        if let Some((w, c0)) = self.wait_w.clone() {
            if w.count() > c0 {
                self.wait_w = None;
                self.classes |= C_WOKEN;
            } else if !(self.buffered() == self.cap && !self.closed()) {
                let st = self.state();
                self.fail(
                    &format!("lost-wakeup:writer/after-{}", what),
                    format!("the writer's last poll_write returned Pending (channel full); the {} made progress possible or closed the channel but the writer's waker was not woken; {}", what, st),
                );
                self.wait_w = None;
            }
        }
        if let Some((w, c0)) = self.wait_r.clone() {
            if w.count() > c0 {
                self.wait_r = None;
                self.classes |= C_WOKEN;
            } else if !(self.buffered() == 0 && !self.closed()) {
                let st = self.state();
                self.fail(
                    &format!("lost-wakeup:reader/after-{}", what),
                    format!("the reader's last poll_read returned Pending (channel empty); the {} made data available or closed the channel but the reader's waker was not woken; {}", what, st),
                );
                self.wait_r = None;
            }
        }
        if self.buffered() == self.cap {
            self.classes |= C_FULL;
        }
    }

    fn step(&mut self, op: Op) -> StepRes {
        match op {
            Op::W(k) => self.write(&[(k as usize).min(MAX_CAP + 1)], false),
            Op::Wv(c, l) => {
                let c = (c as usize).clamp(1, 4);
                let mut lens = [0usize; 4];
                for j in 0..c {
                    lens[j] = (l[j] as usize).min(MAX_CAP + 1);
                }
                self.write(&lens[..c], true)
            }
            Op::R(n) => self.read(0, n as usize),
            Op::Rp(p, n) => self.read(p as usize, n as usize),
            Op::F | Op::S => {
                if self.w.is_none() {
                    return StepRes::Invalid;
                }
                let cw = self.ww.clone();
                let c0 = cw.count();
                let waker = Waker::from(cw.clone());
                let mut cx = Context::from_waker(&waker);
                let w = Pin::new(self.w.as_mut().unwrap());
                let (res, name) = if op == Op::F {
                    (w.poll_flush(&mut cx), "poll_flush")
                } else {
                    (w.poll_shutdown(&mut cx), "poll_shutdown")
                };
                match res {
                    Poll::Pending => self.on_pending(Side::W, false, c0, cw, name),
                    Poll::Ready(Ok(())) => {
                        self.wait_w = None;
                        if op == Op::S {
                            self.shut = true;
                        }
                    }
                    Poll::Ready(Err(e)) => {
                        self.wait_w = None;
                        if !self.closed() {
                            let st = self.state();
                            self.fail(
                                &format!("{}-error-while-open", name),
                                format!("{} failed with {:?} although neither half was dropped or shut down; {}", name, e.kind(), st),
                            );
                        }
                    }
                }
                self.after_op(if op == Op::F { "flush" } else { "shutdown" });
                StepRes::Ok
            }
            Op::DW => {
                if self.w.is_none() {
                    return StepRes::Invalid;
                }
                self.w = None;
                self.w_alive = false;
                self.wait_w = None;
                self.after_op("drop-writer");
                StepRes::Ok
            }
            Op::DR => {
                if self.r.is_none() {
                    return StepRes::Invalid;
                }
                self.r = None;
                self.r_alive = false;
                self.wait_r = None;
                self.after_op("drop-reader");
                StepRes::Ok
            }
            Op::B(b) => {
                if !self.lenient {
                    return StepRes::Invalid;
                }
                reset_budget(b);
                StepRes::Ok
            }
            Op::Kw => {
                if !self.lenient {
                    return StepRes::Invalid;
                }
                self.ww = CountWaker::new();
                self.classes |= C_FRESH;
                StepRes::Ok
            }
            Op::Kr => {
                if !self.lenient {
                    return StepRes::Invalid;
                }
                self.wr = CountWaker::new();
                self.classes |= C_FRESH;
                StepRes::Ok
            }
        }
    }

    /// poll_write (one slice) or poll_write_vectored (the slices are consecutive pieces of the pattern).
    fn write(&mut self, lens: &[usize], vectored: bool) -> StepRes {
        let k: usize = lens.iter().sum();
        if self.w.is_none() {
            return StepRes::Invalid;
        }
        let cw = self.ww.clone();
        let c0 = cw.count();
        let waker = Waker::from(cw.clone());
        let mut cx = Context::from_waker(&waker);
        let name = if vectored { "poll_write_vectored" } else { "poll_write" };
        let res = if vectored {
            self.classes |= C_VEC;
            // one contiguous window of the pattern, cut into the requested slices
            let window = pattern(self.wpos, k);
            let mut slices = [IoSlice::new(&[]); 4];
            let mut at = 0;
            for (j, len) in lens.iter().enumerate() {
                slices[j] = IoSlice::new(&window[at..at + len]);
                at += len;
            }
            let slices = &slices[..lens.len()];
            let w = self.w.as_mut().unwrap();
            let _ = w.is_write_vectored();
            Pin::new(w).poll_write_vectored(&mut cx, slices)
        } else {
            Pin::new(self.w.as_mut().unwrap()).poll_write(&mut cx, pattern(self.wpos, k))
        };
        if k == 0 {
            self.classes |= C_ZW;
        }
        match res {
            Poll::Pending => {
                let blocked = k > 0 && !self.closed() && self.buffered() == self.cap;
                self.on_pending(Side::W, blocked, c0, cw, name);
            }
            Poll::Ready(Ok(m)) => {
                self.wait_w = None;
                if !self.r_alive && k > 0 {
                    let st = self.state();
                    self.fail(
                        "write-accepted-after-reader-drop",
                        format!("{} of {:?} bytes returned Ok({}) although the reader has been dropped; {}", name, lens, m, st),
                    );
                } else if m > k {
                    self.fail("write-count-exceeds-request", format!("{} of {:?} bytes returned Ok({})", name, lens, m));
                } else if self.buffered() + m > self.cap {
                    let st = self.state();
                    self.fail(
                        "capacity-exceeded",
                        format!("{} of {:?} bytes returned Ok({}): {} bytes would be buffered; {}", name, lens, m, self.buffered() + m, st),
                    );
                } else if m == 0 && k > 0 {
                    let st = self.state();
                    self.fail(
                        "write-zero",
                        format!("{} of {:?} bytes returned Ok(0) (tokio: the writer can no longer accept bytes) although it reported no error; {}", name, lens, st),
                    );
                } else {
                    if m < k {
                        self.classes |= C_PARTIAL;
                    }
                    if m >= 8192 {
                        self.classes |= C_BULK;
                    }
                    self.wpos += m;
                }
            }
            Poll::Ready(Err(e)) => {
                self.wait_w = None;
                if !self.closed() {
                    let st = self.state();
                    self.fail(
                        "write-error-while-open",
                        format!("{} of {:?} bytes failed with {:?} although neither half was dropped or shut down; {}", name, lens, e.kind(), st),
                    );
                } else {
                    self.classes |= C_WFAIL;
                }
            }
        }
        self.after_op("write");
        StepRes::Ok
    }

    fn read(&mut self, p: usize, n: usize) -> StepRes {
        let p = p.min(MAX_PRE);
        let n = n.min(MAX_CAP + 1);
        if self.r.is_none() {
            return StepRes::Invalid;
        }
        let mut small = [0u8; 128];
        let mut big: Vec<u8>;
        let room: &mut [u8] = if p + n <= small.len() {
            &mut small[..p + n]
        } else {
            big = vec![0u8; p + n];
            &mut big
        };
        let mut rb = ReadBuf::new(room);
        rb.put_slice(&[MARK; MAX_PRE][..p]);
        let cw = self.wr.clone();
        let c0 = cw.count();
        let waker = Waker::from(cw.clone());
        let mut cx = Context::from_waker(&waker);
        let res = Pin::new(self.r.as_mut().unwrap()).poll_read(&mut cx, &mut rb);
        let filled = rb.filled().len();
        if n == 0 {
            self.classes |= C_ZR;
        }
        self.last_read_eof = false;
        match res {
            Poll::Pending => {
                if filled != p {
                    self.fail(
                        "pending-read-filled-buffer",
                        format!("poll_read returned Pending but put {} bytes into the buffer", filled as isize - p as isize),
                    );
                }
                let blocked = !self.closed() && self.buffered() == 0;
                self.on_pending(Side::R, blocked, c0, cw, "poll_read");
            }
            Poll::Ready(Ok(())) => {
                self.wait_r = None;
                if filled < p || rb.filled()[..p].iter().any(|b| *b != MARK) {
                    self.fail("read-clobbered-filled-part", "poll_read changed the already filled part of the ReadBuf".to_string());
                } else {
                    let got = filled - p;
                    let data = &rb.filled()[p..];
                    if got > self.buffered() {
                        let st = self.state();
                        self.fail(
                            "read-more-than-written",
                            format!("poll_read delivered {} bytes {} but only {} are outstanding; {}", got, show(data), self.buffered(), st),
                        );
                    } else if data != pattern(self.rpos, got) {
                        let st = self.state();
                        self.fail(
                            "read-not-prefix-of-written",
                            format!(
                                "poll_read delivered {} but the next bytes written are {} (first difference at offset {}; lost, duplicated or reordered bytes); {}",
                                show(data),
                                show(pattern(self.rpos, got)),
                                data.iter().zip(pattern(self.rpos, got)).position(|(a, b)| a != b).unwrap_or(0),
                                st
                            ),
                        );
                    } else if got == 0 && n > 0 {
                        // tokio: Ready with nothing read into a buffer with room means end of stream.
                        if self.buffered() > 0 {
                            let st = self.state();
                            self.fail(
                                "false-eof:data-outstanding",
                                format!("poll_read signalled end of stream (Ready, 0 bytes, {} bytes of room) while written bytes have not been delivered; {}", n, st),
                            );
                        } else if !(self.shut || !self.w_alive) {
                            let st = self.state();
                            self.fail(
                                "false-eof:writer-open",
                                format!("poll_read signalled end of stream (Ready, 0 bytes, {} bytes of room) while the writer is still open; {}", n, st),
                            );
                        } else {
                            self.classes |= C_EOF;
                            self.last_read_eof = true;
                        }
                    } else {
                        if n > 0 && got == n && got < self.buffered() {
                            self.classes |= C_RLIM;
                        }
                        if got >= 8192 {
                            self.classes |= C_BULK;
                        }
                        self.rpos += got;
                    }
                }
            }
            Poll::Ready(Err(e)) => {
                self.wait_r = None;
                let st = self.state();
                self.fail("read-error", format!("poll_read failed with {:?}; {}", e.kind(), st));
            }
        }
        self.after_op("read");
        StepRes::Ok
    }

    /// Closing steps: once the writer is gone (or shut down) a living reader must receive every
    /// outstanding byte and then end of stream.
    fn drain(&mut self) {
        if !(self.r_alive && (self.shut || !self.w_alive)) {
            return;
        }
        self.cfg.repoll = true;
        self.cfg.budget = 64;
        reset_budget(64);
        let bound = 2 * (self.buffered() + 2);
        for _ in 0..bound {
            self.step(Op::R(self.cap as u32));
            if !self.fails.is_empty() {
                return;
            }
            if self.last_read_eof {
                self.classes |= C_DRAINED;
                return;
            }
        }
        let st = self.state();
        self.fail(
            "drain-no-eof",
            format!("after the writer closed, {} reads of {} bytes did not reach end of stream; {}", bound, self.cap, st),
        );
    }
}

/// Execute `ops` on a fresh channel. `lenient`: operations outside the domain (on a dropped half) are
/// skipped instead of ending the run.
pub fn run(cfg: Cfg, ops: &[Op], lenient: bool) -> Outcome {
    let mut sys = Sys::new(cfg, lenient);
    for (i, op) in ops.iter().enumerate() {
        match sys.step(*op) {
            StepRes::Ok => {}
            StepRes::Invalid => {
                if !lenient {
                    return Outcome {
                        end: End::Invalid(i),
                        stats: sys.stats(),
                    };
                }
            }
        }
        if !sys.fails.is_empty() {
            let fails = std::mem::take(&mut sys.fails);
            return Outcome {
                end: End::Failed(i, fails),
                stats: sys.stats(),
            };
        }
    }
    let stats = sys.stats();
    sys.drain();
    let mut stats2 = sys.stats();
    stats2.nontrivial = stats.nontrivial;
    if !sys.fails.is_empty() {
        let fails = std::mem::take(&mut sys.fails)
            .into_iter()
            .map(|(s, m)| (s, format!("[in the closing drain after the sequence: the reader reads until end of stream] {}", m)))
            .collect();
        return Outcome {
            end: End::Failed(ops.len().saturating_sub(1), fails),
            stats: stats2,
        };
    }
    Outcome {
        end: End::Complete,
        stats: stats2,
    }
}

impl Sys {
    fn stats(&self) -> RunStats {
        RunStats {
            nontrivial: self.classes & C_RPARK != 0 && self.classes & C_WPARK != 0,
            classes: self.classes,
        }
    }
}
