//! C20 Introspection reports the true number of links and counts every message.
mod agentsim;
mod links;
mod pulse;
mod threads;

use vcommon::Ctx;

fn main() {
    let args: Vec<String> = std::env::args().skip(1).collect();
    let mut ctx = Ctx::new("C20", &args);
    ctx.rule(
        "links-enum-*: every sequence (to the depth bound) of register_reporter / insert / remove / remove_remote / remove_lane / \
         remove_all_links / count_single / count_broadcast over L lanes x R remotes, restricted to the way agent/task/mod.rs uses the \
         registry (see links.rs header), executed from scratch on the real `Links` with real reporters; after EVERY operation every \
         lane reader and the aggregate reader are snapshot and compared with the reference relation, and the snapshots so far must add up \
         to what was counted. One runner case is the subtree under a 2-op prefix; evaluations / distinct_nontrivial are counted per \
         executed maximal sequence (distinct by construction). links-random: 3 lanes x 4 remotes, up to 80 ops chosen among the enabled \
         ones, snapshots either after every op or only at generated Snap ops. A history is non-trivial when a removal path other than a \
         single unlink (remove_remote / remove_lane) removed at least one link and a link was inserted afterwards. \
         agentsim: real SimAgent + real runtime with NodeReporting; phases (links only / events only / mixed with remote drops, pruning, \
         unknown lanes, stop) each ended by settle() and a snapshot of all readers; non-trivial = a phase whose event count is exactly \
         predictable saw sync responses or a broadcast to >= 2 links, or the runtime removed a remote and another link followed. \
         threads: 1-5 OS threads counting on one UplinkReporter while one thread snapshots; non-trivial = >= 3 non-empty snapshots \
         interleaved with >= 2 counting threads. \
         pulse-lanes: the real NodeMetaAgent / LaneMetaAgent (from register_introspection, run against a fake AgentContext) observe the \
         real SimAgent + runtime registered through IntrospectionResolver::register_agent, paused clock; steps = link / unlink / sync on the \
         supply lane, traffic (control-lane programs supplying to the links, commands to cmd and v0) delivered before or left in flight at the \
         next step, clock advances around / at multiples of the pulse interval (1, 2, 5 s), sync requests on the meta lanes, and steady runs \
         (the same traffic then the same advance, 2-6 times); every frame of the three pulse lanes is read, a second reader takes the final \
         remainder. Non-trivial = at least two consecutive pulse intervals with identical non-zero traffic, identical length and no link \
         change in between (measured on the generated history).",
    );
    ctx.assume("sequentially consistent executions only; the Relaxed orderings of the counters are not explored (x86)");
    ctx.assume("agentsim: the frames a still-connected remote has received at quiescence (linked without a later unlinked) define 'actually linked'; a remote the harness dropped may or may not still be counted until the runtime notices (completion promise)");
    ctx.assume("event_count counts events handed to links before backpressure relief (count_single: 1 per targeted response incl. the synced marker, count_broadcast: current fan-out), as implemented in handle_event");

    ctx.assume("pulse-lanes: the meta agents start before any traffic (their first snapshot is a baseline that is never published, by design); expected totals follow the runtime's counting rules checked by agentsim (command envelope written = +1 lane and aggregate; supply = fan-out; sync of the supply lane = 1)");

    let (d22, d33) = ctx.pick((7usize, 6usize), (9usize, 7usize));
    ctx.enumerate("links-enum-2x2", |w, ws| links::tree_cases(2, 2, d22, 2, w, ws), links::check_tree);
    ctx.enumerate("links-enum-3x3", |w, ws| links::tree_cases(3, 3, d33, 2, w, ws), links::check_tree);
    let n = ctx.pick(2_000_000, 20_000_000);
    ctx.prop("links-random", n, || links::rand_strategy(80), links::check_rand);
    let n = ctx.pick(300_000, 2_000_000);
    let (ph, ops) = ctx.pick((6usize, 14usize), (10usize, 30usize));
    ctx.prop("agentsim", n, move || agentsim::arb_case(ph, ops), agentsim::check);
    let n = ctx.pick(2_000, 20_000);
    ctx.prop("threads", n, threads::strategy, threads::check);
    let n = ctx.pick(20_000, 400_000);
    let steps = ctx.pick(14usize, 30usize);
    ctx.prop("pulse-lanes", n, move || pulse::arb_case(steps), pulse::check);
    ctx.finish();
}
