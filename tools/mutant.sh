#!/bin/bash
# Sensitivity runs without touching /repo:  tools/mutant.sh <slot> <ID> <patch.diff|none> [tier] [extra env...]
#   * keeps a scratch git worktree of /repo's HEAD in /tmp/vmut/<slot>/repo, applies the patch there,
#   * keeps a copy of /verif/harness in /tmp/vmut/<slot>/harness whose path deps point at that worktree
#     (own target dir, so rebuilds are incremental per slot),
#   * runs the check with VERIF_ROOT=/tmp/vmut/<slot>/out (known_findings.txt copied from /verif).
# tools/mutant.sh <slot> --clean   removes the slot (worktree + build output).
set -u
SLOT=${1:?slot}; shift
BASE=/tmp/vmut/$SLOT
if [ "${1:-}" = "--clean" ]; then
  git -C /repo worktree remove --force "$BASE/repo" 2>/dev/null
  rm -rf "$BASE"; git -C /repo worktree prune; exit 0
fi
ID=${1:?id}; PATCH=${2:?patch or none}; TIER=${3:-quick}
if [ "$PATCH" != "none" ]; then PATCH=$(readlink -f "$PATCH"); fi
mkdir -p "$BASE/out"
if [ ! -d "$BASE/repo" ]; then git -C /repo worktree add -q --detach "$BASE/repo" HEAD || exit 2; fi
git -C "$BASE/repo" checkout -q -- . && git -C "$BASE/repo" checkout -q --detach "$(git -C /repo rev-parse HEAD)" || exit 2
if [ "$PATCH" != "none" ]; then git -C "$BASE/repo" apply "$PATCH" || { echo "patch does not apply"; exit 2; }; fi
rsync -a --delete --exclude target /verif/harness/ "$BASE/harness/"
find "$BASE/harness" -name Cargo.toml -exec sed -i "s|\"/repo/|\"$BASE/repo/|g" {} +
cp /verif/known_findings.txt "$BASE/out/" 2>/dev/null
rm -rf "$BASE/out/replays" "$BASE/out/evidence"
if [ -d /verif/replays ]; then cp -r /verif/replays "$BASE/out/replays"; fi
BIN=$(echo "$ID" | tr 'A-Z' 'a-z')
(cd "$BASE/harness" && CARGO_NET_OFFLINE=true cargo build --offline --bin "$BIN" >"$BASE/build.log" 2>&1) || { tail -30 "$BASE/build.log"; echo "INCONCLUSIVE: build failed"; exit 2; }
VERIF_ROOT="$BASE/out" "$BASE/harness/target/debug/$BIN" "$ID" "$TIER"
RC=$?
git -C "$BASE/repo" checkout -q -- .
exit $RC
