//! C09 Recon text is a faithful and stable encoding, however it is chunked.
mod typed;

use bytes::{BufMut, BytesMut};
use proptest::prelude::*;
use serde::{Deserialize, Serialize};
use std::fmt::Debug;
use swimos_form::read::RecognizerReadable;
use swimos_form::write::StructuralWritable;
use swimos_model::Value;
use swimos_recon::parser::{parse_recognize, AsyncParseError, ParseError, RecognizerDecoder};
use swimos_recon::{print_recon, print_recon_compact, print_recon_pretty, WithLenRecognizerDecoder};
use tokio_util::codec::Decoder;
use typed::{arb_typed, Typed, Visit};
use vcommon::{Ctx, Verdict};
use vgen::recon_text::*;
use vgen::*;


/// Run an oracle, reporting a panic in the code under test with a signature that does not depend
/// on where the repository is checked out (`panic:<path below the repo root>:<line>`).
fn guard<C>(f: impl Fn(&C) -> Verdict, case: &C) -> Verdict {
    match vcommon::guarded(|| f(case)) {
        Ok(v) => v,
        Err(mut fail) => {
            if let Some(i) = fail.sig.find("/repo/") {
                fail.sig = format!("panic:{}", &fail.sig[i + "/repo/".len()..]);
            }
            let mut v = Verdict::new();
            v.failures.push(fail);
            v
        }
    }
}

const PRINTERS: [&str; 3] = ["std", "compact", "pretty"];

fn print_with<T: StructuralWritable>(i: usize, v: &T) -> String {
    match i {
        0 => format!("{}", print_recon(v)),
        1 => format!("{}", print_recon_compact(v)),
        _ => format!("{}", print_recon_pretty(v)),
    }
}

fn parse_value(text: &str) -> Result<Value, ParseError> {
    parse_recognize::<Value>(text, false)
}

// ---------------------------------------------------------------------------------------------
// Text features (non-triviality rule, classes)

struct Features {
    escape: bool,
    depth: usize,
    quoted: bool,
    non_ascii: bool,
}

fn features(text: &str) -> Features {
    let mut depth = 0usize;
    let mut max = 0usize;
    let mut in_str = false;
    let mut esc = false;
    let mut escape = false;
    let mut quoted = false;
    for c in text.chars() {
        if in_str {
            if esc {
                esc = false;
            } else if c == '\\' {
                esc = true;
                escape = true;
            } else if c == '"' {
                in_str = false;
            }
        } else {
            match c {
                '"' => {
                    in_str = true;
                    quoted = true;
                }
                '{' | '(' => {
                    depth += 1;
                    max = max.max(depth);
                }
                '}' | ')' => depth = depth.saturating_sub(1),
                _ => {}
            }
        }
    }
    Features {
        escape,
        depth: max,
        quoted,
        non_ascii: !text.is_ascii(),
    }
}

fn feature_classes(v: &mut Verdict, f: &Features) {
    v.class_if(f.escape, "text-has-escape");
    v.class_if(f.quoted, "text-has-quoted-string");
    v.class_if(f.depth >= 3, "nesting>=3");
    v.class_if(f.depth >= 16, "nesting>=16");
    v.class_if(f.non_ascii, "non-ascii");
}

// ---------------------------------------------------------------------------------------------
// 1. typed round trip

struct TypedVisitor<'a> {
    v: &'a mut Verdict,
}

impl<'a> Visit for TypedVisitor<'a> {
    fn visit<T>(&mut self, name: &'static str, value: &T)
    where
        T: StructuralWritable + RecognizerReadable + PartialEq + Debug,
    {
        let exact_debug = !name.contains("HashMap") && name != "Outer";
        for (i, p) in PRINTERS.iter().enumerate() {
            let text = print_with(i, value);
            let f = features(&text);
            feature_classes(self.v, &f);
            if f.escape || f.depth >= 3 {
                self.v.nontrivial();
            }
            match parse_recognize::<T>(text.as_str(), false) {
                Ok(back) => {
                    let same = &back == value && (!exact_debug || format!("{:?}", back) == format!("{:?}", value));
                    if !same {
                        self.v.fail(
                            format!("typed-roundtrip:{}", name),
                            format!(
                                "{} printer: {:?} printed as {:?} parsed back as {:?}",
                                p, value, text, back
                            ),
                        );
                    }
                }
                Err(e) => self.v.fail(
                    format!("typed-unparseable:{}", name),
                    format!("{} printer: {:?} printed as {:?} does not parse as {}: {}", p, value, text, name, e),
                ),
            }
        }
        // the typed recognizer behind the incremental decoder, every single cut of the compact form
        let text = print_with(1, value);
        let bytes = text.as_bytes();
        let n = bytes.len();
        let stride = n / 64 + 1;
        let mut reported = false;
        for cut in (1..n).step_by(stride) {
            let mut dec = RecognizerDecoder::new(T::make_recognizer());
            let mut buf = BytesMut::new();
            buf.put_slice(&bytes[..cut]);
            let got = match dec.decode(&mut buf) {
                Ok(None) => {
                    buf.put_slice(&bytes[cut..]);
                    dec.decode_eof(&mut buf)
                }
                ow => ow,
            };
            let ok = match &got {
                Ok(Some(back)) => back == value && (!exact_debug || format!("{:?}", back) == format!("{:?}", value)),
                _ => false,
            };
            if !ok && !reported {
                reported = true;
                let cell = if bare_top_level(&text) {
                    "top-level-bare-token".to_string()
                } else {
                    format!("{}:{}", name, cut_class(&text, cut))
                };
                self.v.fail(
                    format!("chunk-result:typed:{}", cell),
                    format!(
                        "{:?} printed as {:?}, fed to RecognizerDecoder<{}> cut at {}: got {:?}",
                        value,
                        text,
                        name,
                        cut,
                        got.map_err(|e| e.to_string())
                    ),
                );
            }
            match cut_class(&text, cut) {
                "inside-utf8" => {
                    self.v.class("cut-inside-utf8");
                    self.v.nontrivial();
                }
                "inside-token" | "inside-string" | "inside-escape" | "after-at" => {
                    self.v.class("cut-inside-token");
                    self.v.nontrivial();
                }
                _ => {}
            }
        }
    }
}

fn check_typed(case: &Typed) -> Verdict {
    let mut v = Verdict::new();
    case.dispatch(&mut TypedVisitor { v: &mut v });
    v.class(match case {
        Typed::Unit
        | Typed::I32(_)
        | Typed::I64(_)
        | Typed::U32(_)
        | Typed::U64(_)
        | Typed::Usize(_)
        | Typed::F64(_)
        | Typed::Bool(_)
        | Typed::Str(_)
        | Typed::Text(_)
        | Typed::ArcStr(_)
        | Typed::BigInt(_)
        | Typed::BigUint(_)
        | Typed::Bytes(_)
        | Typed::Blob(_)
        | Typed::BoxBytes(_) => "builtin-scalar",
        Typed::OptI32(_)
        | Typed::OptStr(_)
        | Typed::VecI32(_)
        | Typed::VecStr(_)
        | Typed::VecVec(_)
        | Typed::VecF64(_)
        | Typed::MapStrI32(_)
        | Typed::MapI32Str(_)
        | Typed::Duration(_, _) => "builtin-container",
        _ => "derived",
    });
    v
}

// ---------------------------------------------------------------------------------------------
// Where two values first differ (used to name the failing cell)

fn kind_of(v: &Value) -> &'static str {
    match v {
        Value::Extant => "Extant",
        Value::Int32Value(_) => "Int32",
        Value::Int64Value(_) => "Int64",
        Value::UInt32Value(_) => "UInt32",
        Value::UInt64Value(_) => "UInt64",
        Value::Float64Value(_) => "Float64",
        Value::BooleanValue(_) => "Boolean",
        Value::BigInt(_) => "BigInt",
        Value::BigUint(_) => "BigUint",
        Value::Text(_) => "Text",
        Value::Data(_) => "Data",
        Value::Record(_, _) => "Record",
    }
}

fn text_class(s: &str) -> &'static str {
    if s.is_empty() {
        "empty"
    } else if swimos_model::identifier::is_identifier(s) {
        "identifier"
    } else if s == "true" || s == "false" {
        "bool-word"
    } else {
        "needs-quoting"
    }
}

/// A short, data-free description of the first structural difference between two values.
fn first_diff(a: &Value, b: &Value) -> Option<String> {
    use swimos_model::Item;
    if structural_eq(a, b) {
        return None;
    }
    match (a, b) {
        (Value::Record(a1, i1), Value::Record(a2, i2)) => {
            for (x, y) in a1.iter().zip(a2) {
                if x.name.as_str() != y.name.as_str() {
                    return Some(format!("attr-name({})", text_class(x.name.as_str())));
                }
                if let Some(d) = first_diff(&x.value, &y.value) {
                    return Some(format!("attr-value/{}", d));
                }
            }
            if a1.len() != a2.len() {
                return Some("attr-count".into());
            }
            for (x, y) in i1.iter().zip(i2) {
                match (x, y) {
                    (Item::ValueItem(x), Item::ValueItem(y)) => {
                        if let Some(d) = first_diff(x, y) {
                            return Some(format!("item/{}", d));
                        }
                    }
                    (Item::Slot(k1, v1), Item::Slot(k2, v2)) => {
                        if let Some(d) = first_diff(k1, k2) {
                            return Some(format!("slot-key/{}", d));
                        }
                        if let Some(d) = first_diff(v1, v2) {
                            return Some(format!("slot-value/{}", d));
                        }
                    }
                    _ => return Some("item-vs-slot".into()),
                }
            }
            Some(format!(
                "item-count({}attrs,{}->{})",
                if a1.is_empty() { "no-" } else { "" },
                i1.len().min(3),
                i2.len().min(3)
            ))
        }
        _ => Some(format!("{}->{}", kind_of(a), kind_of(b))),
    }
}

// ---------------------------------------------------------------------------------------------
// 2./3. model values: c(v) exists, parser produced values round trip through all printers

/// What is wrong with printing `x`? `exact` = `x` is parser produced and must come back exactly;
/// otherwise only "the print parses" is required.
fn print_defect(x: &Value, exact: bool) -> Option<String> {
    for (j, pj) in PRINTERS.iter().enumerate() {
        let text = print_with(j, x);
        match parse_value(&text) {
            Ok(back) => {
                if exact {
                    if let Some(d) = first_diff(x, &back) {
                        return Some(format!(
                            "printed ({}) as {:?} parses back as {:?} (first difference: {})",
                            pj,
                            text,
                            from_value_raw(&back),
                            d
                        ));
                    }
                }
            }
            Err(e) => return Some(format!("printed ({}) as {:?} does not parse: {}", pj, text, e)),
        }
    }
    None
}

fn children(x: &Value) -> Vec<&Value> {
    use swimos_model::Item;
    let mut out = vec![];
    if let Value::Record(attrs, items) = x {
        for a in attrs {
            out.push(&a.value);
        }
        for i in items {
            match i {
                Item::ValueItem(v) => out.push(v),
                Item::Slot(k, v) => {
                    out.push(k);
                    out.push(v);
                }
            }
        }
    }
    out
}

/// Smallest sub-value of `x` that still has a print defect (all of whose children print fine).
fn minimal_defect(x: &Value, exact: bool) -> Option<(&Value, String)> {
    let d = print_defect(x, exact)?;
    for c in children(x) {
        if let Some(r) = minimal_defect(c, exact) {
            return Some(r);
        }
    }
    Some((x, d))
}

fn name_ok(n: &str) -> bool {
    swimos_model::identifier::is_identifier(n) || n == "true" || n == "false"
}

fn shape(x: &Value, depth: usize) -> String {
    use swimos_model::Item;
    match x {
        Value::Extant => "x".into(),
        Value::Record(attrs, items) => {
            if depth == 0 {
                return "R".into();
            }
            let mut s = String::from("[");
            for a in attrs.iter().take(2) {
                s.push_str(if name_ok(a.name.as_str()) { "@i(" } else { "@q(" });
                s.push_str(&shape(&a.value, depth - 1));
                s.push(')');
            }
            if attrs.len() > 2 {
                s.push_str("@..");
            }
            for i in items.iter().take(2) {
                s.push(' ');
                match i {
                    Item::ValueItem(v) => s.push_str(&shape(v, depth - 1)),
                    Item::Slot(k, v) => {
                        s.push_str(&shape(k, depth - 1));
                        s.push(':');
                        s.push_str(&shape(v, depth - 1));
                    }
                }
            }
            if items.len() > 2 {
                s.push_str(" ..");
            }
            s.push(']');
            s
        }
        Value::Text(_) => "t".into(),
        _ => "s".into(),
    }
}

/// Name the cell of the printer that the minimal defective value exercises.
fn defect_cell(m: &Value) -> String {
    use swimos_model::Item;
    let model = from_value_raw(m);
    if model.any(&|x| matches!(x, V::F64(b) if !f64::from_bits(*b).is_finite())) {
        return "nonfinite-float".into();
    }
    if model.any(&|x| {
        matches!(x, V::Record(_, items) if items.iter().any(|i| matches!(i, I::Slot(V::Record(ka, ki), _) if !ka.is_empty() && (ki.is_empty() || matches!(ki.as_slice(), [I::Val(V::Extant)])))))
    }) {
        return "slot-key:attrs-no-items".into();
    }
    for (pred, name) in [
        (
            (|x: &V| matches!(x, V::Record(a, i) if !a.is_empty() && matches!(i.as_slice(), [I::Val(V::Record(a2, _))] if !a2.is_empty()))) as fn(&V) -> bool,
            "attrs+single-item-with-attrs",
        ),
        (
            |x: &V| matches!(x, V::Record(a, i) if !a.is_empty() && matches!(i.as_slice(), [I::Val(V::Record(a2, _))] if a2.is_empty())),
            "attrs+single-item-plain-record",
        ),
        (
            |x: &V| matches!(x, V::Record(a, i) if !a.is_empty() && matches!(i.as_slice(), [I::Val(V::Extant)])),
            "attrs+single-item-extant",
        ),
    ] {
        if model.any(&pred) {
            return name.into();
        }
    }
    if let Value::Record(attrs, _) = m {
        for a in attrs {
            if let Value::Record(a2, i2) = &a.value {
                if !a2.is_empty() && matches!(i2.as_slice(), [Item::Slot(_, _)]) {
                    return "attr-body:attrs+single-slot".into();
                }
            }
        }
    }
    if model.any(&|x| matches!(x, V::Record(a, _) if a.iter().any(|(n, _)| !name_ok(n)))) {
        return "attr-name-not-identifier".into();
    }
    format!("shape:{}", shape(m, 2))
}

fn check_cycle(v: &mut Verdict, what: &str, w: &Value) {
    // `w` was produced by the parser: every printer must give it back exactly.
    for j in 0..PRINTERS.len() {
        let text = print_with(j, w);
        let f = features(&text);
        feature_classes(v, &f);
        if f.escape || f.depth >= 3 {
            v.nontrivial();
        }
    }
    if let Some((m, d)) = minimal_defect(w, true) {
        v.fail(
            format!("value-roundtrip:{}", defect_cell(m)),
            format!(
                "{}: parser-produced value {:?}: its sub-value {:?} {}",
                what,
                from_value_raw(w),
                from_value_raw(m),
                d
            ),
        );
    }
}

#[derive(Clone, Debug, Serialize, Deserialize)]
struct ModelCase {
    v: V,
}

fn check_model(case: &ModelCase) -> Verdict {
    let mut v = Verdict::new();
    let val = to_value_raw(&case.v);
    v.class_if(case.v.depth() >= 16, "value-depth>=16");
    v.class_if(
        case.v.any(&|x| matches!(x, V::Record(a, _) if a.iter().any(|(n, _)| !swimos_model::identifier::is_identifier(n)))),
        "attr-name-needs-quoting",
    );
    v.class_if(case.v.any(&|x| matches!(x, V::Data(_))), "has-blob");
    v.class_if(
        case.v.any(&|x| matches!(x, V::Record(_, i) if i.iter().any(|i| matches!(i, I::Slot(k, _) if !matches!(k, V::Text(_)))))),
        "slot-key-not-text",
    );
    v.class_if(
        case.v.any(&|x| matches!(x, V::Record(a, i) if a.is_empty() && matches!(i.as_slice(), [I::Val(V::Record(_, _))]))),
        "record-whose-only-item-is-a-record",
    );
    if let Some((m, d)) = minimal_defect(&val, false) {
        v.fail(
            format!("cycle-undefined:{}", defect_cell(m)),
            format!(
                "model value {:?} has no print/parse fixed point: its sub-value {:?} {}",
                case.v,
                from_value_raw(m),
                d
            ),
        );
    }
    for (i, pi) in PRINTERS.iter().enumerate() {
        let text = print_with(i, &val);
        if let Ok(w) = parse_value(&text) {
            // fixed point: c(c(v)) == c(v), and (as c(v) is parser produced) through every printer
            check_cycle(&mut v, &format!("c_{}(v)", pi), &w);
        }
    }
    v
}

#[derive(Clone, Debug, Serialize, Deserialize)]
struct TextCase {
    v: V,
    style: Vec<u8>,
    muts: Vec<Mut>,
}

impl TextCase {
    fn text(&self) -> String {
        mutate_text(&render(&self.v, &self.style), &self.muts)
    }
}

fn check_parsed(case: &TextCase) -> Verdict {
    let mut v = Verdict::new();
    let text = case.text();
    v.class_if(!case.muts.is_empty(), "mutated");
    match parse_value(&text) {
        Ok(w) => {
            v.class("source-parses");
            check_cycle(&mut v, &format!("parse({:?})", text), &w);
            // the source text itself counts for the non-triviality rule
            let f = features(&text);
            feature_classes(&mut v, &f);
            if f.escape || f.depth >= 3 {
                v.nontrivial();
            }
        }
        Err(_) => v.class("source-rejected"),
    }
    v
}

// ---------------------------------------------------------------------------------------------
// 4. chunking

#[derive(Clone, Debug, PartialEq)]
enum Outcome {
    Val(V),
    Err(&'static str),
    /// the decoder never produced anything
    Nothing,
}

fn err_class(e: &AsyncParseError) -> &'static str {
    match e {
        AsyncParseError::Io(_) => "io",
        AsyncParseError::BadUtf8(_) => "bad-utf8",
        AsyncParseError::Parser(ParseError::Syntax { .. }) => "syntax",
        AsyncParseError::Parser(ParseError::Structure(_)) => "structure",
        AsyncParseError::Parser(_) => "parser-other",
        AsyncParseError::UnconsumedInput => "unconsumed",
    }
}

fn outcome_kind(o: &Outcome) -> &'static str {
    match o {
        Outcome::Val(_) => "value",
        Outcome::Err(_) => "error",
        Outcome::Nothing => "nothing",
    }
}

/// Drive a bare `RecognizerDecoder` the way `consume_bounded` does for a length delimited body:
/// `decode` while the body is incomplete, `decode_eof` once all of it is there; the first value or
/// error ends the body. Returns the outcome and the number of bytes consumed when it was produced.
fn run_plain(chunks: &[&[u8]]) -> (Outcome, usize) {
    let mut dec = RecognizerDecoder::new(Value::make_recognizer());
    let mut buf = BytesMut::new();
    let mut consumed = 0usize;
    for (i, ch) in chunks.iter().enumerate() {
        buf.put_slice(ch);
        let before = buf.len();
        let last = i + 1 == chunks.len();
        let r = if last { dec.decode_eof(&mut buf) } else { dec.decode(&mut buf) };
        consumed += before - buf.len();
        match r {
            Ok(None) => {}
            Ok(Some(val)) => return (Outcome::Val(from_value_raw(&val)), consumed),
            Err(e) => return (Outcome::Err(err_class(&e)), consumed),
        }
    }
    (Outcome::Nothing, consumed)
}

const SENTINEL: &str = "@sentinel{1,b:\"x y\"}";

/// Two length-prefixed messages (the text, then a sentinel) through `WithLenRecognizerDecoder`, the
/// byte stream cut as given; `decode` is called after each append until it returns `Ok(None)`.
/// Returns the outcomes in order, or Err(description) if the decoder stops making progress.
fn run_withlen(body: &[u8], cuts: &[usize]) -> Result<Vec<Outcome>, String> {
    let mut stream = Vec::with_capacity(body.len() + SENTINEL.len() + 16);
    stream.extend_from_slice(&(body.len() as u64).to_be_bytes());
    stream.extend_from_slice(body);
    stream.extend_from_slice(&(SENTINEL.len() as u64).to_be_bytes());
    stream.extend_from_slice(SENTINEL.as_bytes());
    let mut dec = WithLenRecognizerDecoder::new(Value::make_recognizer());
    let mut buf = BytesMut::new();
    let mut out = vec![];
    let chunks = split_at_cuts(&stream, cuts);
    for ch in chunks {
        buf.put_slice(ch);
        let mut calls = 0usize;
        loop {
            calls += 1;
            if calls > 8 {
                return Err(format!("decode called {} times on one append without settling", calls));
            }
            let before = buf.len();
            match dec.decode(&mut buf) {
                Ok(None) => break,
                Ok(Some(val)) => {
                    if buf.len() == before {
                        return Err("decode produced a value without consuming input".into());
                    }
                    out.push(Outcome::Val(from_value_raw(&val)));
                }
                Err(e) => {
                    out.push(Outcome::Err(err_class(&e)));
                }
            }
            if buf.is_empty() {
                break;
            }
        }
    }
    Ok(out)
}

/// Where does a cut fall? (classification for the signature / classes)
fn cut_class(text: &str, pos: usize) -> &'static str {
    let b = text.as_bytes();
    if inside_utf8_seq(b, pos) {
        return "inside-utf8";
    }
    if pos == 0 || pos >= b.len() {
        return "edge";
    }
    // inside a string literal?
    let mut in_str = false;
    let mut esc = false;
    for (i, c) in text.char_indices() {
        if i >= pos {
            break;
        }
        if in_str {
            if esc {
                esc = false;
            } else if c == '\\' {
                esc = true;
            } else if c == '"' {
                in_str = false;
            }
        } else if c == '"' {
            in_str = true;
        }
    }
    if in_str {
        return if esc { "inside-escape" } else { "inside-string" };
    }
    let tokenish = |c: u8| c.is_ascii_alphanumeric() || matches!(c, b'_' | b'-' | b'.' | b'%' | b'=' | b'+' | b'/') || c >= 0x80;
    if tokenish(b[pos - 1]) && tokenish(b[pos]) {
        "inside-token"
    } else if b[pos - 1] == b'@' {
        "after-at"
    } else {
        "between-tokens"
    }
}

/// Is the text a single bare top-level token (number, identifier, boolean, blob) apart from
/// surrounding white space? Those are parsed in the `Init` state of the incremental parser.
fn bare_top_level(text: &str) -> bool {
    let t = text.trim_start_matches([' ', '\t', '\n', '\r']);
    !t.is_empty() && !t.starts_with(['"', '@', '{'])
}

#[derive(Clone, Debug, Serialize, Deserialize)]
struct ChunkCase {
    v: V,
    style: Vec<u8>,
    muts: Vec<Mut>,
    multi: Vec<Vec<u16>>,
}

const ALL_CUTS_LIMIT: usize = 320;

fn check_chunks(case: &ChunkCase) -> Verdict {
    let mut v = Verdict::new();
    let text = mutate_text(&render(&case.v, &case.style), &case.muts);
    let bytes = text.as_bytes();
    let n = bytes.len();
    v.class_if(!case.muts.is_empty(), "mutated");
    let f = features(&text);
    feature_classes(&mut v, &f);

    // references
    let oneshot = match parse_value(&text) {
        Ok(val) => Outcome::Val(from_value_raw(&val)),
        Err(ParseError::Syntax { .. }) => Outcome::Err("syntax"),
        Err(ParseError::Structure(_)) => Outcome::Err("structure"),
        Err(_) => Outcome::Err("parser-other"),
    };
    v.class(match &oneshot {
        Outcome::Val(_) => "oneshot-value",
        _ => "oneshot-error",
    });
    let (whole, whole_consumed) = run_plain(&[bytes]);
    let cell = if bare_top_level(&text) { "top-level-bare-token" } else { "structured" };

    // whole-buffer decoder vs one-shot parser
    let agrees = |a: &Outcome, b: &Outcome| match (a, b) {
        (Outcome::Val(x), Outcome::Val(y)) => x == y,
        (Outcome::Err(_), Outcome::Err(_)) => true,
        _ => false,
    };
    if !agrees(&whole, &oneshot) {
        v.fail(
            format!("decoder-vs-parser:{}:{}->{}", cell, outcome_kind(&oneshot), outcome_kind(&whole)),
            format!(
                "text {:?}: parse_recognize gives {:?} but RecognizerDecoder fed the whole text (decode_eof) gives {:?}",
                text, oneshot, whole
            ),
        );
    }

    // every single cut (or a stride sample for long texts), then the random multi-cuts
    let stride = if n <= ALL_CUTS_LIMIT { 1 } else { n / ALL_CUTS_LIMIT + 1 };
    let mut cut_sets: Vec<Vec<usize>> = (1..n).step_by(stride).map(|c| vec![c]).collect();
    for m in &case.multi {
        let c = cut_points(m, n);
        if c.len() >= 2 {
            cut_sets.push(c);
        }
    }
    // always include: every byte its own chunk
    if n >= 3 && n <= 2 * ALL_CUTS_LIMIT {
        cut_sets.push((1..n).collect());
    }
    let mut reported = std::collections::HashSet::new();
    for cuts in &cut_sets {
        let chunks = split_at_cuts(bytes, cuts);
        let cls = if cuts.len() == 1 { cut_class(&text, cuts[0]) } else { "multi" };
        match cls {
            "inside-utf8" => {
                v.class("cut-inside-utf8");
                v.nontrivial();
            }
            "inside-token" | "inside-string" | "inside-escape" | "after-at" => {
                v.class("cut-inside-token");
                v.nontrivial();
            }
            _ => {}
        }
        let (got, consumed) = run_plain(&chunks);
        if !agrees(&got, &oneshot) {
            let sig = if cell == "top-level-bare-token" {
                // one cell: the first token of the input is parsed in the parser's Init state
                format!("chunk-result:plain:{}", cell)
            } else {
                format!("chunk-result:plain:{}:{}:{}->{}", cell, cls, outcome_kind(&oneshot), outcome_kind(&got))
            };
            if reported.insert(sig.clone()) {
                v.fail(
                    sig,
                    format!(
                        "text {:?} cut at {:?}: one-shot parser gives {:?} but RecognizerDecoder fed chunk by chunk gives {:?}",
                        text, cuts, oneshot, got
                    ),
                );
            }
        } else if matches!(got, Outcome::Val(_)) && agrees(&whole, &oneshot) && consumed != whole_consumed {
            // (on an error nothing is consumed by contract: the enclosing decoder discards the body)
            let sig = if cell == "top-level-bare-token" {
                format!("chunk-result:plain:{}", cell)
            } else {
                format!("chunk-consumed:plain:{}:{}", cell, cls)
            };
            if reported.insert(sig.clone()) {
                v.fail(
                    sig,
                    format!(
                        "text {:?} cut at {:?}: same result but {} bytes consumed instead of {} (whole buffer)",
                        text, cuts, consumed, whole_consumed
                    ),
                );
            }
        }
    }

    // length delimited framing: cuts are positions in [len][text][len][sentinel]
    let total = n + SENTINEL.len() + 16;
    let sentinel = Outcome::Val(from_value_raw(&parse_value(SENTINEL).expect("sentinel")));
    let stride = if total <= ALL_CUTS_LIMIT { 1 } else { total / ALL_CUTS_LIMIT + 1 };
    let mut cut_sets: Vec<Vec<usize>> = vec![vec![]];
    cut_sets.extend((1..total).step_by(stride).map(|c| vec![c]));
    for m in &case.multi {
        let c = cut_points(m, total);
        if c.len() >= 2 {
            cut_sets.push(c);
        }
    }
    if total <= 2 * ALL_CUTS_LIMIT {
        cut_sets.push((1..total).collect());
    }
    for cuts in &cut_sets {
        let cls = match cuts.as_slice() {
            [] => "whole",
            [c] if *c < 8 => "inside-length-header",
            [c] if *c == 8 => "edge",
            [c] if *c < 8 + n => cut_class(&text, *c - 8),
            [_] => "after-body",
            _ => "multi",
        };
        match run_withlen(bytes, cuts) {
            Err(why) => {
                let sig = format!("decoder-no-progress:withlen:{}", cls);
                if reported.insert(sig.clone()) {
                    v.fail(sig, format!("text {:?} stream cut at {:?}: {}", text, cuts, why));
                }
            }
            Ok(outs) => {
                let first_ok = outs.first().map(|o| agrees(o, &oneshot)).unwrap_or(false);
                if !first_ok {
                    let sig = if cell == "top-level-bare-token" {
                        format!("chunk-result:withlen:{}", cell)
                    } else {
                        format!(
                            "chunk-result:withlen:{}:{}:{}->{}",
                            cell,
                            cls,
                            outcome_kind(&oneshot),
                            outs.first().map(outcome_kind).unwrap_or("nothing")
                        )
                    };
                    if reported.insert(sig.clone()) {
                        v.fail(
                            sig,
                            format!(
                                "text {:?} (length prefixed, stream cut at {:?}): one-shot parser gives {:?} but WithLenRecognizerDecoder gives {:?}",
                                text, cuts, oneshot, outs
                            ),
                        );
                    }
                } else if outs.len() != 2 || outs[1] != sentinel {
                    let sig = format!(
                        "chunk-consumed:withlen:{}:{}:after-{}",
                        cell,
                        cls,
                        outcome_kind(&oneshot)
                    );
                    if reported.insert(sig.clone()) {
                        v.fail(
                            sig,
                            format!(
                                "text {:?} (length prefixed, stream cut at {:?}): the following message {:?} was not decoded intact, outcomes {:?}",
                                text, cuts, SENTINEL, outs
                            ),
                        );
                    }
                }
            }
        }
    }
    if f.escape || f.depth >= 3 {
        v.nontrivial();
    }
    v
}

// ---------------------------------------------------------------------------------------------
// 5. arbitrary input: no panic (the runner turns a panic into a failure), decoders make progress

#[derive(Clone, Debug, Serialize, Deserialize)]
struct RawCase {
    base: String,
    muts: Vec<Mut>,
    bmuts: Vec<(u16, u8, u8)>,
    cuts: Vec<u16>,
}

fn check_raw(case: &RawCase) -> Verdict {
    let mut v = Verdict::new();
    let text = mutate_text(&case.base, &case.muts);
    let bytes = mutate_bytes(text.as_bytes(), &case.bmuts);
    let valid = std::str::from_utf8(&bytes).is_ok();
    v.class(if valid { "valid-utf8" } else { "invalid-utf8" });
    if let Ok(s) = std::str::from_utf8(&bytes) {
        let r1 = parse_recognize::<Value>(s, false);
        let r2 = parse_recognize::<Value>(s, true);
        v.class(if r1.is_ok() { "parses" } else { "rejected" });
        // typed recognizers on arbitrary input
        let _ = parse_recognize::<i32>(s, false);
        let _ = parse_recognize::<u64>(s, false);
        let _ = parse_recognize::<f64>(s, false);
        let _ = parse_recognize::<String>(s, false);
        let _ = parse_recognize::<Vec<i32>>(s, true);
        let _ = parse_recognize::<Option<String>>(s, false);
        let _ = parse_recognize::<typed::Plain>(s, false);
        let _ = parse_recognize::<typed::Shape>(s, false);
        let _ = parse_recognize::<typed::WithHeaderBody>(s, true);
        let _ = parse_recognize::<std::collections::HashMap<String, i32>>(s, false);
        let _ = parse_recognize::<std::time::Duration>(s, false);
        let _ = (r1, r2);
        let f = features(s);
        feature_classes(&mut v, &f);
        if f.escape || f.depth >= 3 {
            v.nontrivial();
        }
    }
    let cuts = cut_points(&case.cuts, bytes.len());
    if cuts.iter().any(|c| inside_utf8_seq(&bytes, *c)) {
        v.nontrivial();
        v.class("cut-inside-utf8");
    }
    let chunks = split_at_cuts(&bytes, &cuts);
    let _ = run_plain(&chunks);
    let _ = run_plain(&[&bytes]);
    if let Err(why) = run_withlen(&bytes, &cuts) {
        v.fail("decoder-no-progress:withlen:raw", format!("bytes {:?} cut at {:?}: {}", bytes, cuts, why));
    }
    // a corrupt length prefix must not panic either
    let mut dec = WithLenRecognizerDecoder::new(Value::make_recognizer());
    let mut buf = BytesMut::from(&bytes[..]);
    for _ in 0..4 {
        if !matches!(dec.decode(&mut buf), Ok(Some(_))) || buf.is_empty() {
            break;
        }
    }
    v
}

// ---------------------------------------------------------------------------------------------

fn arb_model() -> BoxedStrategy<V> {
    prop_oneof![
        6 => arb_value(false),
        2 => arb_deep(64),
        1 => proptest::sample::select(boundary_pool()),
        1 => arb_scalar(false),
    ]
    .boxed()
}

fn arb_text_case(max_muts: usize) -> BoxedStrategy<TextCase> {
    (
        prop_oneof![6 => arb_value(true), 1 => arb_deep(40), 1 => arb_scalar(true)],
        arb_style(),
        prop_oneof![3 => Just(vec![]), 2 => arb_muts(max_muts)],
    )
        .prop_map(|(v, style, muts)| TextCase { v, style, muts })
        .boxed()
}

fn small_value() -> BoxedStrategy<V> {
    // values whose rendering stays within a few hundred bytes
    let leaf = prop_oneof![4 => arb_scalar(true), 1 => proptest::sample::select(scalar_pool())];
    leaf.prop_recursive(4, 12, 3, |inner| {
        let item = prop_oneof![
            3 => inner.clone().prop_map(I::Val),
            2 => (inner.clone(), inner.clone()).prop_map(|(k, v)| I::Slot(k, v)),
        ];
        let attr_name = prop_oneof![3 => arb_ident(), 1 => arb_text()];
        (
            proptest::collection::vec((attr_name, inner), 0..3),
            proptest::collection::vec(item, 0..3),
        )
            .prop_map(|(a, i)| V::Record(a, i))
    })
    .boxed()
}

fn main() {
    let args: Vec<String> = std::env::args().skip(1).collect();
    let mut ctx = Ctx::new("C09", &args);
    ctx.rule(
        "typed: generated instances of 16 built-in scalar types, 9 built-in containers and 27 derived Form cells \
         through the three printers. model: arbitrary model values (boundary scalars, quoted attribute names, \
         non-text slot keys, blobs, depth <= 64) -> c(v)=parse(print_i(v)) must exist and every printer must \
         give c(v) back (fixed point + parser-produced round trip). parsed: values obtained by parsing \
         grammar-rendered / mutated texts must round trip through every printer. chunks: rendered and mutated \
         texts (valid and invalid Recon) through RecognizerDecoder and WithLenRecognizerDecoder for every \
         single cut, all-bytes-separate and random multi-cuts, compared with parse_recognize (result) and the \
         whole-buffer decoder (bytes consumed). raw: arbitrary / mutated bytes (also invalid UTF-8): no panic. \
         Non-trivial = the text has a string escape, or nesting >= 3, or a cut falls inside a token, string \
         literal, escape or UTF-8 sequence. Distinct by Debug form of the case.",
    );
    ctx.assume("parse_recognize::<Value>(text, false) is the one-shot reference for the incremental decoders");
    ctx.assume(
        "a bare RecognizerDecoder is driven like consume_bounded does (decode on partial bodies, decode_eof on the \
         complete body); errors are compared by presence only, not by kind or location",
    );
    ctx.assume("HashMap typed values are printed in the map's iteration order (RandomState); the verdict does not depend on it");

    ctx.prop("typed-roundtrip", ctx.pick(50_000, 3_000_000), arb_typed, |c| guard(check_typed, c));
    ctx.prop(
        "model-cycle",
        ctx.pick(60_000, 3_000_000),
        || arb_model().prop_map(|v| ModelCase { v }),
        |c| guard(check_model, c),
    );
    ctx.prop("parsed-roundtrip", ctx.pick(60_000, 3_000_000), || arb_text_case(4), |c| guard(check_parsed, c));
    ctx.prop(
        "chunks",
        ctx.pick(12_000, 600_000),
        || {
            (
                prop_oneof![5 => small_value(), 1 => arb_scalar(true)],
                arb_style(),
                prop_oneof![3 => Just(vec![]), 2 => arb_muts(3)],
                proptest::collection::vec(proptest::collection::vec(any::<u16>(), 2..8), 0..4),
            )
                .prop_map(|(v, style, muts, multi)| ChunkCase { v, style, muts, multi })
        },
        |c| guard(check_chunks, c),
    );
    ctx.prop(
        "raw-no-panic",
        ctx.pick(60_000, 4_000_000),
        || {
            (
                prop_oneof![
                    3 => arb_soup(40),
                    3 => (arb_value(false), arb_style()).prop_map(|(v, s)| render(&v, &s)),
                    1 => "\\PC{0,40}",
                    1 => (arb_deep(64), arb_style()).prop_map(|(v, s)| render(&v, &s)),
                ],
                arb_muts(6),
                prop_oneof![3 => Just(vec![]), 1 => proptest::collection::vec(any::<(u16, u8, u8)>(), 0..4)],
                proptest::collection::vec(any::<u16>(), 0..6),
            )
                .prop_map(|(base, muts, bmuts, cuts)| RawCase { base, muts, bmuts, cuts })
        },
        |c| guard(check_raw, c),
    );
    ctx.finish();
}
