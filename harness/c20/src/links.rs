//! C20 (1): model-based check of the write task's link registry (`Links`) together with the
//! `UplinkReporter`s stored inside it, observed only through `UplinkReportReader::snapshot`.
//!
//! The operations are used the way `agent/task/mod.rs` uses them:
//! * `register_reporter(lane)` once per lane id, when the lane is registered (`register_lane`), i.e.
//!   before any other operation names that lane;
//! * `insert` for a Link envelope or an implicit link (any registered lane, including one that has
//!   failed: the lane registry never forgets a name);
//! * `remove` only when `is_linked` (Unlink envelope);
//! * `remove_remote` at any time (write failure / pruning);
//! * `remove_lane` once per lane (the lane's stream failed; it is never polled again, so no further
//!   `count_*` for that lane) with the returned iterator consumed;
//! * `remove_all_links` (iterator consumed) as the last mutation (write task epilogue);
//! * `count_single` for every targeted lane response of a live lane, `count_broadcast` only when
//!   `linked_from(lane)` is non-empty.

use proptest::prelude::*;
use serde::{Deserialize, Serialize};
use std::collections::BTreeSet;
use swimos_runtime::agent::reporting::{UplinkReportReader, UplinkReporter};
use swimos_runtime::verif_hooks::Links;
use uuid::Uuid;
use vcommon::{pick_index, Bulk, Verdict};

#[derive(Clone, Copy, Debug, PartialEq, Eq, Serialize, Deserialize)]
pub enum LOp {
    Register(u8),
    Insert(u8, u8),
    Remove(u8, u8),
    RemoveRemote(u8),
    RemoveLane(u8),
    RemoveAll,
    CountSingle(u8),
    CountBroadcast(u8),
    /// Snapshot one reader: lane index, or `nl` for the aggregate.
    Snap(u8),
}

fn rid(r: u8) -> Uuid {
    Uuid::from_u128(0x1000 + r as u128)
}

/// Reference relation + what the counters must add up to.
#[derive(Clone, Debug)]
pub struct Model {
    pub nl: usize,
    pub nr: usize,
    registered: Vec<bool>,
    failed: Vec<bool>,
    linked: BTreeSet<(u8, u8)>,
    closed: bool,
    exp_lane: Vec<u64>,
    exp_agg: u64,
    // attribution of the known defect (DESIGN §7-10): `remove_remote` deletes the `forward` entry of
    // a lane whose last remote goes, and with it the lane's reporter.
    entry_absent: Vec<bool>,
    entry_lost: Vec<bool>,
    lost_single: u64,
    // non-triviality
    bulk_removed: bool,
    relinked_after_bulk: bool,
}

impl Model {
    pub fn new(nl: usize, nr: usize) -> Model {
        Model {
            nl,
            nr,
            registered: vec![false; nl],
            failed: vec![false; nl],
            linked: BTreeSet::new(),
            closed: false,
            exp_lane: vec![0; nl],
            exp_agg: 0,
            entry_absent: vec![false; nl],
            entry_lost: vec![false; nl],
            lost_single: 0,
            bulk_removed: false,
            relinked_after_bulk: false,
        }
    }

    fn fanout(&self, l: u8) -> u64 {
        self.linked.iter().filter(|(ll, _)| *ll == l).count() as u64
    }

    pub fn enabled(&self, op: LOp) -> bool {
        if self.closed {
            return matches!(op, LOp::Snap(_));
        }
        match op {
            LOp::Register(l) => !self.registered[l as usize],
            LOp::Insert(l, _) => self.registered[l as usize],
            LOp::Remove(l, r) => self.linked.contains(&(l, r)),
            LOp::RemoveRemote(_) => true,
            LOp::RemoveLane(l) => self.registered[l as usize] && !self.failed[l as usize],
            LOp::RemoveAll => true,
            LOp::CountSingle(l) => self.registered[l as usize] && !self.failed[l as usize],
            LOp::CountBroadcast(l) => {
                self.registered[l as usize] && !self.failed[l as usize] && self.fanout(l) > 0
            }
            LOp::Snap(_) => true,
        }
    }

    pub fn apply(&mut self, op: LOp) {
        match op {
            LOp::Register(l) => self.registered[l as usize] = true,
            LOp::Insert(l, r) => {
                if self.linked.insert((l, r)) && self.bulk_removed {
                    self.relinked_after_bulk = true;
                }
                self.entry_absent[l as usize] = false;
            }
            LOp::Remove(l, r) => {
                self.linked.remove(&(l, r));
            }
            LOp::RemoveRemote(r) => {
                let lanes: Vec<u8> = self
                    .linked
                    .iter()
                    .filter(|(_, rr)| *rr == r)
                    .map(|(l, _)| *l)
                    .collect();
                for l in lanes {
                    self.linked.remove(&(l, r));
                    self.bulk_removed = true;
                    if self.fanout(l) == 0 && !self.failed[l as usize] {
                        self.entry_absent[l as usize] = true;
                        self.entry_lost[l as usize] = true;
                    }
                }
            }
            LOp::RemoveLane(l) => {
                let before = self.linked.len();
                self.linked.retain(|(ll, _)| *ll != l);
                if self.linked.len() != before {
                    self.bulk_removed = true;
                }
                self.failed[l as usize] = true;
            }
            LOp::RemoveAll => {
                self.linked.clear();
                self.closed = true;
            }
            LOp::CountSingle(l) => {
                self.exp_lane[l as usize] += 1;
                self.exp_agg += 1;
                if self.entry_absent[l as usize] {
                    self.lost_single += 1;
                }
            }
            LOp::CountBroadcast(l) => {
                let n = self.fanout(l);
                self.exp_lane[l as usize] += n;
                self.exp_agg += n;
            }
            LOp::Snap(_) => {}
        }
    }

    pub fn nontrivial(&self) -> bool {
        self.relinked_after_bulk
    }

    /// All operations of the alphabet in a fixed order (simplest first).
    pub fn alphabet(nl: usize, nr: usize, with_snap: bool) -> Vec<LOp> {
        let mut v = vec![];
        for l in 0..nl as u8 {
            v.push(LOp::Register(l));
        }
        for l in 0..nl as u8 {
            for r in 0..nr as u8 {
                v.push(LOp::Insert(l, r));
            }
        }
        for l in 0..nl as u8 {
            for r in 0..nr as u8 {
                v.push(LOp::Remove(l, r));
            }
        }
        for r in 0..nr as u8 {
            v.push(LOp::RemoveRemote(r));
        }
        for l in 0..nl as u8 {
            v.push(LOp::RemoveLane(l));
        }
        for l in 0..nl as u8 {
            v.push(LOp::CountSingle(l));
        }
        for l in 0..nl as u8 {
            v.push(LOp::CountBroadcast(l));
        }
        v.push(LOp::RemoveAll);
        if with_snap {
            for x in 0..=nl as u8 {
                v.push(LOp::Snap(x));
            }
        }
        v
    }
}

/// All laws that fail because `remove_remote` deleted a lane's `forward` entry (and with it the
/// lane's reporter) share one signature: DESIGN §7-10.
const KNOWN_SIG: &str = "reporter-dropped-by-remove_remote";

fn sig(base: &str, known: bool) -> String {
    if known {
        KNOWN_SIG.to_string()
    } else {
        base.to_string()
    }
}

struct Real {
    links: Links,
    agg: UplinkReportReader,
    lanes: Vec<Option<UplinkReportReader>>,
    seen_lane: Vec<u64>,
    seen_agg: u64,
}

pub struct Outcome {
    pub fails: Vec<(String, String)>,
    pub nontrivial: bool,
    /// index of the first op after which a law failed
    pub first_fail: Option<usize>,
}

fn push(fails: &mut Vec<(String, String)>, sig: String, detail: String) {
    if !fails.iter().any(|(s, _)| *s == sig) {
        fails.push((sig, detail));
    }
}

/// Execute one history on a fresh `Links` and compare with the model. `every`: all readers are
/// snapshot after every operation (so the counts are checked after every op); otherwise only `Snap`
/// operations and the end of the history take snapshots.
pub fn run_history(nl: usize, nr: usize, ops: &[LOp], every: bool) -> Outcome {
    let agg_rep = UplinkReporter::default();
    let mut real = Real {
        agg: agg_rep.reader(),
        links: Links::new(Some(agg_rep)),
        lanes: vec![None; nl],
        seen_lane: vec![0; nl],
        seen_agg: 0,
    };
    let mut m = Model::new(nl, nr);
    let mut fails: Vec<(String, String)> = vec![];
    let mut first_fail = None;

    fn snap_lane(real: &mut Real, m: &Model, l: usize, fails: &mut Vec<(String, String)>, ctx: &dyn Fn() -> String) {
        if !m.registered[l] || m.failed[l] {
            return;
        }
        let known = m.entry_lost[l];
        let Some(reader) = real.lanes[l].as_ref() else { return };
        match reader.snapshot() {
            None => push(
                fails,
                sig("lane-reader-dead", known),
                format!("lane {} is registered and has not failed but its reader is no longer valid (snapshot() == None) {}", l, ctx()),
            ),
            Some(s) => {
                real.seen_lane[l] += s.event_count;
                let expect = m.fanout(l as u8);
                if s.link_count != expect {
                    push(
                        fails,
                        sig("lane-link-count", known),
                        format!("lane {} reports link_count {} but {} remotes are linked to it {}", l, s.link_count, expect, ctx()),
                    );
                }
                if s.command_count != 0 {
                    push(fails, "lane-command-count".into(), format!("lane {} reports {} commands, none were counted {}", l, s.command_count, ctx()));
                }
            }
        }
    }
    fn snap_agg(real: &mut Real, m: &Model, fails: &mut Vec<(String, String)>, ctx: &dyn Fn() -> String) {
        match real.agg.snapshot() {
            None => push(fails, "agg-reader-dead".into(), format!("aggregate reader invalid {}", ctx())),
            Some(s) => {
                real.seen_agg += s.event_count;
                let expect = m.linked.len() as u64;
                if s.link_count != expect {
                    push(
                        fails,
                        "agg-link-count".into(),
                        format!("aggregate reports link_count {} but {} links exist {}", s.link_count, expect, ctx()),
                    );
                }
            }
        }
    }
    fn check_sums(real: &Real, m: &Model, fails: &mut Vec<(String, String)>, ctx: &dyn Fn() -> String) {
        for l in 0..m.nl {
            if !m.registered[l] || m.failed[l] {
                continue;
            }
            if real.seen_lane[l] != m.exp_lane[l] {
                push(
                    fails,
                    sig("lane-event-count", m.entry_lost[l]),
                    format!("lane {}: snapshots add up to {} events, {} were counted {}", l, real.seen_lane[l], m.exp_lane[l], ctx()),
                );
            }
        }
        if real.seen_agg != m.exp_agg {
            let known = m.lost_single > 0 && real.seen_agg + m.lost_single == m.exp_agg;
            push(
                fails,
                sig("agg-event-count", known),
                format!("aggregate: snapshots add up to {} events, {} were counted {}", real.seen_agg, m.exp_agg, ctx()),
            );
        }
    }

    for (i, op) in ops.iter().enumerate() {
        if !m.enabled(*op) {
            continue;
        }
        match *op {
            LOp::Register(l) => {
                let rep = UplinkReporter::default();
                real.lanes[l as usize] = Some(rep.reader());
                real.links.register_reporter(l as u64, rep);
            }
            LOp::Insert(l, r) => real.links.insert(l as u64, rid(r)),
            LOp::Remove(l, r) => {
                let _ = real.links.remove(l as u64, rid(r));
            }
            LOp::RemoveRemote(r) => real.links.remove_remote(rid(r)),
            LOp::RemoveLane(l) => real.links.remove_lane(l as u64).for_each(drop),
            LOp::RemoveAll => real.links.remove_all_links().for_each(drop),
            LOp::CountSingle(l) => real.links.count_single(l as u64),
            LOp::CountBroadcast(l) => real.links.count_broadcast(l as u64),
            LOp::Snap(_) => {}
        }
        m.apply(*op);
        let before = fails.len();
        let ctx = || format!("after op #{} of {:?}", i, &ops[..=i]);
        if every {
            for l in 0..nl {
                snap_lane(&mut real, &m, l, &mut fails, &ctx);
            }
            snap_agg(&mut real, &m, &mut fails, &ctx);
            check_sums(&real, &m, &mut fails, &ctx);
        } else if let LOp::Snap(x) = *op {
            if (x as usize) < nl {
                snap_lane(&mut real, &m, x as usize, &mut fails, &ctx);
            } else {
                snap_agg(&mut real, &m, &mut fails, &ctx);
            }
        }
        if fails.len() > before && first_fail.is_none() {
            first_fail = Some(i);
        }
    }
    let ctx = || format!("at the end of {:?}", ops);
    for l in 0..nl {
        snap_lane(&mut real, &m, l, &mut fails, &ctx);
    }
    snap_agg(&mut real, &m, &mut fails, &ctx);
    check_sums(&real, &m, &mut fails, &ctx);
    Outcome {
        fails,
        nontrivial: m.nontrivial(),
        first_fail,
    }
}

// ---------------------------------------------------------------------------------------------
// bounded-exhaustive

#[derive(Clone, Debug, Serialize, Deserialize)]
pub struct TreeCase {
    pub nl: usize,
    pub nr: usize,
    pub depth: usize,
    pub prefix: Vec<LOp>,
}

/// All enabled prefixes of length `plen`, dealt round-robin to the workers.
pub fn tree_cases(nl: usize, nr: usize, depth: usize, plen: usize, worker: usize, workers: usize) -> impl Iterator<Item = TreeCase> {
    let alpha = Model::alphabet(nl, nr, false);
    let mut out = vec![];
    fn rec(alpha: &[LOp], m: &Model, cur: &mut Vec<LOp>, plen: usize, out: &mut Vec<Vec<LOp>>) {
        if cur.len() == plen {
            out.push(cur.clone());
            return;
        }
        for op in alpha {
            if m.enabled(*op) {
                let mut m2 = m.clone();
                m2.apply(*op);
                cur.push(*op);
                rec(alpha, &m2, cur, plen, out);
                cur.pop();
            }
        }
    }
    rec(&alpha, &Model::new(nl, nr), &mut vec![], plen, &mut out);
    out.into_iter()
        .enumerate()
        .filter(move |(i, _)| i % workers == worker)
        .map(move |(_, prefix)| TreeCase { nl, nr, depth, prefix })
}

pub fn check_tree(case: &TreeCase) -> Verdict {
    let alpha = Model::alphabet(case.nl, case.nr, false);
    let mut v = Verdict::new();
    let mut bulk = Bulk::default();
    let mut cur = case.prefix.clone();
    let mut m = Model::new(case.nl, case.nr);
    for op in &case.prefix {
        if !m.enabled(*op) {
            // a stale replay file; nothing to do
            v.bulk = Some(bulk);
            return v;
        }
        m.apply(*op);
    }
    let mut bulk_removal_leaves = 0u64;
    fn rec(
        alpha: &[LOp],
        case: &TreeCase,
        m: &Model,
        cur: &mut Vec<LOp>,
        v: &mut Verdict,
        bulk: &mut Bulk,
        bulk_removal_leaves: &mut u64,
    ) {
        if cur.len() >= case.depth {
            let out = run_history(case.nl, case.nr, cur, true);
            bulk.evaluations += 1;
            if out.nontrivial {
                bulk.distinct_nontrivial += 1;
            }
            if m.bulk_removed {
                *bulk_removal_leaves += 1;
            }
            for (sig, detail) in out.fails {
                if !v.failures.iter().any(|f| f.sig == sig) {
                    v.fail(sig, detail);
                }
            }
            return;
        }
        for op in alpha {
            if m.enabled(*op) {
                let mut m2 = m.clone();
                m2.apply(*op);
                cur.push(*op);
                rec(alpha, case, &m2, cur, v, bulk, bulk_removal_leaves);
                cur.pop();
            }
        }
    }
    rec(&alpha, case, &m, &mut cur, &mut v, &mut bulk, &mut bulk_removal_leaves);
    bulk.classes.push(("bulk-removal", bulk_removal_leaves));
    v.bulk = Some(bulk);
    v
}

// ---------------------------------------------------------------------------------------------
// random

#[derive(Clone, Debug, Serialize, Deserialize)]
pub struct RandCase {
    pub nl: usize,
    pub nr: usize,
    /// snapshot every reader after every op (true) or only at generated `Snap` ops (false)
    pub every: bool,
    /// each pick selects one of the operations enabled in the current model state
    pub picks: Vec<u16>,
}

pub fn rand_strategy(max_len: usize) -> impl Strategy<Value = RandCase> {
    (
        any::<bool>(),
        proptest::collection::vec(any::<u16>(), 1..max_len),
    )
        .prop_map(|(every, picks)| RandCase { nl: 3, nr: 4, every, picks })
}

/// Weighted list of enabled ops (removal paths and counting are as likely as single links).
fn enabled_weighted(m: &Model, alpha: &[LOp]) -> Vec<LOp> {
    let mut v = vec![];
    for op in alpha {
        if !m.enabled(*op) {
            continue;
        }
        let w = match op {
            LOp::Register(_) => 6,
            LOp::Insert(..) => 3,
            LOp::Remove(..) => 2,
            LOp::RemoveRemote(_) => 3,
            LOp::RemoveLane(_) => 1,
            LOp::RemoveAll => 1,
            LOp::CountSingle(_) => 3,
            LOp::CountBroadcast(_) => 4,
            LOp::Snap(_) => 2,
        };
        for _ in 0..w {
            v.push(*op);
        }
    }
    v
}

pub fn decode(case: &RandCase) -> Vec<LOp> {
    let alpha = Model::alphabet(case.nl, case.nr, true);
    let mut m = Model::new(case.nl, case.nr);
    let mut ops = vec![];
    for p in &case.picks {
        let en = enabled_weighted(&m, &alpha);
        if en.is_empty() {
            break;
        }
        let op = en[pick_index(*p, en.len())];
        m.apply(op);
        ops.push(op);
    }
    ops
}

pub fn check_rand(case: &RandCase) -> Verdict {
    let ops = decode(case);
    let out = run_history(case.nl, case.nr, &ops, case.every);
    let mut v = Verdict::new();
    for (sig, detail) in out.fails {
        v.fail(sig, detail);
    }
    if out.nontrivial {
        v.nontrivial();
    }
    v.class_if(ops.iter().any(|o| matches!(o, LOp::RemoveRemote(_))), "remove_remote");
    v.class_if(ops.iter().any(|o| matches!(o, LOp::RemoveLane(_))), "remove_lane");
    v.class_if(ops.iter().any(|o| matches!(o, LOp::RemoveAll)), "remove_all");
    v.class_if(ops.iter().any(|o| matches!(o, LOp::CountBroadcast(_))), "broadcast");
    v.class_if(case.every, "snapshot-every-op");
    v.class_if(ops.len() >= 40, "len>=40");
    v
}
