//! C18: route patterns (oracle inside the target). Input: `pattern_a 0xFF pattern_b 0xFF uri` (0xFF never
//! occurs in valid UTF-8; parts that are not UTF-8 are used lossily, which only exercises "no panic").
//!  * any text: `RoutePattern::parse_str` / `RouteUri::from_str` never panic;
//!  * per URI: `unapply_str` is repeatable and equals `unapply_route_uri(parse(uri))`, no binding is empty;
//!  * both patterns match the URI  =>  `are_ambiguous` in both argument orders;
//!  * pattern_a inside the URI alphabet: apply(values taken from the URI's segments) un-applies to the same map.
//! No C18 finding is open (all five are fixed in /repo), so nothing is skipped.
#![no_main]
use libfuzzer_sys::fuzz_target;
use std::collections::HashMap;
use swimos_route::{RoutePattern, RouteUri};

fn probe(p: &RoutePattern, u: &str) -> Option<HashMap<String, String>> {
    let r1 = p.unapply_str(u);
    let r2 = p.unapply_str(u);
    assert_eq!(r1, r2, "unapply_str not repeatable: {:?} on {:?}", p.to_string(), u);
    match u.parse::<RouteUri>() {
        Ok(ru) => assert_eq!(p.unapply_route_uri(&ru), r1, "entry points disagree: {:?} on {:?}", p.to_string(), u),
        Err(_) => assert!(r1.is_err(), "{:?} matched {:?} which is not a RouteUri", p.to_string(), u),
    }
    if let Ok(b) = &r1 {
        assert!(b.values().all(|v| !v.is_empty()), "empty binding: {:?} on {:?}: {:?}", p.to_string(), u, b);
    }
    r1.ok()
}

fn uri_char(c: char) -> bool {
    c.is_ascii_alphanumeric() || "$-_.+!*'(),:@&=;/%~".contains(c)
}

/// Pattern text that a RouteUri can spell: URI path characters and well-formed escapes only, and a scheme
/// (if the text starts like one) that is a real URI scheme.
fn in_round_trip_domain(text: &str) -> bool {
    if !text.chars().all(uri_char) {
        return false;
    }
    let b = text.as_bytes();
    for (i, c) in b.iter().enumerate() {
        if *c == b'%' && !(i + 2 < b.len() && b[i + 1].is_ascii_hexdigit() && b[i + 2].is_ascii_hexdigit()) {
            return false;
        }
    }
    if b.first().map(|c| c.is_ascii_alphabetic()).unwrap_or(false) {
        let head = text.split('/').next().unwrap_or("");
        if let Some((scheme, _)) = head.split_once(':') {
            if !scheme.chars().all(|c| c.is_ascii_alphanumeric() || "+-.".contains(c)) {
                return false;
            }
        }
    }
    true
}

fuzz_target!(|data: &[u8]| {
    let mut parts = data.splitn(3, |b| *b == 0xFF).map(|p| String::from_utf8_lossy(p).to_string());
    let a = parts.next().unwrap_or_default();
    let b = parts.next().unwrap_or_default();
    let u = parts.next().unwrap_or_default();
    let pa = RoutePattern::parse_str(&a).ok();
    let pb = RoutePattern::parse_str(&b).ok();
    let ma = pa.as_ref().and_then(|p| probe(p, &u));
    let mb = pb.as_ref().and_then(|p| probe(p, &u));
    if let (Some(pa), Some(pb)) = (&pa, &pb) {
        if ma.is_some() && mb.is_some() {
            assert!(
                RoutePattern::are_ambiguous(pa, pb) && RoutePattern::are_ambiguous(pb, pa),
                "{:?} is matched by {:?} and {:?} but they are not reported ambiguous",
                u,
                a,
                b
            );
        }
    }
    if let Some(p) = &pa {
        let names: Vec<String> = p.parameters().map(str::to_string).collect();
        let mut unique = names.clone();
        unique.sort();
        unique.dedup();
        assert!(unique.len() == names.len(), "pattern {:?} parses with a repeated parameter name: {:?}", a, names);
        // values: the parts of the third text; separated by new lines when it has any (so that a value may contain '/')
        let seps: &[char] = if u.contains('\n') { &['\n'] } else { &['/'] };
        let values: Vec<&str> = u.split(seps).filter(|s| !s.is_empty()).collect();
        if in_round_trip_domain(&a) && (names.is_empty() || !values.is_empty()) {
            let m: HashMap<String, String> = names
                .iter()
                .enumerate()
                .map(|(i, k)| (k.clone(), values[i % values.len()].to_string()))
                .collect();
            let route = p.apply(&m).unwrap_or_else(|e| panic!("apply({:?}, {:?}) failed: {}", a, m, e));
            let back = probe(p, &route);
            assert_eq!(back.as_ref(), Some(&m), "pattern {:?}: apply({:?}) = {:?} un-applies to {:?}", a, m, route, back);
        }
    }
});
