//! C05 Persisted state is never older than what was published; restart restores it.
//!
//! The real `AgentModel` + agent runtime run through `run_agent_with_store` on a recording, fault
//! injecting `NodePersistence` (`store.rs`). A generated history (commands from 1-4 slow remotes and
//! handler programs over persistent/transient value and map lanes and stores) is executed up to a cut
//! point (panic inside store call #n / drop after poll #p / drop after remote frame #f / clean stop
//! after op #j / inactivity timeout / kill at quiescence), then a second incarnation is started on the
//! surviving store data, every lane is synced by a new remote and every item is read by `on_start`
//! and a probe. Optionally a second history runs on the restarted agent (state restored from the
//! store + new operations), it is killed at quiescence and a third incarnation is checked.
//!
//! Oracles (all invariants over sequence-numbered histories, schedule independent), per incarnation:
//!  * order        - for every event frame of a persistent lane read by a remote at seq t, the state
//!                   implied by the store calls recorded strictly before t is at least as new as the
//!                   frame's state. Value lane: a `put_value` of that value or of a later value of the
//!                   lane's history was recorded (the state the incarnation started with is implied by
//!                   the store as it was). Map lane: `update_map` with exactly that entry (or the
//!                   entry is one the incarnation started with); `remove_map` / `clear_map` for that
//!                   operation, matched monotonically per remote and key in log order.
//!  * restart      - after the cut every persistent lane/store equals the fold of the *applied* store
//!                   operations up to the cut (value: last put; map: update/remove/clear folded),
//!                   every transient item is at its default, as seen by `on_start` (so `on_start` ran
//!                   after initialisation), by a sync from a new remote and by a later probe.
//!  * never-older  - the restored state of a persistent lane is not older, in the lane's own history
//!                   (agent-side trace), than any state a subscriber had read before the cut.
//! Fault semantics: a panic injected *before* the operation is applied counts as not applied, one
//! injected *after* it was applied (before the call returns) counts as applied; both are generated.

mod agent;
mod late;
mod mini;
mod opt;
mod store;

use agent::{m1_key, make_agent, Act, PEv, Shared, Snap, K};
use proptest::prelude::*;
use serde::{Deserialize, Serialize};
use std::collections::{BTreeMap, BTreeSet, HashMap};
use std::panic::{catch_unwind, resume_unwind, AssertUnwindSafe};
use std::sync::atomic::AtomicU64;
use std::sync::Arc;
use std::time::Duration;
use store::{Call, Entry, Fault, InjectedFault, RecStore, SharedData};
use swimos_agent_protocol::MapMessage;
use swimos_recon::parser::parse_recognize;
use swimos_recon::print_recon_compact;
use vcommon::{pick_index, Bulk, Ctx, Verdict};
use vsim::{arb_cap, arb_sched_op, arb_small_cap, block_on_paused, Frame, FrameKind, Op, Req, Sim, SimParams};

const LANES: [&str; 7] = ["v0", "v1", "vt", "m0", "m1", "mt", "ctl"];
const CTL: u8 = 6;

// ---------------------------------------------------------------------------------------------
// Items

struct ItemDef {
    name: &'static str,
    is_map: bool,
    is_lane: bool,
    persistent: bool,
    str_keys: bool,
    /// Index into `Snap::values` / `Snap::maps`.
    slot: usize,
    /// Index used by the agent trace (`PEv::Value::lane` / `PEv::Update::map`), lanes only.
    trace_idx: u8,
}

const fn item(name: &'static str, is_map: bool, is_lane: bool, persistent: bool, str_keys: bool, slot: usize, trace_idx: u8) -> ItemDef {
    ItemDef { name, is_map, is_lane, persistent, str_keys, slot, trace_idx }
}

const ITEMS: [ItemDef; 10] = [
    item("v0", false, true, true, false, 0, 0),
    item("v1", false, true, true, false, 1, 1),
    item("vt", false, true, false, false, 2, 2),
    item("vs", false, false, true, false, 3, 0),
    item("vst", false, false, false, false, 4, 0),
    item("m0", true, true, true, false, 0, 0),
    item("m1", true, true, true, true, 1, 1),
    item("mt", true, true, false, false, 2, 2),
    item("ms", true, false, true, false, 3, 0),
    item("mst", true, false, false, false, 4, 0),
];

#[derive(Clone, Debug, PartialEq, Eq)]
enum St {
    V(i64),
    M(BTreeMap<K, i64>),
}

fn snap_state(s: &Snap, it: &ItemDef) -> Option<St> {
    if it.is_map {
        s.maps.get(it.slot).cloned().map(St::M)
    } else {
        s.values.get(it.slot).copied().map(St::V)
    }
}

fn default_state(it: &ItemDef) -> St {
    if it.is_map {
        St::M(BTreeMap::new())
    } else {
        St::V(0)
    }
}

// ---------------------------------------------------------------------------------------------
// Cases

#[derive(Clone, Debug, Serialize, Deserialize)]
enum CutSel {
    /// Panic inside mutating store call number pick(i) of the history (before / after it is applied).
    StoreCall { i: u16, after: bool },
    /// Mutating store call number pick(i) fails (returns an error, not applied); the history goes on.
    StoreError { i: u16 },
    /// Drop everything after system poll number pick(i).
    Poll { i: u16 },
    /// Drop everything right after remote frame number pick(i) was read.
    Frame { i: u16 },
    /// Clean stop (stop signal, then everything is delivered) after pick(i) of the history's ops.
    Stop { i: u16 },
    Timeout,
}

#[derive(Clone, Debug, Serialize, Deserialize)]
enum CutPlan {
    Sampled(Vec<CutSel>),
    /// Every store-call cut (both fault modes), every frame cut, a clean stop after every op, a spread
    /// of poll cuts, inactivity timeout.
    All,
}

#[derive(Clone, Debug, Serialize, Deserialize)]
struct Case {
    params: SimParams,
    cascade: bool,
    programs: Vec<Vec<Act>>,
    ops: Vec<Op>,
    /// History run on the second incarnation (empty: the check ends with the first restart).
    ops2: Vec<Op>,
    plan: CutPlan,
    /// Values are drawn from {1,2,3} instead of being unique (states of different items, and successive
    /// states of one item, can then be byte-identical). The rules stay sound (they match the earliest
    /// candidate) but are weaker; the quiescence rule does not need unique values.
    #[serde(default)]
    small_alphabet: bool,
}

#[derive(Clone, Copy, Debug, PartialEq, Eq, PartialOrd, Ord)]
enum Cut {
    /// Kill at the end of the history (after the final settle).
    End,
    StoreCall { n: u64, after: bool },
    /// Store call #n returns an error; the rest of the history is still executed, then everything is
    /// delivered and the runtime is given time to shut down.
    StoreError(u64),
    Poll(u64),
    Frame(usize),
    /// Clean stop after the first j ops.
    Stop(usize),
    Timeout,
}

#[derive(Clone, Debug)]
enum G {
    Attach { in_cap: usize, out_cap: usize },
    Link { r: u16, lane: u8 },
    Sync { r: u16, lane: u8 },
    Unlink { r: u16, lane: u8 },
    SetV { r: u16, lane: u8 },
    Upd { r: u16, map: u8, k: i32 },
    Rem { r: u16, map: u8, k: i32 },
    Clr { r: u16, map: u8 },
    Prog { r: u16, acts: Vec<Act> },
    Drop { r: u16 },
    Sched(Op),
    /// A run of sets on one persistent lane directly followed by a sync of that lane (all delivered
    /// to the agent together), then the system is polled in small steps with the syncing remote
    /// reading in between. This is how a lane gets a sync request while its writer is busy and a newer
    /// state is waiting: the sync response then carries a state that has not been broadcast yet.
    Burst { r: u16, lane: u8, keys: Vec<i32>, other_syncer: Option<u16>, steps: Vec<(usize, usize)> },
    /// Stop-vote window (forces inactive_timeout = 300 ms): a linked remote, quiet time `a`, traffic that
    /// only the read task sees (a command for a missing lane) so that its timer fires later than those
    /// of the write and HTTP tasks, time up to 300 ms + d (write and HTTP task vote), then a set on the
    /// lane and a command that makes the agent stop itself, delivered together: the lane event reaches
    /// the write task while its vote is outstanding and the read task's voter goes away with the agent.
    Window { r: u16, lane: u8, k: i32, a: u64, d: u64, split: bool, sets: u8, http_last: Option<(u64, i64)>, steps: Vec<(usize, usize)> },
    /// One handler sets the persistent value store and a persistent value lane (0 = v0, 1 = v1) to the
    /// SAME value while a remote is linked to the lane: byte-identical states of two different items.
    Twin { r: u16, lane: u8 },
}

fn arb_params() -> impl Strategy<Value = SimParams> {
    (
        any::<u64>(),
        prop_oneof![Just(1usize), Just(2), Just(4), Just(16)],
        arb_cap(),
        arb_cap(),
        // budget 1 is degenerate (RunWithBudget(1) can never complete a channel operation)
        prop_oneof![Just(2usize), Just(3), Just(8), Just(64)],
    )
        .prop_map(|(seed, attachment_queue, lane_in_buf, lane_out_buf, budget)| SimParams {
            seed,
            attachment_queue,
            lane_in_buf: lane_in_buf.max(8),
            lane_out_buf: lane_out_buf.max(8),
            budget,
            ..SimParams::default()
        })
}

fn arb_act() -> impl Strategy<Value = Act> {
    prop_oneof![
        4 => (0u8..3).prop_map(|lane| Act::SetV { lane, v: 0 }),
        4 => (0u8..3, 0i32..4).prop_map(|(map, k)| Act::Upd { map, k, v: 0 }),
        2 => (0u8..3, 0i32..4).prop_map(|(map, k)| Act::Rem { map, k }),
        1 => (0u8..3).prop_map(|map| Act::Clr { map }),
        3 => (0u8..2).prop_map(|store| Act::SetS { store, v: 0 }),
        3 => (0u8..2, 0i32..4).prop_map(|(store, k)| Act::UpdS { store, k, v: 0 }),
        1 => (0u8..2, 0i32..4).prop_map(|(store, k)| Act::RemS { store, k }),
        1 => (0u8..2).prop_map(|store| Act::ClrS { store }),
    ]
}

fn arb_g() -> impl Strategy<Value = G> {
    prop_oneof![
        // request channels either tiny (partial envelopes) or roomy (several envelopes delivered within
        // one poll); response channels mostly tiny (slow reader)
        2 => (prop_oneof![1 => arb_small_cap(), 1 => proptest::sample::select(vec![64usize, 128, 512, 4096])], arb_small_cap())
            .prop_map(|(in_cap, out_cap)| G::Attach { in_cap, out_cap }),
        3 => (
            any::<u16>(),
            // v0 v1 m0 m1
            prop_oneof![Just(0u8), Just(1), Just(3), Just(4)],
            proptest::collection::vec(0i32..4, 2..5),
            prop_oneof![3 => Just(None), 1 => any::<u16>().prop_map(Some)],
            proptest::collection::vec((1usize..3, prop_oneof![2 => Just(usize::MAX), 1 => 1usize..40]), 3..14),
        )
            .prop_map(|(r, lane, keys, other_syncer, steps)| G::Burst { r, lane, keys, other_syncer, steps }),
        2 => (any::<u16>(), 0u8..2).prop_map(|(r, lane)| G::Twin { r, lane }),
        5 => (any::<u16>(), 0u8..6).prop_map(|(r, lane)| G::Link { r, lane }),
        3 => (any::<u16>(), 0u8..6).prop_map(|(r, lane)| G::Sync { r, lane }),
        1 => (any::<u16>(), 0u8..6).prop_map(|(r, lane)| G::Unlink { r, lane }),
        8 => (any::<u16>(), 0u8..3).prop_map(|(r, lane)| G::SetV { r, lane }),
        8 => (any::<u16>(), 0u8..3, 0i32..4).prop_map(|(r, map, k)| G::Upd { r, map, k }),
        3 => (any::<u16>(), 0u8..3, 0i32..4).prop_map(|(r, map, k)| G::Rem { r, map, k }),
        1 => (any::<u16>(), 0u8..3).prop_map(|(r, map)| G::Clr { r, map }),
        5 => (
            any::<u16>(),
            proptest::collection::vec(arb_act(), 1..6),
            // a few programs abort, or stop / fail the agent from inside the handler
            prop_oneof![56 => Just(None), 2 => Just(Some(Act::Abort)), 1 => Just(Some(Act::StopSelf)), 1 => Just(Some(Act::Fail))],
            any::<u16>(),
        )
            .prop_map(|(r, mut acts, end, at)| {
                if let Some(e) = end {
                    let i = pick_index(at, acts.len() + 1);
                    acts.insert(i, e);
                }
                G::Prog { r, acts }
            }),
        1 => any::<u16>().prop_map(|r| G::Drop { r }),
        16 => arb_sched_op().prop_map(G::Sched),
    ]
}

/// The stop-vote window is an optional epilogue of the first history (it ends with the agent stopping).
fn arb_window() -> impl Strategy<Value = G> {
    (
        any::<u16>(),
        prop_oneof![Just(0u8), Just(1), Just(3), Just(4)],
        0i32..4,
        20u64..280,
        prop_oneof![Just(1u64), Just(50), Just(150)],
        any::<bool>(),
        1u8..3,
        // variant C (half of the windows): the HTTP task votes last, `dh` ms after the other two; the
        // agent's own change is due `e` ms before/after that vote
        prop_oneof![1 => Just(None), 1 => (2u64..299, prop_oneof![4 => Just(-1i64), 1 => Just(0), 1 => Just(1), 1 => Just(-2)]).prop_map(Some)],
        proptest::collection::vec((1usize..3, prop_oneof![2 => Just(usize::MAX), 1 => 1usize..40]), 2..8),
    )
        .prop_map(|(r, lane, k, a, d, split, sets, http_last, steps)| G::Window { r, lane, k, a, d, split, sets, http_last, steps })
}

fn arb_cutsel() -> impl Strategy<Value = CutSel> {
    prop_oneof![
        6 => (any::<u16>(), any::<bool>()).prop_map(|(i, after)| CutSel::StoreCall { i, after }),
        2 => any::<u16>().prop_map(|i| CutSel::StoreError { i }),
        3 => any::<u16>().prop_map(|i| CutSel::Poll { i }),
        5 => any::<u16>().prop_map(|i| CutSel::Frame { i }),
        2 => any::<u16>().prop_map(|i| CutSel::Stop { i }),
        1 => Just(CutSel::Timeout),
    ]
}

fn map_cmd_body(map: u8, msg: MapMessage<i32, i64>) -> String {
    if map % 3 == 1 {
        let m: MapMessage<String, i64> = match msg {
            MapMessage::Update { key, value } => MapMessage::Update { key: m1_key(key), value },
            MapMessage::Remove { key } => MapMessage::Remove { key: m1_key(key) },
            _ => MapMessage::Clear,
        };
        format!("{}", print_recon_compact(&m))
    } else {
        format!("{}", print_recon_compact(&msg))
    }
}

fn build_case(mut params: SimParams, cascade: bool, gs: Vec<G>, gs2: Vec<G>, plan: CutPlan, small_alphabet: bool) -> Case {
    // unique values: a value identifies one position of an item's history
    let mut next = 1i64;
    let vseed = params.seed;
    let mut fresh = || {
        let v = next;
        next += 1;
        if small_alphabet {
            // pseudo-random but a pure function of the generated case
            let x = (vseed ^ (v as u64).wrapping_mul(0x9E3779B97F4A7C15)).wrapping_mul(0xD6E8FEB86659FD93);
            1 + ((x >> 33) % 3) as i64
        } else {
            v
        }
    };
    if gs.iter().chain(gs2.iter()).any(|g| matches!(g, G::Window { .. })) {
        params.inactive_timeout_ms = 300;
        params.attachment_queue = params.attachment_queue.min(2);
        if params.budget > 3 {
            params.budget = 2 + (params.seed & 1) as usize;
        }
    }
    let mut programs: Vec<Vec<Act>> = vec![];
    let mut convert = |gs: Vec<G>, ops: &mut Vec<Op>| {
        for g in gs {
            let op = match g {
                G::Twin { r, lane } => {
                    let x = fresh();
                    programs.push(vec![Act::SetS { store: 0, v: x }, Act::SetV { lane, v: x }]);
                    ops.push(Op::Link { r, lane });
                    ops.push(Op::Cmd { r, lane: CTL, body: (programs.len() - 1).to_string() });
                    ops.push(Op::Pump { r, n: usize::MAX });
                    ops.push(Op::Settle);
                    continue;
                }
                G::Window { r, lane, k, a, d, split, sets, http_last, steps } => {
                    let mut set_body = |fresh: &mut dyn FnMut() -> i64| {
                        if lane < 3 {
                            fresh().to_string()
                        } else {
                            map_cmd_body(lane - 3, MapMessage::Update { key: k, value: fresh() })
                        }
                    };
                    ops.push(Op::Link { r, lane });
                    ops.push(Op::Cmd { r, lane, body: set_body(&mut fresh) });
                    ops.push(Op::Settle);
                    ops.push(Op::Advance { ms: a });
                    if let Some((dh, e)) = http_last {
                        // variant C: the HTTP task casts the completing vote. `join4(att, ext_links, http, io)`
                        // polls the HTTP task before the read/write tasks and the attachment task first, so
                        // when the HTTP vote makes the stop unanimous the write task is polled in the same
                        // poll, before the attachment task can react: a lane event that is already in its
                        // channel is handled with an outstanding vote and a unanimous rescind.
                        let act = if lane < 3 {
                            Act::SetV { lane, v: fresh() }
                        } else {
                            Act::Upd { map: lane - 3, k, v: fresh() }
                        };
                        // t_c: control command (read activity) + its echo event (write activity)
                        let due = (300 + dh as i64 + e).max(1) as u64;
                        programs.push(vec![Act::Later { ms: due, act: Box::new(act) }]);
                        ops.push(Op::Cmd { r, lane: CTL, body: (programs.len() - 1).to_string() });
                        ops.push(Op::Pump { r, n: usize::MAX });
                        ops.push(Op::Settle);
                        // t_c + dh: an HTTP request (lane 8 = request for an unknown HTTP lane) re-arms the HTTP
                        // task's timeout only
                        ops.push(Op::Advance { ms: dh });
                        ops.push(Op::Cmd { r, lane: 8, body: String::new() });
                        ops.push(Op::Poll { k: 3 });
                        // t_c + 300: the read and write tasks vote
                        ops.push(Op::Advance { ms: 300 - dh });
                        ops.push(Op::Poll { k: 4 });
                        if e < 0 {
                            // the agent's change first (one poll: the event is now in the lane's channel) ...
                            ops.push(Op::Advance { ms: (dh as i64 + e).max(0) as u64 });
                            ops.push(Op::Poll { k: 1 });
                            // ... then the HTTP task's vote
                            ops.push(Op::Advance { ms: (-e) as u64 });
                        } else {
                            ops.push(Op::Advance { ms: dh + e as u64 });
                        }
                    } else if split {
                        // variant A: the agent changes the lane by itself (run_after) at about the
                        // instant at which the last of the three inactivity timers fires
                        let act = if lane < 3 {
                            Act::SetV { lane, v: fresh() }
                        } else {
                            Act::Upd { map: lane - 3, k, v: fresh() }
                        };
                        // t_c = now: the control command (read activity) and its echo event (write activity)
                        // restart both timers; read-only traffic d0 ms later makes the read task's timer the
                        // last one; the agent's own change is due at the same instant as the read task's vote
                        let d0 = 1 + (a % 40);
                        programs.push(vec![Act::Later { ms: 300 + d0, act: Box::new(act) }]);
                        ops.push(Op::Cmd { r, lane: CTL, body: (programs.len() - 1).to_string() });
                        ops.push(Op::Pump { r, n: usize::MAX });
                        ops.push(Op::Settle);
                        ops.push(Op::Advance { ms: d0 });
                        ops.push(Op::Cmd { r, lane: 7, body: "0".to_string() });
                        ops.push(Op::Pump { r, n: usize::MAX });
                        ops.push(Op::Poll { k: 3 });
                        // the write and HTTP tasks vote
                        ops.push(Op::Advance { ms: 300 - d0 });
                        ops.push(Op::Poll { k: 4 });
                        // the read task votes (unanimous) and the agent changes the lane
                        ops.push(Op::Advance { ms: d0 + (d % 3) });
                    } else {
                        // variant B: traffic that only the read task sees (lane 7 does not exist), the
                        // write and HTTP tasks vote, then a set and a command that stops the agent
                        ops.push(Op::Cmd { r, lane: 7, body: "0".to_string() });
                        ops.push(Op::Pump { r, n: usize::MAX });
                        ops.push(Op::Poll { k: 3 });
                        ops.push(Op::Advance { ms: 300 - a + d });
                        ops.push(Op::Poll { k: 4 });
                        // remote registrations occupy the write task's small message queue, so that the
                        // `Stop` that follows the agent's end reaches the read task first (its voter goes
                        // away = vote) while the write task still finds the lane event before `Stop`
                        for i in 0..(k as usize % 4) {
                            ops.push(Op::Attach { in_cap: 8, out_cap: [1usize, 8, 64][i % 3] });
                        }
                        for _ in 0..sets {
                            ops.push(Op::Cmd { r, lane, body: set_body(&mut fresh) });
                        }
                        programs.push(vec![Act::StopSelf]);
                        ops.push(Op::Cmd { r, lane: CTL, body: (programs.len() - 1).to_string() });
                        ops.push(Op::Pump { r, n: usize::MAX });
                    }
                    for (k, n) in steps {
                        ops.push(Op::Poll { k });
                        ops.push(Op::Read { r, n });
                    }
                    ops.push(Op::Settle);
                    continue;
                }
                G::Burst { r, lane, keys, other_syncer, steps } => {
                    for k in keys {
                        let body = if lane < 3 {
                            fresh().to_string()
                        } else {
                            map_cmd_body(lane - 3, MapMessage::Update { key: k, value: fresh() })
                        };
                        ops.push(Op::Cmd { r, lane, body });
                    }
                    let syncer = other_syncer.unwrap_or(r);
                    ops.push(Op::Sync { r: syncer, lane });
                    ops.push(Op::Pump { r, n: usize::MAX });
                    if syncer != r {
                        ops.push(Op::Pump { r: syncer, n: usize::MAX });
                    }
                    for (k, n) in steps {
                        ops.push(Op::Poll { k });
                        ops.push(Op::Read { r: syncer, n });
                    }
                    continue;
                }
                G::Attach { in_cap, out_cap } => Op::Attach { in_cap, out_cap },
                G::Link { r, lane } => Op::Link { r, lane },
                G::Sync { r, lane } => Op::Sync { r, lane },
                G::Unlink { r, lane } => Op::Unlink { r, lane },
                G::SetV { r, lane } => Op::Cmd { r, lane, body: fresh().to_string() },
                G::Upd { r, map, k } => Op::Cmd {
                    r,
                    lane: 3 + map,
                    body: map_cmd_body(map, MapMessage::Update { key: k, value: fresh() }),
                },
                G::Rem { r, map, k } => Op::Cmd { r, lane: 3 + map, body: map_cmd_body(map, MapMessage::Remove { key: k }) },
                G::Clr { r, map } => Op::Cmd { r, lane: 3 + map, body: map_cmd_body(map, MapMessage::Clear) },
                G::Prog { r, mut acts } => {
                    for a in acts.iter_mut() {
                        match a {
                            Act::SetV { v, .. } | Act::Upd { v, .. } | Act::SetS { v, .. } | Act::UpdS { v, .. } => *v = fresh(),
                            _ => {}
                        }
                    }
                    // each program is run by exactly one command, so its values stay unique
                    programs.push(acts);
                    Op::Cmd { r, lane: CTL, body: (programs.len() - 1).to_string() }
                }
                G::Drop { r } => Op::Drop { r },
                G::Sched(op) => op,
            };
            ops.push(op);
        }
    };
    // every case starts with a remote so that later ops have a target
    let mut ops = vec![Op::Attach { in_cap: 4096, out_cap: 32 }];
    convert(gs, &mut ops);
    // the history always ends with everything delivered; the cuts range over the whole run
    ops.push(Op::Settle);
    let mut ops2 = vec![];
    if !gs2.is_empty() {
        convert(gs2, &mut ops2);
        ops2.push(Op::Settle);
    }
    drop(convert);
    Case { params, cascade, programs, ops, ops2, plan, small_alphabet }
}

fn arb_case(max_ops: usize, ncuts: usize, all: bool) -> impl Strategy<Value = Case> {
    let plan = if all {
        Just(CutPlan::All).boxed()
    } else {
        proptest::collection::vec(arb_cutsel(), ncuts..=ncuts).prop_map(CutPlan::Sampled).boxed()
    };
    let second = prop_oneof![
        1 => Just(vec![]),
        1 => proptest::collection::vec(arb_g(), 1..(max_ops / 3).max(2)),
    ];
    let small = prop_oneof![3 => Just(false), 1 => Just(true)];
    let window = prop_oneof![5 => Just(None), 1 => arb_window().prop_map(Some)];
    (arb_params(), any::<bool>(), proptest::collection::vec(arb_g(), 3..max_ops), window, second, plan, small)
        .prop_map(|(params, cascade, mut gs, window, gs2, plan, small)| {
            gs.extend(window);
            build_case(params, cascade, gs, gs2, plan, small)
        })
}

// ---------------------------------------------------------------------------------------------
// Execution

struct Runner {
    sim: Sim,
    cut: Cut,
    frames: usize,
    polls0: u64,
    /// The cut happened (the system has been dropped).
    hit: bool,
}

impl Runner {
    fn crash(&mut self) {
        self.sim.crash();
        self.hit = true;
    }

    fn poll(&mut self, k: usize) -> usize {
        let mut n = 0;
        while n < k && !self.hit {
            let sim = &mut self.sim;
            match catch_unwind(AssertUnwindSafe(|| sim.poll(1))) {
                Ok(0) => break,
                Ok(_) => {
                    n += 1;
                    if let Cut::Poll(p) = self.cut {
                        if self.sim.polls - self.polls0 == p + 1 {
                            self.crash();
                        }
                    }
                    if self.sim.is_done() {
                        break;
                    }
                }
                Err(payload) => {
                    if payload.is::<InjectedFault>() {
                        // all tasks of the agent are killed at exactly the point of the store call
                        self.crash();
                        n += 1;
                    } else {
                        resume_unwind(payload);
                    }
                }
            }
        }
        n
    }

    fn read(&mut self, r: usize, max: usize) -> usize {
        if let Cut::Frame(f) = self.cut {
            // byte by byte so that the system can be dropped right after frame #f was read
            let mut total = 0;
            while total < max && !self.hit {
                let before = self.sim.remotes[r].frames.len();
                let n = self.sim.remotes[r].read(1);
                if n == 0 {
                    break;
                }
                total += n;
                let after = self.sim.remotes[r].frames.len();
                for _ in before..after {
                    self.frames += 1;
                    if self.frames == f + 1 {
                        self.crash();
                        break;
                    }
                }
            }
            total
        } else {
            let before = self.sim.remotes[r].frames.len();
            let n = self.sim.remotes[r].read(max);
            self.frames += self.sim.remotes[r].frames.len() - before;
            n
        }
    }

    fn settle(&mut self) {
        let mut rounds = 0u64;
        loop {
            if self.hit {
                return;
            }
            let mut progress = 0usize;
            let n = self.sim.remotes.len();
            for r in 0..n {
                progress += self.sim.remotes[r].pump(usize::MAX);
            }
            progress += self.poll(10_000);
            for r in 0..n {
                if self.hit {
                    return;
                }
                progress += self.read(r, usize::MAX);
            }
            if self.hit {
                return;
            }
            if progress == 0 && !(!self.sim.is_done() && self.sim.is_woken()) {
                break;
            }
            rounds += 1;
            if rounds > 100_000 {
                panic!("settle did not reach a fixpoint in 100000 rounds (livelock)");
            }
        }
    }

    async fn apply(&mut self, op: &Op) {
        let nrem = self.sim.remotes.len();
        let ridx = |r: u16| pick_index(r, nrem);
        let lane_name = |l: u8| if l == 7 { "nolane" } else { LANES[(l as usize) % LANES.len()] };
        match op {
            Op::Attach { in_cap, out_cap } => {
                self.sim.attach(*in_cap, *out_cap);
            }
            Op::Link { r, lane } if nrem > 0 => self.sim.remotes[ridx(*r)].send(lane_name(*lane), Req::Link),
            Op::Sync { r, lane } if nrem > 0 => self.sim.remotes[ridx(*r)].send(lane_name(*lane), Req::Sync),
            Op::Unlink { r, lane } if nrem > 0 => self.sim.remotes[ridx(*r)].send(lane_name(*lane), Req::Unlink),
            Op::Cmd { lane: 8, .. } => {
                // not an envelope: an HTTP request for a lane that does not exist
                self.sim.http_request("nolane");
            }
            Op::Cmd { r, lane, body } if nrem > 0 => {
                self.sim.remotes[ridx(*r)].send(lane_name(*lane), Req::Command(body.as_bytes().to_vec()))
            }
            Op::Pump { r, n } if nrem > 0 => {
                self.sim.remotes[ridx(*r)].pump(*n);
            }
            Op::Read { r, n } if nrem > 0 => {
                self.read(ridx(*r), *n);
            }
            Op::Poll { k } => {
                self.poll(*k);
            }
            Op::Settle => self.settle(),
            Op::Advance { ms } => self.sim.advance(Duration::from_millis(*ms)).await,
            Op::Drop { r } if nrem > 0 => self.sim.remotes[ridx(*r)].disconnect(),
            // a clean stop is a cut, not a history op
            _ => {}
        }
    }
}

/// What one incarnation of the agent did and showed.
struct PhaseObs {
    /// `Some` if the agent task had ended by itself before the incarnation was dropped.
    result: Option<Result<(), String>>,
    /// Frames read by each remote of this incarnation (all of them before it was dropped).
    remotes: Vec<Vec<Frame>>,
    trace: Vec<(u64, PEv)>,
    /// Number of store log entries when the incarnation was dropped.
    log_end: usize,
    /// Some remote was told `AgentTimedOut` (the reason only the unanimous stop-vote paths set).
    timed_out: bool,
}

struct RunObs {
    cut: Cut,
    /// The requested cut point was reached (otherwise the run degenerated to `End`).
    fired: bool,
    /// Stop / Timeout: the agent task completed by itself.
    completed: bool,
    /// (mutating store calls, frames read, system polls) during the history of incarnation 1.
    counts: (u64, usize, u64),
    phases: Vec<PhaseObs>,
    log: Vec<Entry>,
    ids: BTreeMap<String, u64>,
}

fn collect(sim: &mut Sim, shared: &Shared, data: &SharedData, crashed: bool) -> PhaseObs {
    let result = if crashed { None } else { sim.result.clone() };
    let remotes = sim.remotes.iter().map(|r| r.frames.clone()).collect();
    let timed_out = sim
        .remotes
        .iter_mut()
        .any(|r| matches!(r.disconnection_reason(), Some(Ok(reason)) if format!("{:?}", reason) == "AgentTimedOut"));
    // the system future (all tasks of the agent) is dropped here; the remotes go with the `Sim`
    sim.crash();
    let mut g = data.lock();
    g.fault = None;
    PhaseObs { result, remotes, trace: shared.trace(), log_end: g.log.len(), timed_out }
}

/// Start a further incarnation on the surviving store data: initialisation, then a new remote syncs
/// every lane and finally sends the probe command.
fn boot(case: &Case, shared: &Arc<Shared>, data: &SharedData, clock: &Arc<AtomicU64>, inc: u32) -> Sim {
    let agent = make_agent(shared.clone());
    let store = RecStore::new(data.clone(), clock.clone(), inc);
    let mut sim = Sim::start_with_store(&agent, &case.params, clock.clone(), None, store);
    sim.run_until_idle();
    let r = sim.attach(4096, 4096);
    for lane in &LANES[..6] {
        sim.remotes[r].send(lane, Req::Sync);
    }
    sim.settle();
    sim.remotes[r].send("ctl", Req::Command(b"-1".to_vec()));
    sim.settle();
    sim
}

fn execute(case: &Case, cut: Cut) -> RunObs {
    block_on_paused(case.params.seed, async {
        let clock = Arc::new(AtomicU64::new(1));
        let data: SharedData = SharedData::default();
        let mut phases = vec![];
        // ---- incarnation 1
        let shared = Shared::new(clock.clone(), case.programs.clone(), case.cascade);
        let agent = make_agent(shared.clone());
        let store = RecStore::new(data.clone(), clock.clone(), 1);
        let mut sim = Sim::start_with_store(&agent, &case.params, clock.clone(), None, store);
        // initialisation is not part of the history (and has its own 1 s timeouts)
        sim.run_until_idle();
        let base_mut = data.lock().mutations;
        if let Cut::StoreCall { n, after } = cut {
            data.lock().fault = Some(Fault { at: base_mut + n, after_apply: after, error: false });
        }
        if let Cut::StoreError(n) = cut {
            data.lock().fault = Some(Fault { at: base_mut + n, after_apply: false, error: true });
        }
        let polls0 = sim.polls;
        let mut run = Runner { sim, cut, frames: 0, polls0, hit: false };
        for (j, op) in case.ops.iter().enumerate() {
            if cut == Cut::Stop(j) {
                break;
            }
            run.apply(op).await;
            if run.hit {
                break;
            }
        }
        let mut fired = run.hit;
        let mut completed = false;
        if !run.hit {
            match cut {
                Cut::Stop(_) => {
                    run.sim.stop();
                    run.settle();
                    for _ in 0..4 {
                        if run.sim.is_done() {
                            break;
                        }
                        run.sim.advance(Duration::from_millis(case.params.shutdown_timeout_ms + 1)).await;
                        run.settle();
                    }
                    completed = run.sim.is_done();
                    fired = true;
                }
                Cut::Timeout => {
                    // all remotes keep reading (settle) so that the agent can finish unlinking
                    for _ in 0..10 {
                        if run.sim.is_done() {
                            break;
                        }
                        run.sim.advance(Duration::from_millis(case.params.inactive_timeout_ms + 1)).await;
                        run.settle();
                    }
                    completed = run.sim.is_done();
                    fired = true;
                }
                Cut::StoreError(_) => {
                    // the runtime fails by itself; give it time to shut down with all remotes reading
                    fired = data.lock().fired;
                    for _ in 0..4 {
                        if run.sim.is_done() {
                            break;
                        }
                        run.sim.advance(Duration::from_millis(case.params.shutdown_timeout_ms + 1)).await;
                        run.settle();
                    }
                    completed = run.sim.is_done();
                }
                Cut::End => fired = true,
                _ => {}
            }
        }
        let counts = (data.lock().mutations - base_mut, run.frames, run.sim.polls - polls0);
        // ---- the cut
        let crashed = run.hit;
        phases.push(collect(&mut run.sim, &shared, &data, crashed));
        drop(run);
        drop(agent);
        tokio::task::yield_now().await;

        // ---- incarnation 2: a fresh agent (new lifecycle state) on the surviving store data
        let shared2 = Shared::new(clock.clone(), case.programs.clone(), case.cascade);
        let mut sim2 = boot(case, &shared2, &data, &clock, 2);
        if case.ops2.is_empty() || sim2.is_done() {
            phases.push(collect(&mut sim2, &shared2, &data, false));
        } else {
            // a second history on the restored state, killed at quiescence
            let polls0 = sim2.polls;
            let mut run2 = Runner { sim: sim2, cut: Cut::End, frames: 0, polls0, hit: false };
            for op in &case.ops2 {
                run2.apply(op).await;
            }
            phases.push(collect(&mut run2.sim, &shared2, &data, false));
            drop(run2);
            tokio::task::yield_now().await;
            // ---- incarnation 3
            let shared3 = Shared::new(clock.clone(), vec![], case.cascade);
            let mut sim3 = boot(case, &shared3, &data, &clock, 3);
            phases.push(collect(&mut sim3, &shared3, &data, false));
        }
        let g = data.lock();
        RunObs { cut, fired, completed, counts, phases, log: g.log.clone(), ids: g.ids.clone() }
    })
}

// ---------------------------------------------------------------------------------------------
// Oracle

#[derive(Clone, Debug, PartialEq, Eq)]
enum TOp {
    Put(i64),
    Del,
    Upd(K, i64),
    Rem(K),
    Clr,
}

#[derive(Clone, Debug)]
struct TEntry {
    /// Index in the store log.
    pos: usize,
    seq: u64,
    applied: bool,
    op: TOp,
}

fn utf8(b: &[u8]) -> String {
    String::from_utf8_lossy(b).to_string()
}

fn parse_i64(b: &[u8]) -> Option<i64> {
    parse_recognize::<i64>(std::str::from_utf8(b).ok()?, false).ok()
}

fn parse_key(it: &ItemDef, b: &[u8]) -> Option<K> {
    let s = std::str::from_utf8(b).ok()?;
    if it.str_keys {
        parse_recognize::<String>(s, false).ok().map(K::S)
    } else {
        parse_recognize::<i32>(s, false).ok().map(K::I)
    }
}

/// Body of an event frame of a map lane.
fn parse_map_event(it: &ItemDef, b: &[u8]) -> Option<TOp> {
    let s = std::str::from_utf8(b).ok()?;
    if it.str_keys {
        match parse_recognize::<MapMessage<String, i64>>(s, false).ok()? {
            MapMessage::Update { key, value } => Some(TOp::Upd(K::S(key), value)),
            MapMessage::Remove { key } => Some(TOp::Rem(K::S(key))),
            MapMessage::Clear => Some(TOp::Clr),
            _ => None,
        }
    } else {
        match parse_recognize::<MapMessage<i32, i64>>(s, false).ok()? {
            MapMessage::Update { key, value } => Some(TOp::Upd(K::I(key), value)),
            MapMessage::Remove { key } => Some(TOp::Rem(K::I(key))),
            MapMessage::Clear => Some(TOp::Clr),
            _ => None,
        }
    }
}

fn show_call(c: &Call) -> String {
    match c {
        Call::IdFor(n) => format!("id_for({})", n),
        Call::GetValue(id) => format!("get_value({})", id),
        Call::ReadMap(id) => format!("read_map({})", id),
        Call::PutValue(id, b) => format!("put_value({}, {})", id, utf8(b)),
        Call::DeleteValue(id) => format!("delete_value({})", id),
        Call::UpdateMap(id, k, b) => format!("update_map({}, {}, {})", id, utf8(k), utf8(b)),
        Call::RemoveMap(id, k) => format!("remove_map({}, {})", id, utf8(k)),
        Call::ClearMap(id) => format!("clear_map({})", id),
    }
}

/// The mutating store calls for one item, decoded. Undecodable bytes are reported.
fn typed_log(it: &ItemDef, id: u64, log: &[Entry], v: &mut Verdict) -> Vec<TEntry> {
    let mut out = vec![];
    for (pos, e) in log.iter().enumerate() {
        if e.call.id() != Some(id) || !e.call.is_mutation() {
            continue;
        }
        let op = match &e.call {
            Call::PutValue(_, b) => parse_i64(b).map(TOp::Put),
            Call::DeleteValue(_) => Some(TOp::Del),
            Call::UpdateMap(_, k, val) => parse_key(it, k).and_then(|k| parse_i64(val).map(|x| TOp::Upd(k, x))),
            Call::RemoveMap(_, k) => parse_key(it, k).map(TOp::Rem),
            Call::ClearMap(_) => Some(TOp::Clr),
            _ => None,
        };
        let kind_ok = match &op {
            Some(TOp::Put(_)) | Some(TOp::Del) => !it.is_map,
            Some(_) => it.is_map,
            None => false,
        };
        match op {
            Some(op) if kind_ok => out.push(TEntry { pos, seq: e.seq, applied: e.applied, op }),
            _ => v.fail(
                "store-call-undecodable",
                format!("item {}: store call {} does not decode as an operation of this item", it.name, show_call(&e.call)),
            ),
        }
    }
    out
}

fn fold(it: &ItemDef, entries: &[TEntry]) -> St {
    let mut st = default_state(it);
    for e in entries.iter().filter(|e| e.applied) {
        match (&mut st, &e.op) {
            (St::V(x), TOp::Put(v)) => *x = *v,
            (St::V(x), TOp::Del) => *x = 0,
            (St::M(m), TOp::Upd(k, v)) => {
                m.insert(k.clone(), *v);
            }
            (St::M(m), TOp::Rem(k)) => {
                m.remove(k);
            }
            (St::M(m), TOp::Clr) => m.clear(),
            _ => {}
        }
    }
    st
}

/// What the first sync of `lane` by the probing remote of a restarted incarnation shows.
fn synced_state(it: &ItemDef, frames: &[Frame]) -> Result<St, String> {
    let mut st = default_state(it);
    let mut saw_event = false;
    let mut linked = false;
    for f in frames.iter().filter(|f| f.lane == it.name) {
        match &f.kind {
            FrameKind::Linked => linked = true,
            FrameKind::Unlinked(b) => return Err(format!("unlinked {:?}", b.as_ref().map(|b| utf8(b)))),
            FrameKind::Synced => {
                if !linked {
                    return Err("synced without linked".into());
                }
                if !it.is_map && !saw_event {
                    return Err("synced without a value".into());
                }
                return Ok(st);
            }
            FrameKind::Event(b) => {
                saw_event = true;
                if it.is_map {
                    match (parse_map_event(it, b), &mut st) {
                        (Some(TOp::Upd(k, v)), St::M(m)) => {
                            m.insert(k, v);
                        }
                        (Some(TOp::Rem(k)), St::M(m)) => {
                            m.remove(&k);
                        }
                        (Some(TOp::Clr), St::M(m)) => m.clear(),
                        _ => return Err(format!("undecodable map event {:?}", utf8(b))),
                    }
                } else {
                    match parse_i64(b) {
                        Some(x) => st = St::V(x),
                        None => return Err(format!("undecodable value event {:?}", utf8(b))),
                    }
                }
            }
        }
    }
    Err("no synced frame".into())
}

#[derive(Default)]
struct RunStats {
    nontrivial: bool,
    classes: Vec<&'static str>,
}

fn cut_class(obs: &RunObs) -> &'static str {
    if !obs.fired {
        return "cut:not-reached(end)";
    }
    match obs.cut {
        Cut::End => "cut:end",
        Cut::StoreCall { after: false, .. } => "cut:store-call-before-apply",
        Cut::StoreCall { after: true, .. } => "cut:store-call-after-apply",
        Cut::StoreError(_) => "cut:store-call-returns-error",
        Cut::Poll(_) => "cut:poll",
        Cut::Frame(_) => "cut:frame",
        Cut::Stop(_) => "cut:stop",
        Cut::Timeout => "cut:timeout",
    }
}

fn dump(obs: &RunObs, ctx: &str) {
    eprintln!("==== run {}", ctx);
    let mut next_log = 0;
    for (pi, ph) in obs.phases.iter().enumerate() {
        eprintln!("---- incarnation {} result {:?}", pi + 1, ph.result);
        for (i, frames) in ph.remotes.iter().enumerate() {
            for f in frames {
                eprintln!("remote {} frame: {} {} {:?} body={:?}", i, f.seq, f.lane, f.kind, f.body_str());
            }
        }
        for (s, e) in &ph.trace {
            eprintln!("trace {} {:?}", s, e);
        }
        for (i, e) in obs.log.iter().enumerate().take(ph.log_end).skip(next_log) {
            eprintln!("log[{}] seq={} inc={} applied={} {}", i, e.seq, e.inc, e.applied, show_call(&e.call));
        }
        next_log = ph.log_end;
    }
}

/// Observations of a restarted incarnation right after its start.
struct Restored<'a> {
    start: Option<(u64, &'a Snap)>,
    probe: Option<&'a Snap>,
    /// Frames of the probing remote (the first remote of the incarnation).
    frames: &'a [Frame],
}

fn judge(obs: &RunObs, v: &mut Verdict) -> RunStats {
    let mut stats = RunStats::default();
    if std::env::var("VERIF_DUMP").is_ok() {
        dump(obs, &format!("{:?}", obs.cut));
    }

    // decoded store log per item
    let mut typed: Vec<Vec<TEntry>> = vec![];
    for it in ITEMS.iter() {
        typed.push(match obs.ids.get(it.name) {
            Some(id) => typed_log(it, *id, &obs.log, v),
            None => vec![],
        });
        if !it.persistent && obs.ids.contains_key(it.name) {
            stats.classes.push("transient-item-known-to-store");
        }
    }

    let mut store_ops_before_cut = 0usize;
    let mut persistent_event_frames = 0usize;
    let mut lost_tail = false;
    let mut sync_ahead = false;
    let mut quiescent_published = false;

    for (pi, ph) in obs.phases.iter().enumerate() {
        let inc = pi + 1;
        let ctx = format!("[cut {:?} fired={} completed={} incarnation {}]", obs.cut, obs.fired, obs.completed, inc);
        let log_start = if pi == 0 { 0 } else { obs.phases[pi - 1].log_end };
        match (&ph.result, pi) {
            // requested by a generated program
            (Some(Err(_)), _) if ph.trace.iter().any(|(_, e)| matches!(e, PEv::Did(Act::Fail))) => {}
            // the injected store error is reported by the task
            (Some(Err(_)), 0) if matches!(obs.cut, Cut::StoreError(_)) && obs.fired => {}
            (Some(Err(e)), 0) => v.fail("agent-failed", format!("{} the agent task ended with an error: {}", ctx, e)),
            (Some(Err(e)), _) => {
                v.fail(
                    "restart:agent-failed",
                    format!("{} the restarted agent failed during initialisation / sync / its history: {}", ctx, e),
                );
                break;
            }
            (Some(Ok(())), _) if !(pi == 0 && matches!(obs.cut, Cut::Stop(_) | Cut::Timeout)) => {
                // a handler stopped the agent, or (rare) 30 s passed without activity in a long history
                stats.classes.push("agent-ended-by-itself");
            }
            _ => {}
        }

        // ---- what this incarnation showed right after its start (restarted incarnations only)
        let mine = if pi > 0 {
            let start = ph.trace.iter().find_map(|(s, e)| match e {
                PEv::Start(snap) => Some((*s, snap)),
                _ => None,
            });
            let probe = ph.trace.iter().find_map(|(_, e)| match e {
                PEv::Probe(snap) => Some(snap),
                _ => None,
            });
            // on_start is the first handler of the incarnation and ran exactly once
            let starts = ph.trace.iter().filter(|(_, e)| matches!(e, PEv::Start(_))).count();
            if starts != 1 || !matches!(ph.trace.first(), Some((_, PEv::Start(_)))) {
                v.fail(
                    "restart:on-start-order",
                    format!("{} on_start of the restarted agent ran {} times / was not the first handler", ctx, starts),
                );
            }
            if let Some((s, _)) = start {
                // ... and after the stored state of every item had been read
                if let Some(late) = obs.log[log_start..ph.log_end]
                    .iter()
                    .find(|e| matches!(e.call, Call::GetValue(_) | Call::ReadMap(_)) && e.seq > s)
                {
                    v.fail(
                        "restart:on-start-before-init",
                        format!("{} on_start ran at seq {} but {} happened at seq {}", ctx, s, show_call(&late.call), late.seq),
                    );
                }
            }
            if probe.is_none() {
                v.fail("restart:no-probe", format!("{} the restarted agent did not answer the probe command", ctx));
            }
            Some(Restored { start, probe, frames: ph.remotes.first().map(|f| f.as_slice()).unwrap_or(&[]) })
        } else {
            None
        };
        // ---- what the next incarnation showed (the state restored from what this one left)
        let next = obs.phases.get(pi + 1).map(|n| Restored {
            start: n.trace.iter().find_map(|(s, e)| match e {
                PEv::Start(snap) => Some((*s, snap)),
                _ => None,
            }),
            probe: None,
            frames: n.remotes.first().map(|f| f.as_slice()).unwrap_or(&[]),
        });

        for (ii, it) in ITEMS.iter().enumerate() {
            let all = &typed[ii];
            // operations handed over before this incarnation started / by this incarnation
            let before: Vec<TEntry> = all.iter().filter(|e| e.pos < log_start).cloned().collect();
            let entries: Vec<TEntry> = all.iter().filter(|e| e.pos >= log_start && e.pos < ph.log_end).cloned().collect();
            let initial = if it.persistent { fold(it, &before) } else { default_state(it) };
            if pi == 0 && it.persistent {
                store_ops_before_cut += entries.iter().filter(|e| e.applied).count();
            }

            // ---- restart: the state of the item at the start of a restarted incarnation
            if let Some(mine) = &mine {
                let what = match (it.persistent, it.is_lane, it.is_map) {
                    (true, true, false) => "restart:value-lane",
                    (true, true, true) => "restart:map-lane",
                    (true, false, false) => "restart:value-store",
                    (true, false, true) => "restart:map-store",
                    (false, true, false) => "restart:transient-value-lane-not-default",
                    (false, true, true) => "restart:transient-map-lane-not-default",
                    (false, false, false) => "restart:transient-value-store-not-default",
                    (false, false, true) => "restart:transient-map-store-not-default",
                };
                let describe = |seen_by: &str, got: &St| {
                    format!(
                        "{} item {}: {} shows {:?} after the restart but the store operations handed over before the cut imply {:?}; operations of this item before the cut: {:?}",
                        ctx,
                        it.name,
                        seen_by,
                        got,
                        initial,
                        before.iter().map(|e| (e.seq, e.applied, &e.op)).collect::<Vec<_>>()
                    )
                };
                if let Some(got) = mine.start.and_then(|(_, s)| snap_state(s, it)) {
                    if got != initial {
                        v.fail(format!("{}/on_start", what), describe("on_start", &got));
                    }
                }
                if let Some(got) = mine.probe.and_then(|s| snap_state(s, it)) {
                    if got != initial {
                        v.fail(format!("{}/probe", what), describe("the probe after the sync", &got));
                    }
                }
                if it.is_lane {
                    match synced_state(it, mine.frames) {
                        Ok(got) => {
                            if got != initial {
                                v.fail(format!("{}/sync", what), describe("the sync by a new remote", &got));
                            }
                        }
                        Err(e) => v.fail(
                            "restart:sync-incomplete",
                            format!("{} lane {}: the sync by the new remote did not complete: {}", ctx, it.name, e),
                        ),
                    }
                }
                if pi == 1 && initial != default_state(it) {
                    stats.classes.push(if it.is_map { "restored-nonempty-map" } else { "restored-nondefault-value" });
                }
            }

            if !(it.persistent && it.is_lane) {
                if pi == 0 && it.persistent && !entries.is_empty() {
                    stats.classes.push("store-item-persisted");
                }
                continue;
            }
            // the state the next incarnation came back with (sync by its probing remote, else on_start)
            let restored: Option<St> = next.as_ref().and_then(|n| {
                synced_state(it, n.frames).ok().or_else(|| n.start.and_then(|(_, s)| snap_state(s, it)))
            });
            let expected_after = {
                let mut upto = before.clone();
                upto.extend(entries.iter().cloned());
                fold(it, &upto)
            };
            let show_entries = || entries.iter().map(|e| (e.seq, &e.op)).collect::<Vec<_>>();

            // ---- order: frames of a persistent lane vs the store log of this incarnation
            // ---- never-older: restored state vs what subscribers saw, in the lane's own history
            if it.is_map {
                let St::M(init_map) = &initial else { continue };
                // per key history of the lane (index 0 = the state the incarnation started with)
                let mut keys: BTreeSet<K> = init_map.keys().cloned().collect();
                for (_, e) in &ph.trace {
                    if let PEv::Update { map, k, .. } | PEv::Remove { map, k } = e {
                        if *map == it.trace_idx {
                            keys.insert(k.clone());
                        }
                    }
                }
                let mut hist: BTreeMap<K, Vec<Option<i64>>> =
                    keys.iter().map(|k| (k.clone(), vec![init_map.get(k).copied()])).collect();
                let mut final_map = init_map.clone();
                for (_, e) in &ph.trace {
                    match e {
                        PEv::Update { map, k, v } if *map == it.trace_idx => {
                            hist.get_mut(k).unwrap().push(Some(*v));
                            final_map.insert(k.clone(), *v);
                        }
                        PEv::Remove { map, k } if *map == it.trace_idx => {
                            hist.get_mut(k).unwrap().push(None);
                            final_map.remove(k);
                        }
                        PEv::Clear { map } if *map == it.trace_idx => {
                            for h in hist.values_mut() {
                                h.push(None);
                            }
                            final_map.clear();
                        }
                        _ => {}
                    }
                }
                if pi == 0 && St::M(final_map) != expected_after {
                    lost_tail = true;
                }
                let mut seen_max: BTreeMap<K, usize> = BTreeMap::new();
                for (ri, frames) in ph.remotes.iter().enumerate() {
                    // positions in `entries` (log order) below which the remote's knowledge cannot lie
                    let mut floor_key: HashMap<K, usize> = HashMap::new();
                    let mut floor_all = 0usize;
                    let mut seen: BTreeMap<K, usize> = BTreeMap::new();
                    for f in frames.iter().filter(|f| f.lane == it.name) {
                        let FrameKind::Event(body) = &f.kind else { continue };
                        if pi == 0 {
                            persistent_event_frames += 1;
                        }
                        let Some(op) = parse_map_event(it, body) else {
                            continue; // not a map operation: C02/C04 territory
                        };
                        let recorded = |e: &TEntry| e.applied && e.seq < f.seq;
                        match &op {
                            TOp::Upd(k, val) => {
                                match entries.iter().position(|e| e.op == op && recorded(e)) {
                                    Some(p) => {
                                        let fl = floor_key.entry(k.clone()).or_insert(0);
                                        *fl = (*fl).max(p + 1);
                                    }
                                    // an entry the incarnation started with is implied by the store as it was
                                    None if init_map.get(k) == Some(val) => {}
                                    None => v.fail(
                                        "order:map-update-frame-before-store",
                                        format!(
                                            "{} remote {} read the event {:?} of lane {} at seq {} but no update_map with that entry was recorded before it; store operations of the lane in this incarnation: {:?}",
                                            ctx, ri, utf8(body), it.name, f.seq, show_entries()
                                        ),
                                    ),
                                }
                                if let Some(h) = hist.get(k) {
                                    if let Some(i) = h.iter().position(|s| *s == Some(*val)) {
                                        seen.insert(k.clone(), i);
                                    }
                                }
                            }
                            TOp::Rem(k) => {
                                let start = floor_all.max(floor_key.get(k).copied().unwrap_or(0));
                                match entries.iter().enumerate().skip(start).find(|(_, e)| e.op == op && recorded(e)) {
                                    Some((p, _)) => {
                                        floor_key.insert(k.clone(), p + 1);
                                    }
                                    None => v.fail(
                                        "order:map-remove-frame-before-store",
                                        format!(
                                            "{} remote {} read the event {:?} of lane {} at seq {} but no remove_map for the key (newer than what the remote had seen: position >= {} among the lane's store operations) was recorded before it; store operations of the lane in this incarnation: {:?}",
                                            ctx, ri, utf8(body), it.name, f.seq, start, show_entries()
                                        ),
                                    ),
                                }
                                if let Some(h) = hist.get(k) {
                                    let from = seen.get(k).copied().unwrap_or(0);
                                    if let Some(i) = h.iter().enumerate().skip(from + 1).find(|(_, s)| s.is_none()).map(|(i, _)| i) {
                                        seen.insert(k.clone(), i);
                                    }
                                }
                            }
                            TOp::Clr => {
                                match entries.iter().enumerate().skip(floor_all).find(|(_, e)| e.op == TOp::Clr && recorded(e)) {
                                    Some((p, _)) => floor_all = p + 1,
                                    None => v.fail(
                                        "order:map-clear-frame-before-store",
                                        format!(
                                            "{} remote {} read a clear event of lane {} at seq {} but no clear_map (position >= {} among the lane's store operations) was recorded before it; store operations of the lane in this incarnation: {:?}",
                                            ctx, ri, it.name, f.seq, floor_all, show_entries()
                                        ),
                                    ),
                                }
                                for (k, h) in hist.iter() {
                                    let from = seen.get(k).copied().unwrap_or(0);
                                    if let Some(i) = h.iter().enumerate().skip(from + 1).find(|(_, s)| s.is_none()).map(|(i, _)| i) {
                                        seen.insert(k.clone(), i);
                                    }
                                }
                            }
                            _ => {}
                        }
                    }
                    for (k, i) in seen {
                        let e = seen_max.entry(k).or_insert(0);
                        *e = (*e).max(i);
                    }
                }
                if let Some(St::M(restored)) = &restored {
                    for (k, i) in &seen_max {
                        let h = &hist[k];
                        let ok = match restored.get(k) {
                            // a value the lane never held is reported by the restart rule
                            Some(w) => h.iter().rposition(|s| *s == Some(*w)).map(|j| j >= *i).unwrap_or(true),
                            None => h.iter().skip(*i).any(|s| s.is_none()),
                        };
                        if !ok {
                            // classify the cause: the entry the subscriber saw was handed to the store
                            // *ahead of* a clear that precedes it in the lane's own history (so the
                            // clear, persisted afterwards, wiped the newer entry from the store)
                            let mut sig = "restart:older-than-seen:map-lane".to_string();
                            if let Some(Some(v_seen)) = h.get(*i) {
                                let upd_seq = ph.trace.iter().find_map(|(s, e)| match e {
                                    PEv::Update { map, k: kk, v } if *map == it.trace_idx && kk == k && v == v_seen => Some(*s),
                                    _ => None,
                                });
                                let pos = entries.iter().position(|e| e.applied && e.op == TOp::Upd(k.clone(), *v_seen));
                                if let (Some(us), Some(p)) = (upd_seq, pos) {
                                    let clears_in_lane_before = ph
                                        .trace
                                        .iter()
                                        .filter(|(s, e)| matches!(e, PEv::Clear { map } if *map == it.trace_idx) && *s < us)
                                        .count();
                                    let clears_in_store_before = entries[..p].iter().filter(|e| e.op == TOp::Clr).count();
                                    if clears_in_store_before < clears_in_lane_before {
                                        sig.push_str("/entry-persisted-ahead-of-earlier-clear");
                                    }
                                }
                            }
                            v.fail(
                                sig,
                                format!(
                                    "{} lane {} key {:?}: the entry restored by the next incarnation, {:?}, is older than history index {} which a subscriber had already read; history of the key: {:?}; store operations of the lane in this incarnation: {:?}",
                                    ctx, it.name, k, restored.get(k), i, h, show_entries()
                                ),
                            );
                        }
                    }
                }
            } else {
                let St::V(init_val) = &initial else { continue };
                let mut hist: Vec<i64> = vec![*init_val];
                for (_, e) in &ph.trace {
                    if let PEv::Value { lane, v } = e {
                        if *lane == it.trace_idx {
                            hist.push(*v);
                        }
                    }
                }
                if pi == 0 && St::V(*hist.last().unwrap()) != expected_after {
                    lost_tail = true;
                }
                // ---- quiescence (does not need unique values): the incarnation ran to quiescence with
                // the agent alive, and some remote read, after the lane's last change, an event carrying
                // the lane's final value as its last event: the published final state must be the state
                // the store holds (frames are delivered in order, so that frame is not older than the
                // last change; whatever was handed over after it carries the same final value)
                let quiescent = ph.result.is_none()
                    && ((pi == 0 && obs.cut == Cut::End && obs.fired) || (pi == 1 && obs.phases.len() == 3))
                    && !ph.trace.iter().any(|(_, e)| matches!(e, PEv::Did(Act::Fail) | PEv::Did(Act::StopSelf)));
                let last_set = ph.trace.iter().rev().find_map(|(s, e)| match e {
                    PEv::Value { lane, v } if *lane == it.trace_idx => Some((*s, *v)),
                    _ => None,
                });
                if let (true, Some((set_seq, fin))) = (quiescent, last_set) {
                    let published = ph.remotes.iter().any(|frames| {
                        frames
                            .iter()
                            .rev()
                            .find(|f| f.lane == it.name && matches!(f.kind, FrameKind::Event(_)))
                            .map(|f| f.seq > set_seq && matches!(&f.kind, FrameKind::Event(b) if parse_i64(b) == Some(fin)))
                            .unwrap_or(false)
                    });
                    if published {
                        quiescent_published = true;
                        if expected_after != St::V(fin) {
                            v.fail(
                                "quiescence:published-final-state-not-in-store:value-lane",
                                format!(
                                    "{} lane {}: at quiescence a remote had read the lane's final value {} (set at seq {}) but the store operations handed over imply {:?}; store operations of the lane in this incarnation: {:?}; history {:?}",
                                    ctx, it.name, fin, set_seq, expected_after, show_entries(), hist
                                ),
                            );
                        }
                    }
                }
                let mut seen_max = 0usize;
                for (ri, frames) in ph.remotes.iter().enumerate() {
                    // generator-distribution class: a sync response (the last event before a `synced`)
                    // that was read while the only store call for its state was the one made for the
                    // sync response itself, i.e. the lane answered the sync *before* it broadcast that
                    // state and the remote read the frame before the broadcast event was persisted
                    let mut last_event: Option<&Frame> = None;
                    for f in frames.iter().filter(|f| f.lane == it.name) {
                        match &f.kind {
                            FrameKind::Event(_) => last_event = Some(f),
                            FrameKind::Synced => {
                                if let Some(val) = last_event.and_then(|e| match &e.kind {
                                    FrameKind::Event(b) => parse_i64(b).map(|x| (x, e.seq)),
                                    _ => None,
                                }) {
                                    let (x, t) = val;
                                    let puts_before = entries.iter().filter(|e| e.op == TOp::Put(x) && e.seq < t).count();
                                    if hist.iter().position(|h| *h == x).unwrap_or(0) > 0 && puts_before == 1 {
                                        sync_ahead = true;
                                    }
                                }
                                last_event = None;
                            }
                            _ => last_event = None,
                        }
                    }
                    for f in frames.iter().filter(|f| f.lane == it.name) {
                        let FrameKind::Event(body) = &f.kind else { continue };
                        if pi == 0 {
                            persistent_event_frames += 1;
                        }
                        let Some(val) = parse_i64(body) else {
                            continue; // not a value of the lane: C01/C04 territory
                        };
                        let Some(i) = hist.iter().position(|x| *x == val) else {
                            continue; // not a value the lane held: C01 territory
                        };
                        // the state implied by the store log strictly before the read must be at least as
                        // new as the frame's state (index 0 = the state the incarnation started with,
                        // implied by the store as it was)
                        let implied = entries
                            .iter()
                            .filter(|e| e.applied && e.seq < f.seq)
                            .filter_map(|e| match &e.op {
                                TOp::Put(x) => hist.iter().position(|h| h == x),
                                _ => None,
                            })
                            .max()
                            .unwrap_or(0);
                        if implied < i {
                            v.fail(
                                "order:value-frame-before-store",
                                format!(
                                    "{} remote {} read the event {} (history index {}) of lane {} at seq {} but the newest state handed to the store before that has history index {}; store operations of the lane in this incarnation: {:?}; history {:?}",
                                    ctx, ri, val, i, it.name, f.seq, implied, show_entries(), hist
                                ),
                            );
                        }
                        seen_max = seen_max.max(i);
                    }
                }
                if let Some(St::V(w)) = &restored {
                    if let Some(j) = hist.iter().rposition(|x| x == w) {
                        if j < seen_max {
                            v.fail(
                                "restart:older-than-seen:value-lane",
                                format!(
                                    "{} lane {}: the value restored by the next incarnation, {} (history index {}), is older than index {} which a subscriber had already read; history: {:?}",
                                    ctx, it.name, w, j, seen_max, hist
                                ),
                            );
                        }
                    }
                }
            }
        }
    }

    let first = &obs.phases[0];
    let mutations = first
        .trace
        .iter()
        .filter(|(_, e)| matches!(e, PEv::Value { .. } | PEv::Update { .. } | PEv::Remove { .. } | PEv::Clear { .. } | PEv::Did(_)))
        .count();
    stats.nontrivial = store_ops_before_cut >= 1 && persistent_event_frames >= 1 && mutations >= 3;
    stats.classes.push(cut_class(obs));
    if quiescent_published {
        stats.classes.push("final-value-published-at-quiescence");
    }
    if sync_ahead {
        stats.classes.push("value-sync-response-read-before-its-state-was-broadcast");
    }
    if lost_tail {
        stats.classes.push("lane-newer-than-store-at-cut");
        if obs.completed && matches!(obs.cut, Cut::Stop(_) | Cut::Timeout) {
            stats.classes.push("lane-newer-than-store-after-clean-stop/timeout");
            // not part of the property (only what was handed over must come back); C05_FLAG_LOST_TAIL=1
            // turns it into a failure so that a minimal example can be obtained by shrinking
            if std::env::var("C05_FLAG_LOST_TAIL").is_ok() {
                v.fail(
                    "observation:clean-stop-lost-tail",
                    format!("[cut {:?}] after a completed clean stop / timeout a persistent lane held a newer state than the store", obs.cut),
                );
            }
        }
    }
    if matches!(obs.cut, Cut::Stop(_) | Cut::Timeout) && !obs.completed {
        stats.classes.push("stop/timeout-did-not-complete");
    }
    if first.remotes.len() >= 2 {
        stats.classes.push("remotes>=2");
    }
    let log1 = &obs.log[..first.log_end];
    if log1.iter().any(|e| matches!(e.call, Call::RemoveMap(..))) {
        stats.classes.push("remove-persisted");
    }
    if log1.iter().any(|e| matches!(e.call, Call::ClearMap(..))) {
        stats.classes.push("clear-persisted");
    }
    if first.trace.iter().any(|(_, e)| matches!(e, PEv::ProgBegin { .. })) {
        stats.classes.push("handler-programs");
    }
    if first.trace.iter().any(|(_, e)| matches!(e, PEv::Did(Act::Fail))) {
        stats.classes.push("handler-failed-the-agent");
    }
    if first.trace.iter().any(|(_, e)| matches!(e, PEv::Did(Act::Abort))) {
        stats.classes.push("handler-aborted-with-error");
    }
    if first.trace.iter().any(|(_, e)| matches!(e, PEv::Did(Act::StopSelf))) {
        stats.classes.push("handler-stopped-the-agent");
        if first.timed_out && !matches!(obs.cut, Cut::Timeout) {
            stats.classes.push("handler-stopped-the-agent-and-stop-vote-was-unanimous");
        }
    }
    if first.timed_out {
        stats.classes.push("remote-told-agent-timed-out");
        if obs.cut != Cut::Timeout {
            stats.classes.push("agent-timed-out-during-the-history");
        }
    }
    if obs.phases.len() == 3 {
        stats.classes.push("second-history+third-incarnation");
        if obs.log[obs.phases[0].log_end..obs.phases[1].log_end].iter().any(|e| e.call.is_mutation() && matches!(e.call, Call::RemoveMap(..) | Call::ClearMap(..))) {
            stats.classes.push("second-history-removes/clears-restored-state");
        }
    }
    stats
}

fn check(case: &Case) -> Verdict {
    let mut v = Verdict::new();
    let mut bulk = Bulk::default();
    let mut classes: BTreeMap<&'static str, u64> = BTreeMap::new();
    let mut account = |obs: &RunObs, v: &mut Verdict, bulk: &mut Bulk| {
        let mut st = judge(obs, v);
        if case.small_alphabet {
            st.classes.push("small-value-alphabet");
        }
        if case.params.inactive_timeout_ms == 300 {
            st.classes.push("stop-vote-window");
            if case.ops.iter().any(|op| matches!(op, Op::Cmd { lane: 8, .. })) {
                st.classes.push("stop-vote-window:http-task-votes-last");
                // the agent's own change (the `Later` handler of the window) happened and the agent then
                // timed out: the change fell into the window around the completing vote
                let later_ran = obs.phases[0].timed_out
                    && obs.phases[0].trace.iter().rev().take(3).any(|(_, e)| matches!(e, PEv::Value { .. } | PEv::Update { .. }));
                if later_ran {
                    st.classes.push("stop-vote-window:own-change-right-before-unanimous-timeout");
                }
            }
        }
        bulk.evaluations += 1;
        if st.nontrivial {
            bulk.distinct_nontrivial += 1;
        }
        let mut seen = BTreeSet::new();
        for c in st.classes {
            if seen.insert(c) {
                *classes.entry(c).or_default() += 1;
            }
        }
    };
    // reference run: the whole history, killed at quiescence; also gives the number of cut points
    let reference = execute(case, Cut::End);
    account(&reference, &mut v, &mut bulk);
    let (n_store, n_frames, n_polls) = reference.counts;
    let n_ops = case.ops.len();
    let mut cuts: Vec<Cut> = vec![];
    match &case.plan {
        CutPlan::Sampled(sels) => {
            for s in sels {
                cuts.push(match s {
                    CutSel::StoreCall { i, after } if n_store > 0 => {
                        Cut::StoreCall { n: pick_index(*i, n_store as usize) as u64, after: *after }
                    }
                    CutSel::StoreError { i } if n_store > 0 => Cut::StoreError(pick_index(*i, n_store as usize) as u64),
                    CutSel::Poll { i } if n_polls > 0 => Cut::Poll(pick_index(*i, n_polls as usize) as u64),
                    CutSel::Frame { i } if n_frames > 0 => Cut::Frame(pick_index(*i, n_frames)),
                    CutSel::Stop { i } => Cut::Stop(pick_index(*i, n_ops) + 1),
                    CutSel::Timeout => Cut::Timeout,
                    _ => continue,
                });
            }
        }
        CutPlan::All => {
            // the counts of another execution of the same history can differ slightly (select order
            // inside the runtime): two extra indices cover a longer run, unreached ones are counted
            for n in 0..n_store + 2 {
                cuts.push(Cut::StoreCall { n, after: false });
                cuts.push(Cut::StoreCall { n, after: true });
                cuts.push(Cut::StoreError(n));
            }
            for f in 0..n_frames + 2 {
                cuts.push(Cut::Frame(f));
            }
            for j in 1..=n_ops {
                cuts.push(Cut::Stop(j));
            }
            let step = (n_polls / 12).max(1);
            let mut p = 0;
            while p < n_polls {
                cuts.push(Cut::Poll(p));
                p += step;
            }
            cuts.push(Cut::Timeout);
        }
    }
    let mut done: BTreeSet<Cut> = BTreeSet::new();
    done.insert(Cut::End);
    for cut in cuts {
        // distinct cut points only: an evaluation is one distinct (history, cut) pair
        if !done.insert(cut) {
            continue;
        }
        let obs = execute(case, cut);
        account(&obs, &mut v, &mut bulk);
        vcommon::tick();
    }
    bulk.classes = classes.into_iter().collect();
    v.bulk = Some(bulk);
    v
}

fn main() {
    let args: Vec<String> = std::env::args().skip(1).collect();
    let mut ctx = Ctx::new("C05", &args);
    ctx.rule(
        "histories = op lists (attach/link/sync/unlink/drop remote, commands to 2 persistent + 1 transient value lane and 2 persistent + \
         1 transient map lane (colliding keys, update/remove/clear), handler programs that also set persistent and transient value/map \
         stores, bursts = 2-4 sets of one persistent lane + a sync of it delivered together and then polled in steps of 1-2 with the \
         syncing remote reading in between, schedule ops: remote writes/reads <=n bytes, poll system <=k, settle, advance) with 1-4 remotes, channel capacities \
         1..4096 bytes, generated lane buffers / coop budget / select seed; each history is executed once per cut point: panic inside \
         mutating store call #n (before or after it took effect), drop after system poll #p, drop right after remote frame #f was read, \
         clean stop after op #j, inactivity timeout, kill at quiescence; then restart on the surviving store (half of the histories \
         continue with a second history on the restored state, a kill at quiescence and a third incarnation). One evaluation = one \
         (history, cut) execution incl. restart(s). Non-trivial = at the cut >=1 store operation had been applied, >=1 event frame of a \
         persistent lane had been read by a remote, and the history made >=3 mutations. quick: 6 sampled cut points per history plus a \
         small batch with all cuts; thorough (level fault_enumeration): every store-call cut (both fault modes), every frame cut and a \
         clean stop after every op of every history of the all-cuts batch, a spread of poll cuts, and the timeout.",
    );
    ctx.assume("the agent-side on_event/on_update/on_remove/on_clear trace is the ground truth for the order of a lane's states (ranks value-lane states in the order rule, and all states in the never-older rule)");
    ctx.assume("the harness store applies an operation atomically; a fault injected before the operation is applied counts as not handed over for the restart fold, one injected after as handed over");
    ctx.assume("single-threaded harness-owned schedule: cut points are poll boundaries, store calls and frame reads, not arbitrary instructions");
    // both tiers enumerate crash points: quick enumerates every cut of a small batch of histories and samples
    // cuts for the rest; thorough enumerates every cut of a large batch
    ctx.level("fault_enumeration");
    let max_ops = ctx.pick(40, 70);
    // development override: C05_SCALE=<percent> scales the case counts
    let scale: u64 = std::env::var("C05_SCALE").ok().and_then(|s| s.parse().ok()).unwrap_or(100);
    let n_sampled = (ctx.pick(80_000u64, 1_200_000) * scale / 100).max(16);
    ctx.prop("sampled-cuts", n_sampled, move || arb_case(max_ops, 6, false), check);
    let n_all = (ctx.pick(600u64, 60_000) * scale / 100).max(16);
    ctx.prop("all-cuts", n_all, move || arb_case(max_ops, 0, true), check);
    // minimal agent (one value lane + one value store: their runtime item ids coincide), value alphabet {1,2,3}
    let n_twin = (ctx.pick(40_000u64, 1_000_000) * scale / 100).max(16);
    let twin_ops = ctx.pick(30, 50);
    ctx.prop("twin-items", n_twin, move || mini::arb_mini(twin_ops), mini::check);
    // lanes whose values can serialise to the empty byte string (Option<i64>)
    let n_opt = (ctx.pick(25_000u64, 600_000) * scale / 100).max(16);
    ctx.prop("optional-values", n_opt, move || opt::arb_opt(twin_ops), opt::check);
    // a persistent value lane registered after the agent has started (raw `Agent` implementation)
    let n_late = (ctx.pick(40_000u64, 1_000_000) * scale / 100).max(16);
    ctx.prop("late-lane", n_late, move || late::arb_late(twin_ops), late::check);
    ctx.finish();
}
