//! The agent used by C05: persistent and transient value/map lanes, persistent and transient value/map
//! stores and a control lane that runs harness-supplied programs. The lifecycle records every lane
//! state change with the global sequence number, and records a snapshot of every item in `on_start`
//! (this is how "on_start ran after initialisation" is observed) and on the probe command.

use parking_lot::Mutex;
use serde::{Deserialize, Serialize};
use std::collections::{BTreeMap, HashMap};
use std::sync::atomic::{AtomicU64, Ordering};
use std::sync::Arc;
use swimos::agent::agent_lifecycle::HandlerContext;
use swimos::agent::agent_model::AgentModel;
use swimos::agent::event_handler::{
    ActionContext, EventHandler, HandlerAction, HandlerActionExt, Sequentially, StepResult,
};
use swimos::agent::lanes::{CommandLane, MapLane, ValueLane};
use swimos::agent::stores::{MapStore, ValueStore};
use swimos::agent::{lifecycle, projections, AgentLaneModel};
use swimos_agent::AgentMetadata;

pub const CASCADE_OFFSET: i64 = 1_000_000_000;

#[projections]
#[derive(AgentLaneModel)]
pub struct PAgent {
    v0: ValueLane<i64>,
    v1: ValueLane<i64>,
    #[item(transient)]
    vt: ValueLane<i64>,
    m0: MapLane<i32, i64>,
    m1: MapLane<String, i64, BTreeMap<String, i64>>,
    #[item(transient)]
    mt: MapLane<i32, i64>,
    ctl: CommandLane<i32>,
    vs: ValueStore<i64>,
    #[item(transient)]
    vst: ValueStore<i64>,
    ms: MapStore<i32, i64>,
    #[item(transient)]
    mst: MapStore<i32, i64>,
}

/// Key of `m1` for the integer `k` (m1 is keyed by strings; includes keys that need quoting).
pub fn m1_key(k: i32) -> String {
    vsim::agent::m1_key(k)
}

#[derive(Clone, Debug, PartialEq, Eq, PartialOrd, Ord, Hash, Serialize, Deserialize)]
pub enum K {
    I(i32),
    S(String),
}

#[derive(Clone, Debug, PartialEq, Eq, Serialize, Deserialize)]
pub enum Act {
    /// lane: 0 = v0, 1 = v1, 2 = vt
    SetV { lane: u8, v: i64 },
    /// map: 0 = m0, 1 = m1, 2 = mt
    Upd { map: u8, k: i32, v: i64 },
    Rem { map: u8, k: i32 },
    Clr { map: u8 },
    /// store: 0 = vs, 1 = vst (transient)
    SetS { store: u8, v: i64 },
    /// store: 0 = ms, 1 = mst (transient)
    UpdS { store: u8, k: i32, v: i64 },
    RemS { store: u8, k: i32 },
    ClrS { store: u8 },
    /// The handler instructs the agent to stop (clean stop from inside).
    StopSelf,
    /// Run `act` after `ms` milliseconds (`run_after`): a lane change that the agent makes by itself,
    /// without any inbound traffic.
    Later { ms: u64, act: Box<Act> },
    /// The handler fails with an application error (`context.fail`): the rest of the program is
    /// abandoned, the agent logs the error and carries on.
    Abort,
    /// The handler fails fatally (stepped after completion): the agent task ends with an error.
    Fail,
}

/// A handler that violates the handler contract, which the agent treats as fatal.
struct Fatal;

impl HandlerAction<PAgent> for Fatal {
    type Completion = ();

    fn step(
        &mut self,
        _action_context: &mut ActionContext<PAgent>,
        _meta: AgentMetadata,
        _agent: &PAgent,
    ) -> StepResult<Self::Completion> {
        StepResult::after_done()
    }
}

#[derive(Debug)]
pub struct InjectedHandlerError;

impl std::fmt::Display for InjectedHandlerError {
    fn fmt(&self, f: &mut std::fmt::Formatter<'_>) -> std::fmt::Result {
        write!(f, "handler failure requested by the harness")
    }
}

impl std::error::Error for InjectedHandlerError {}

/// State of every item of the agent. Value items in the order v0 v1 vt vs vst, map items in the
/// order m0 m1 mt ms mst.
#[derive(Clone, Debug, PartialEq, Eq, Serialize, Deserialize, Default)]
pub struct Snap {
    pub values: Vec<i64>,
    pub maps: Vec<BTreeMap<K, i64>>,
}

#[derive(Clone, Debug, PartialEq, Eq, Serialize, Deserialize)]
pub enum PEv {
    Start(Snap),
    Stop,
    Probe(Snap),
    /// on_event of a value lane (the value the lane now holds).
    Value { lane: u8, v: i64 },
    Update { map: u8, k: K, v: i64 },
    Remove { map: u8, k: K },
    Clear { map: u8 },
    ProgBegin { idx: i32 },
    /// A store action of a program has been executed.
    Did(Act),
    ProgEnd { idx: i32 },
}

pub struct Shared {
    pub clock: Arc<AtomicU64>,
    pub trace: Mutex<Vec<(u64, PEv)>>,
    pub programs: Vec<Vec<Act>>,
    /// on_event(v0) sets v1 to value + CASCADE_OFFSET.
    pub cascade: bool,
}

impl Shared {
    pub fn new(clock: Arc<AtomicU64>, programs: Vec<Vec<Act>>, cascade: bool) -> Arc<Shared> {
        Arc::new(Shared {
            clock,
            trace: Mutex::new(vec![]),
            programs,
            cascade,
        })
    }
    fn rec(&self, ev: PEv) {
        let s = self.clock.fetch_add(1, Ordering::SeqCst);
        self.trace.lock().push((s, ev));
    }
    pub fn trace(&self) -> Vec<(u64, PEv)> {
        self.trace.lock().clone()
    }
}

#[derive(Clone)]
pub struct PLifecycle {
    pub shared: Arc<Shared>,
}

type Ctx = HandlerContext<PAgent>;

/// Reads every item directly from the agent and records the snapshot.
struct Snapshot {
    shared: Arc<Shared>,
    start: bool,
    done: bool,
}

fn ints(m: &HashMap<i32, i64>) -> BTreeMap<K, i64> {
    m.iter().map(|(k, v)| (K::I(*k), *v)).collect()
}

impl HandlerAction<PAgent> for Snapshot {
    type Completion = ();

    fn step(
        &mut self,
        _action_context: &mut ActionContext<PAgent>,
        _meta: AgentMetadata,
        agent: &PAgent,
    ) -> StepResult<Self::Completion> {
        if self.done {
            return StepResult::after_done();
        }
        self.done = true;
        let values = vec![
            agent.v0.read(|v| *v),
            agent.v1.read(|v| *v),
            agent.vt.read(|v| *v),
            agent.vs.read(|v| *v),
            agent.vst.read(|v| *v),
        ];
        let maps = vec![
            agent.m0.get_map(ints),
            agent
                .m1
                .get_map(|m: &BTreeMap<String, i64>| m.iter().map(|(k, v)| (K::S(k.clone()), *v)).collect()),
            agent.mt.get_map(ints),
            agent.ms.get_map(ints),
            agent.mst.get_map(ints),
        ];
        let snap = Snap { values, maps };
        self.shared.rec(if self.start { PEv::Start(snap) } else { PEv::Probe(snap) });
        StepResult::done(())
    }
}

fn act_handler(context: Ctx, shared: &Arc<Shared>, act: Act) -> Box<dyn EventHandler<PAgent> + Send + 'static> {
    let sh = shared.clone();
    let did = act.clone();
    let record = move || sh.rec(PEv::Did(did));
    match act {
        Act::SetV { lane, v } => match lane % 3 {
            0 => Box::new(context.set_value(PAgent::V0, v)),
            1 => Box::new(context.set_value(PAgent::V1, v)),
            _ => Box::new(context.set_value(PAgent::VT, v)),
        },
        Act::Upd { map, k, v } => match map % 3 {
            0 => Box::new(context.update(PAgent::M0, k, v)),
            1 => Box::new(context.update(PAgent::M1, m1_key(k), v)),
            _ => Box::new(context.update(PAgent::MT, k, v)),
        },
        Act::Rem { map, k } => match map % 3 {
            0 => Box::new(context.remove(PAgent::M0, k)),
            1 => Box::new(context.remove(PAgent::M1, m1_key(k))),
            _ => Box::new(context.remove(PAgent::MT, k)),
        },
        Act::Clr { map } => match map % 3 {
            0 => Box::new(context.clear(PAgent::M0)),
            1 => Box::new(context.clear(PAgent::M1)),
            _ => Box::new(context.clear(PAgent::MT)),
        },
        Act::SetS { store, v } => match store % 2 {
            0 => Box::new(context.set_value(PAgent::VS, v).followed_by(context.effect(record))),
            _ => Box::new(context.set_value(PAgent::VST, v).followed_by(context.effect(record))),
        },
        Act::UpdS { store, k, v } => match store % 2 {
            0 => Box::new(context.update(PAgent::MS, k, v).followed_by(context.effect(record))),
            _ => Box::new(context.update(PAgent::MST, k, v).followed_by(context.effect(record))),
        },
        Act::RemS { store, k } => match store % 2 {
            0 => Box::new(context.remove(PAgent::MS, k).followed_by(context.effect(record))),
            _ => Box::new(context.remove(PAgent::MST, k).followed_by(context.effect(record))),
        },
        Act::ClrS { store } => match store % 2 {
            0 => Box::new(context.clear(PAgent::MS).followed_by(context.effect(record))),
            _ => Box::new(context.clear(PAgent::MST).followed_by(context.effect(record))),
        },
        Act::StopSelf => Box::new(context.effect(record).followed_by(context.stop())),
        Act::Later { ms, act } => {
            let inner = act_handler(context, shared, *act);
            Box::new(context.run_after(std::time::Duration::from_millis(ms), inner))
        }
        Act::Abort => Box::new(context.effect(record).followed_by(context.fail::<(), _>(InjectedHandlerError))),
        Act::Fail => Box::new(context.effect(record).followed_by(Fatal)),
    }
}

#[lifecycle(PAgent)]
impl PLifecycle {
    #[on_start]
    fn on_start(&self, _context: Ctx) -> impl EventHandler<PAgent> {
        Snapshot {
            shared: self.shared.clone(),
            start: true,
            done: false,
        }
    }

    #[on_stop]
    fn on_stop(&self, context: Ctx) -> impl EventHandler<PAgent> {
        let sh = self.shared.clone();
        context.effect(move || sh.rec(PEv::Stop))
    }

    #[on_event(v0)]
    fn v0_event(&self, context: Ctx, value: &i64) -> impl EventHandler<PAgent> {
        let sh = self.shared.clone();
        let v = *value;
        let cascade = sh.cascade;
        context.effect(move || sh.rec(PEv::Value { lane: 0, v })).followed_by(
            if cascade {
                Some(context.set_value(PAgent::V1, v.wrapping_add(CASCADE_OFFSET)))
            } else {
                None
            }
            .discard(),
        )
    }

    #[on_event(v1)]
    fn v1_event(&self, context: Ctx, value: &i64) -> impl EventHandler<PAgent> {
        let sh = self.shared.clone();
        let v = *value;
        context.effect(move || sh.rec(PEv::Value { lane: 1, v }))
    }

    #[on_event(vt)]
    fn vt_event(&self, context: Ctx, value: &i64) -> impl EventHandler<PAgent> {
        let sh = self.shared.clone();
        let v = *value;
        context.effect(move || sh.rec(PEv::Value { lane: 2, v }))
    }

    #[on_update(m0)]
    fn m0_update(
        &self,
        context: Ctx,
        _map: &HashMap<i32, i64>,
        key: i32,
        _prev: Option<i64>,
        new_value: &i64,
    ) -> impl EventHandler<PAgent> {
        let sh = self.shared.clone();
        let v = *new_value;
        context.effect(move || sh.rec(PEv::Update { map: 0, k: K::I(key), v }))
    }

    #[on_remove(m0)]
    fn m0_remove(&self, context: Ctx, _map: &HashMap<i32, i64>, key: i32, _prev: i64) -> impl EventHandler<PAgent> {
        let sh = self.shared.clone();
        context.effect(move || sh.rec(PEv::Remove { map: 0, k: K::I(key) }))
    }

    #[on_clear(m0)]
    fn m0_clear(&self, context: Ctx, _prev: HashMap<i32, i64>) -> impl EventHandler<PAgent> {
        let sh = self.shared.clone();
        context.effect(move || sh.rec(PEv::Clear { map: 0 }))
    }

    #[on_update(m1)]
    fn m1_update(
        &self,
        context: Ctx,
        _map: &BTreeMap<String, i64>,
        key: String,
        _prev: Option<i64>,
        new_value: &i64,
    ) -> impl EventHandler<PAgent> {
        let sh = self.shared.clone();
        let v = *new_value;
        context.effect(move || sh.rec(PEv::Update { map: 1, k: K::S(key), v }))
    }

    #[on_remove(m1)]
    fn m1_remove(
        &self,
        context: Ctx,
        _map: &BTreeMap<String, i64>,
        key: String,
        _prev: i64,
    ) -> impl EventHandler<PAgent> {
        let sh = self.shared.clone();
        context.effect(move || sh.rec(PEv::Remove { map: 1, k: K::S(key) }))
    }

    #[on_clear(m1)]
    fn m1_clear(&self, context: Ctx, _prev: BTreeMap<String, i64>) -> impl EventHandler<PAgent> {
        let sh = self.shared.clone();
        context.effect(move || sh.rec(PEv::Clear { map: 1 }))
    }

    #[on_update(mt)]
    fn mt_update(
        &self,
        context: Ctx,
        _map: &HashMap<i32, i64>,
        key: i32,
        _prev: Option<i64>,
        new_value: &i64,
    ) -> impl EventHandler<PAgent> {
        let sh = self.shared.clone();
        let v = *new_value;
        context.effect(move || sh.rec(PEv::Update { map: 2, k: K::I(key), v }))
    }

    #[on_remove(mt)]
    fn mt_remove(&self, context: Ctx, _map: &HashMap<i32, i64>, key: i32, _prev: i64) -> impl EventHandler<PAgent> {
        let sh = self.shared.clone();
        context.effect(move || sh.rec(PEv::Remove { map: 2, k: K::I(key) }))
    }

    #[on_clear(mt)]
    fn mt_clear(&self, context: Ctx, _prev: HashMap<i32, i64>) -> impl EventHandler<PAgent> {
        let sh = self.shared.clone();
        context.effect(move || sh.rec(PEv::Clear { map: 2 }))
    }

    /// A non-negative command runs program `idx`; a negative one records a snapshot of all items.
    #[on_command(ctl)]
    fn on_ctl(&self, context: Ctx, value: &i32) -> impl EventHandler<PAgent> {
        let sh = self.shared.clone();
        let idx = *value;
        let steps: Vec<Box<dyn EventHandler<PAgent> + Send + 'static>> = if idx < 0 {
            vec![Box::new(Snapshot {
                shared: sh.clone(),
                start: false,
                done: false,
            })]
        } else {
            sh.programs
                .get(idx as usize)
                .cloned()
                .unwrap_or_default()
                .into_iter()
                .map(|a| act_handler(context, &sh, a))
                .collect()
        };
        let (sh1, sh2) = (sh.clone(), sh);
        context
            .effect(move || sh1.rec(PEv::ProgBegin { idx }))
            .followed_by(Sequentially::new(steps))
            .followed_by(context.effect(move || sh2.rec(PEv::ProgEnd { idx })))
    }
}

pub fn make_agent(shared: Arc<Shared>) -> impl swimos::api::Agent + Send + 'static {
    let lifecycle = PLifecycle { shared };
    AgentModel::new(PAgent::default, lifecycle.into_lifecycle())
}
