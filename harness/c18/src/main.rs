mod c18;
fn main() {
    let args: Vec<String> = std::env::args().skip(1).collect();
    let mut ctx = vcommon::Ctx::new("C18", &args);
    c18::run(&mut ctx);
    ctx.finish();
}
