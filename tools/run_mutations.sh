#!/bin/bash
# tools/run_mutations.sh <slot> <ID> [tier]  -- runs every /verif/mutations/<ID>/*.diff through tools/mutant.sh
# and writes /verif/mutations/<ID>/RESULTS.txt (mutation, exit code, detected?, signatures, seconds).
SLOT=${1:?slot}; ID=${2:?id}; TIER=${3:-quick}
OUT=/verif/mutations/$ID/RESULTS.txt
: > "$OUT.tmp"
for d in /verif/mutations/$ID/*.diff; do
  s=$(date +%s)
  log=$(/verif/tools/mutant.sh "$SLOT" "$ID" "$d" "$TIER" 2>&1)
  rc=$?
  e=$(( $(date +%s) - s ))
  sigs=$(echo "$log" | grep -o "violation sig=[^ ]*" | sort -u | tr '\n' ' ')
  case $rc in 1) st=DETECTED;; 0) st=MISSED;; *) st="INCONCLUSIVE($rc)";; esac
  echo "$(basename "$d") rc=$rc $st ${e}s $sigs" | tee -a "$OUT.tmp"
done
mv "$OUT.tmp" "$OUT"
