//! Schema-violating neighbours of a model value: structural edits (missing / extra / duplicate /
//! reordered slots and attributes, wrong tag, wrong kind, numeric values out of range, wrapping
//! and unwrapping) applied at a generated position of the value tree.

use proptest::prelude::*;
use serde::{Deserialize, Serialize};
use vcommon::pick_index;
use vgen::{I, V};

#[derive(Clone, Copy, Debug, Serialize, Deserialize, PartialEq, Eq)]
pub enum Op {
    RemoveItem,
    DupItem,
    SwapItems,
    RemoveAttr,
    DupAttr,
    SwapAttrs,
    RenameAttr,
    RenameSlot,
    ReplaceValue,
    NumericEdge,
    InsertSlot,
    InsertValue,
    InsertAttr,
    Wrap,
    Unwrap,
    SlotToValue,
    ValueToSlot,
    MakeExtant,
}

pub const OPS: &[Op] = &[
    Op::RemoveItem,
    Op::DupItem,
    Op::SwapItems,
    Op::RemoveAttr,
    Op::DupAttr,
    Op::SwapAttrs,
    Op::RenameAttr,
    Op::RenameSlot,
    Op::ReplaceValue,
    Op::NumericEdge,
    Op::InsertSlot,
    Op::InsertValue,
    Op::InsertAttr,
    Op::Wrap,
    Op::Unwrap,
    Op::SlotToValue,
    Op::ValueToSlot,
    Op::MakeExtant,
];

impl Op {
    pub fn label(&self) -> &'static str {
        match self {
            Op::RemoveItem => "mut:remove-item",
            Op::DupItem => "mut:dup-item",
            Op::SwapItems => "mut:swap-items",
            Op::RemoveAttr => "mut:remove-attr",
            Op::DupAttr => "mut:dup-attr",
            Op::SwapAttrs => "mut:swap-attrs",
            Op::RenameAttr => "mut:rename-attr",
            Op::RenameSlot => "mut:rename-slot",
            Op::ReplaceValue => "mut:replace-value",
            Op::NumericEdge => "mut:numeric-edge",
            Op::InsertSlot => "mut:insert-slot",
            Op::InsertValue => "mut:insert-value",
            Op::InsertAttr => "mut:insert-attr",
            Op::Wrap => "mut:wrap",
            Op::Unwrap => "mut:unwrap",
            Op::SlotToValue => "mut:slot-to-value",
            Op::ValueToSlot => "mut:value-to-slot",
            Op::MakeExtant => "mut:make-extant",
        }
    }
}

#[derive(Clone, Debug, Serialize, Deserialize)]
pub struct Mutation {
    pub op: Op,
    /// which node of the tree (pre-order), mapped monotonically
    pub at: u16,
    /// which child / which edge value
    pub aux: u16,
    pub name: String,
    pub payload: V,
}

/// Names that occur in the battery's schemas (near misses) plus a few that do not.
pub const NAMES: &[&str] = &[
    "first", "second", "third", "renamed", "named", "key", "node", "lane", "laneUri", "count", "hb", "items", "name", "m",
    "other", "x", "a", "b", "h", "n", "in_attr", "present", "at", "inner", "value", "list", "z", "fieldOne", "fieldTwoB",
    "secondField", "thirdFieldName", "Unit", "unit_renamed", "TwoFields", "TupleTwo", "Ren", "tuple-named", "AttrLift",
    "AttrVec", "AttrMap", "complex", "BodyRepl", "Alpha", "beta", "Gamma", "Delta", "Red", "blue", "Blue", "V0", "V1", "V2",
    "v3", "V3", "V4", "V5", "V6", "update", "remove", "clear", "first-variant", "second-variant", "Explicit", "Generic",
    "Holder", "c", "r", "t", "", "with space", "0",
];

pub fn arb_name() -> BoxedStrategy<String> {
    prop_oneof![
        5 => proptest::sample::select(NAMES).prop_map(|s| s.to_string()),
        1 => vgen::arb_ident(),
    ]
    .boxed()
}

pub fn arb_payload() -> BoxedStrategy<V> {
    prop_oneof![
        4 => vgen::arb_scalar(false),
        1 => proptest::sample::select(vgen::record_pool()),
        1 => vgen::arb_value(false),
    ]
    .boxed()
}

pub fn arb_mutation() -> BoxedStrategy<Mutation> {
    (proptest::sample::select(OPS), any::<u16>(), any::<u16>(), arb_name(), arb_payload())
        .prop_map(|(op, at, aux, name, payload)| Mutation { op, at, aux, name, payload })
        .boxed()
}

fn edges() -> Vec<V> {
    vec![
        V::I64(i32::MAX as i64 + 1),
        V::I64(i32::MIN as i64 - 1),
        V::I32(-1),
        V::I64(i64::MIN),
        V::I64(i64::MAX),
        V::U32(u32::MAX),
        V::U64(u32::MAX as u64 + 1),
        V::U64(i64::MAX as u64 + 1),
        V::U64(u64::MAX),
        V::BigInt("18446744073709551616".into()),
        V::BigInt("-9223372036854775809".into()),
        V::BigUint("18446744073709551616".into()),
        V::BigInt("7".into()),
        V::BigUint("7".into()),
        V::BigInt("-7".into()),
        V::f(1.0),
        V::f(1.5),
        V::f(-1.0),
        V::f(1e300),
        V::f(f64::NAN),
        V::f(f64::INFINITY),
        V::f(4294967296.0),
        V::I32(0),
        V::U64(0),
        V::text("1"),
    ]
}

#[derive(Clone, Copy, Debug)]
enum Step {
    Attr(usize),
    Val(usize),
    Key(usize),
    SlotVal(usize),
}

fn collect(v: &V, path: &mut Vec<Step>, all: &mut Vec<Vec<Step>>, recs: &mut Vec<Vec<Step>>) {
    all.push(path.clone());
    if let V::Record(attrs, items) = v {
        recs.push(path.clone());
        for (i, (_, a)) in attrs.iter().enumerate() {
            path.push(Step::Attr(i));
            collect(a, path, all, recs);
            path.pop();
        }
        for (i, it) in items.iter().enumerate() {
            match it {
                I::Val(x) => {
                    path.push(Step::Val(i));
                    collect(x, path, all, recs);
                    path.pop();
                }
                I::Slot(k, x) => {
                    path.push(Step::Key(i));
                    collect(k, path, all, recs);
                    path.pop();
                    path.push(Step::SlotVal(i));
                    collect(x, path, all, recs);
                    path.pop();
                }
            }
        }
    }
}

fn get_mut<'a>(v: &'a mut V, path: &[Step]) -> &'a mut V {
    let mut cur = v;
    for st in path {
        cur = match (cur, st) {
            (V::Record(attrs, _), Step::Attr(i)) => &mut attrs[*i].1,
            (V::Record(_, items), Step::Val(i)) => match &mut items[*i] {
                I::Val(x) => x,
                I::Slot(_, x) => x,
            },
            (V::Record(_, items), Step::Key(i)) => match &mut items[*i] {
                I::Slot(k, _) => k,
                I::Val(x) => x,
            },
            (V::Record(_, items), Step::SlotVal(i)) => match &mut items[*i] {
                I::Slot(_, x) => x,
                I::Val(x) => x,
            },
            _ => unreachable!("path does not match the value"),
        };
    }
    cur
}

/// Apply one mutation; returns false when it was not applicable (value unchanged).
pub fn apply(v: &mut V, m: &Mutation) -> bool {
    let mut all = vec![];
    let mut recs = vec![];
    collect(v, &mut vec![], &mut all, &mut recs);
    let record_op = !matches!(
        m.op,
        Op::ReplaceValue | Op::NumericEdge | Op::Wrap | Op::Unwrap | Op::MakeExtant
    );
    if record_op {
        if recs.is_empty() {
            return false;
        }
        let path = &recs[pick_index(m.at, recs.len())];
        let node = get_mut(v, path);
        let V::Record(attrs, items) = node else { return false };
        let aux = m.aux;
        match m.op {
            Op::RemoveItem => {
                if items.is_empty() {
                    return false;
                }
                items.remove(pick_index(aux, items.len()));
            }
            Op::DupItem => {
                if items.is_empty() {
                    return false;
                }
                let i = pick_index(aux, items.len());
                let it = items[i].clone();
                if aux & 1 == 0 {
                    items.insert(i + 1, it);
                } else {
                    items.push(it);
                }
            }
            Op::SwapItems => {
                if items.len() < 2 {
                    return false;
                }
                let i = pick_index(aux, items.len() - 1);
                items.swap(i, i + 1);
            }
            Op::RemoveAttr => {
                if attrs.is_empty() {
                    return false;
                }
                attrs.remove(pick_index(aux, attrs.len()));
            }
            Op::DupAttr => {
                if attrs.is_empty() {
                    return false;
                }
                let i = pick_index(aux, attrs.len());
                let a = attrs[i].clone();
                if aux & 1 == 0 {
                    attrs.insert(i + 1, a);
                } else {
                    attrs.push(a);
                }
            }
            Op::SwapAttrs => {
                if attrs.len() < 2 {
                    return false;
                }
                let i = pick_index(aux, attrs.len() - 1);
                attrs.swap(i, i + 1);
            }
            Op::RenameAttr => {
                if attrs.is_empty() {
                    return false;
                }
                let i = pick_index(aux, attrs.len());
                if attrs[i].0 == m.name {
                    return false;
                }
                attrs[i].0 = m.name.clone();
            }
            Op::RenameSlot => {
                let slots: Vec<usize> = items
                    .iter()
                    .enumerate()
                    .filter(|(_, it)| matches!(it, I::Slot(..)))
                    .map(|(i, _)| i)
                    .collect();
                if slots.is_empty() {
                    return false;
                }
                let i = slots[pick_index(aux, slots.len())];
                if let I::Slot(k, _) = &mut items[i] {
                    *k = V::Text(m.name.clone());
                }
            }
            Op::InsertSlot => {
                let pos = pick_index(aux, items.len() + 1);
                items.insert(pos, I::Slot(V::Text(m.name.clone()), m.payload.clone()));
            }
            Op::InsertValue => {
                let pos = pick_index(aux, items.len() + 1);
                items.insert(pos, I::Val(m.payload.clone()));
            }
            Op::InsertAttr => {
                let pos = pick_index(aux, attrs.len() + 1);
                attrs.insert(pos, (m.name.clone(), m.payload.clone()));
            }
            Op::SlotToValue => {
                let slots: Vec<usize> = items
                    .iter()
                    .enumerate()
                    .filter(|(_, it)| matches!(it, I::Slot(..)))
                    .map(|(i, _)| i)
                    .collect();
                if slots.is_empty() {
                    return false;
                }
                let i = slots[pick_index(aux, slots.len())];
                if let I::Slot(_, x) = items[i].clone() {
                    items[i] = I::Val(x);
                }
            }
            Op::ValueToSlot => {
                let vals: Vec<usize> = items
                    .iter()
                    .enumerate()
                    .filter(|(_, it)| matches!(it, I::Val(..)))
                    .map(|(i, _)| i)
                    .collect();
                if vals.is_empty() {
                    return false;
                }
                let i = vals[pick_index(aux, vals.len())];
                if let I::Val(x) = items[i].clone() {
                    items[i] = I::Slot(V::Text(m.name.clone()), x);
                }
            }
            _ => unreachable!(),
        }
        true
    } else {
        let path = &all[pick_index(m.at, all.len())];
        let node = get_mut(v, path);
        match m.op {
            Op::ReplaceValue => {
                if *node == m.payload {
                    return false;
                }
                *node = m.payload.clone();
            }
            Op::NumericEdge => {
                let e = edges();
                let x = e[pick_index(m.aux, e.len())].clone();
                if *node == x {
                    return false;
                }
                *node = x;
            }
            Op::Wrap => {
                let inner = node.clone();
                *node = V::Record(vec![], vec![I::Val(inner)]);
            }
            Op::Unwrap => {
                let V::Record(_, items) = node else { return false };
                if items.is_empty() {
                    return false;
                }
                let inner = match items[pick_index(m.aux, items.len())].clone() {
                    I::Val(x) => x,
                    I::Slot(_, x) => x,
                };
                *node = inner;
            }
            Op::MakeExtant => {
                if *node == V::Extant {
                    return false;
                }
                *node = V::Extant;
            }
            _ => unreachable!(),
        }
        true
    }
}
