//! C19 Model values: equality, ordering and hashing are mutually coherent.
use vgen::*;
use proptest::prelude::*;
use serde::{Deserialize, Serialize};
use std::cmp::Ordering;
use std::collections::hash_map::DefaultHasher;
use std::hash::{Hash, Hasher};
use swimos_model::{Attr, Item, Text, Value};
use vcommon::{fnv1a, Ctx, Verdict};

/// A second, structurally different hasher (FNV over the byte stream fed by `Hash`).
struct Fnv(u64);
impl Hasher for Fnv {
    fn finish(&self) -> u64 {
        self.0
    }
    fn write(&mut self, bytes: &[u8]) {
        for b in bytes {
            self.0 ^= *b as u64;
            self.0 = self.0.wrapping_mul(0x100000001b3);
        }
    }
}

fn hashes<T: Hash>(v: &T) -> (u64, u64) {
    let mut h1 = DefaultHasher::new();
    v.hash(&mut h1);
    let mut h2 = Fnv(0xcbf29ce484222325);
    v.hash(&mut h2);
    (h1.finish(), h2.finish())
}

/// Qualifier that splits a (kind,kind) cell into the sub-cases that are known to differ.
fn qual(a: &V, b: &V) -> &'static str {
    match (a, b) {
        (V::F64(x), V::F64(y)) => {
            let (x, y) = (f64::from_bits(*x), f64::from_bits(*y));
            if x == 0.0 && y == 0.0 && x.to_bits() != y.to_bits() {
                "/signed-zero"
            } else if x.is_finite() && y.is_finite() && x != y && (x - y).abs() < f64::EPSILON {
                "/within-epsilon"
            } else {
                ""
            }
        }
        // The recorded finding for an integer kind against Float64 is exactly "n.cmp(n as f64) == Equal"; any
        // other incoherence in the same cell (NaN, a fraction, a different number) is a different violation
        // and must not be hidden by that entry.
        (V::F64(x), other) | (other, V::F64(x)) => match int_as_f64(other) {
            Some(n) if f64::from_bits(*x) != n => "/float-is-not-the-integer",
            _ => "",
        },
        _ => "",
    }
}

/// The integer kinds converted to f64 the way `as f64` / `to_f64` does (round to nearest).
fn int_as_f64(v: &V) -> Option<f64> {
    match v {
        V::I32(n) => Some(*n as f64),
        V::I64(n) => Some(*n as f64),
        V::U32(n) => Some(*n as f64),
        V::U64(n) => Some(*n as f64),
        V::BigInt(s) | V::BigUint(s) => s.parse::<f64>().ok(),
        _ => None,
    }
}

fn pair_sig(law: &str, a: &V, b: &V) -> String {
    let (ka, kb) = (a.kind(), b.kind());
    let (k1, k2) = if ka <= kb { (ka, kb) } else { (kb, ka) };
    format!("{}:{},{}{}", law, k1, k2, qual(a, b))
}

fn triple_sig(law: &str, a: &V, b: &V, c: &V) -> String {
    let mut k = [a.kind(), b.kind(), c.kind()];
    k.sort();
    let eps = [qual(a, b), qual(b, c), qual(a, c)]
        .iter()
        .any(|q| *q == "/within-epsilon");
    format!("{}:{},{},{}{}", law, k[0], k[1], k[2], if eps { "/within-epsilon" } else { "" })
}

fn nontrivial_pair(a: &V, b: &V) -> bool {
    if a.kind() != b.kind() {
        return true;
    }
    if let (V::F64(x), V::F64(y)) = (a, b) {
        let (x, y) = (f64::from_bits(*x), f64::from_bits(*y));
        return x != y && ((x - y).abs() <= 2.0 * f64::EPSILON || x.to_bits().abs_diff(y.to_bits()) <= 1);
    }
    false
}

trait Lift: Ord + Hash + Eq {}
impl<T: Ord + Hash + Eq> Lift for T {}

fn pair_laws<T: Lift>(v: &mut Verdict, tag: &str, av: &T, bv: &T, a: &V, b: &V) {
    let eq_ab = av == bv;
    let eq_ba = bv == av;
    let c_ab = av.cmp(bv);
    let c_ba = bv.cmp(av);
    if eq_ab != eq_ba {
        v.fail(
            pair_sig(&format!("{}eq-sym", tag), a, b),
            format!("{:?} == {:?} is {} but the reverse is {}", a, b, eq_ab, eq_ba),
        );
    }
    if eq_ab && hashes(av) != hashes(bv) {
        v.fail(
            pair_sig(&format!("{}eq-hash", tag), a, b),
            format!("{:?} == {:?} but their hashes differ", a, b),
        );
    }
    if c_ab != c_ba.reverse() {
        v.fail(
            pair_sig(&format!("{}ord-antisym", tag), a, b),
            format!("{:?}.cmp({:?}) = {:?} but reverse = {:?}", a, b, c_ab, c_ba),
        );
    }
    if (c_ab == Ordering::Equal) != eq_ab {
        v.fail(
            pair_sig(&format!("{}ord-eq", tag), a, b),
            format!("{:?}.cmp({:?}) = {:?} but == is {}", a, b, c_ab, eq_ab),
        );
    }
    if av.partial_cmp(bv) != Some(c_ab) {
        v.fail(
            pair_sig(&format!("{}partial-cmp", tag), a, b),
            format!("partial_cmp disagrees with cmp for {:?}, {:?}", a, b),
        );
    }
}

/// Base laws on the pair; for two records whose failure is explained by an aligned pair of
/// children, the children's (root cause) failures are reported instead.
fn rooted_failures(a: &V, b: &V) -> Vec<vcommon::Failure> {
    let mut v = Verdict::new();
    let (av, bv) = (a.to_value(), b.to_value());
    pair_laws(&mut v, "", &av, &bv, a, b);
    if v.failures.is_empty() {
        return vec![];
    }
    if let (V::Record(a1, i1), V::Record(a2, i2)) = (a, b) {
        let mut inner = vec![];
        for ((_, x), (_, y)) in a1.iter().zip(a2) {
            inner.extend(rooted_failures(x, y));
        }
        for (x, y) in i1.iter().zip(i2) {
            match (x, y) {
                (I::Val(x), I::Val(y)) => inner.extend(rooted_failures(x, y)),
                (I::Slot(k1, v1), I::Slot(k2, v2)) => {
                    inner.extend(rooted_failures(k1, k2));
                    inner.extend(rooted_failures(v1, v2));
                }
                _ => {}
            }
        }
        if !inner.is_empty() {
            for f in &mut inner {
                if !f.detail.starts_with("[inside") {
                    f.detail = format!("[inside records {:?} vs {:?}] {}", a, b, f.detail);
                }
            }
            return inner;
        }
    }
    v.failures
}

fn refl_failures(a: &V) -> Vec<vcommon::Failure> {
    let av = a.to_value();
    let bv = av.clone();
    if av == bv && av.cmp(&bv) == Ordering::Equal {
        return vec![];
    }
    if let V::Record(attrs, items) = a {
        let mut inner = vec![];
        for (_, x) in attrs {
            inner.extend(refl_failures(x));
        }
        for it in items {
            match it {
                I::Val(x) => inner.extend(refl_failures(x)),
                I::Slot(k, x) => {
                    inner.extend(refl_failures(k));
                    inner.extend(refl_failures(x));
                }
            }
        }
        if !inner.is_empty() {
            return inner;
        }
    }
    let q = match a {
        V::F64(x) if f64::from_bits(*x).is_infinite() => "/infinite",
        _ => "",
    };
    vec![vcommon::Failure {
        sig: format!("{}{}", pair_sig("eq-refl", a, a), q),
        detail: format!("{:?} is not equal to itself (== {}, cmp {:?})", a, av == bv, av.cmp(&bv)),
    }]
}

fn check_pair(a: &V, b: &V) -> Verdict {
    let mut v = Verdict::new();
    v.failures = refl_failures(a);
    v.failures.extend(rooted_failures(a, b));
    if v.failures.is_empty() {
        // lifted to items and attributes (only meaningful when the base laws hold)
        let (av, bv) = (a.to_value(), b.to_value());
        pair_laws(&mut v, "item-", &Item::ValueItem(av.clone()), &Item::ValueItem(bv.clone()), a, b);
        pair_laws(
            &mut v,
            "slotkey-",
            &Item::Slot(av.clone(), Value::Int32Value(1)),
            &Item::Slot(bv.clone(), Value::Int32Value(1)),
            a,
            b,
        );
        pair_laws(
            &mut v,
            "slotval-",
            &Item::Slot(Value::Int32Value(1), av.clone()),
            &Item::Slot(Value::Int32Value(1), bv.clone()),
            a,
            b,
        );
        pair_laws(
            &mut v,
            "attr-",
            &Attr { name: Text::new("a"), value: av.clone() },
            &Attr { name: Text::new("a"), value: bv.clone() },
            a,
            b,
        );
        let (ra, rb) = (Value::Record(vec![], vec![Item::ValueItem(av)]), Value::Record(vec![], vec![Item::ValueItem(bv)]));
        pair_laws(&mut v, "rec-", &ra, &rb, a, b);
    }
    if nontrivial_pair(a, b) {
        v.nontrivial();
    }
    v.class_if(a.kind() != b.kind(), "cross-kind");
    v.class_if(matches!((a, b), (V::F64(_), _) | (_, V::F64(_))), "float");
    v.class_if(matches!((a, b), (V::Record(..), _) | (_, V::Record(..))), "record");
    v
}

/// All pair-level failures among a set of values (used to skip triple / sort laws on sets
/// where the order is already known not to be a total order).
fn pairwise_failures(vals: &[&V]) -> Vec<vcommon::Failure> {
    let mut out = vec![];
    for (i, a) in vals.iter().enumerate() {
        for b in &vals[i..] {
            out.extend(rooted_failures(a, b));
            out.extend(rooted_failures(b, a));
            out.extend(refl_failures(a));
        }
    }
    out
}

fn le(a: &Value, b: &Value) -> bool {
    a.cmp(b) != Ordering::Greater
}

fn check_triple(a: &V, b: &V, c: &V) -> Verdict {
    let mut v = Verdict::new();
    let (av, bv, cv) = (a.to_value(), b.to_value(), c.to_value());
    v.failures = pairwise_failures(&[a, b, c]);
    if !v.failures.is_empty() {
        // reported (or excluded as known) at pair level; the triple laws presuppose coherent pairs
        v.class("skipped-incoherent-pair");
        return v;
    }
    if av == bv && bv == cv && av != cv {
        v.fail(
            triple_sig("eq-trans", a, b, c),
            format!("{:?} == {:?} == {:?} but first != last", a, b, c),
        );
    }
    if le(&av, &bv) && le(&bv, &cv) && !le(&av, &cv) {
        v.fail(
            triple_sig("ord-trans", a, b, c),
            format!("{:?} <= {:?} <= {:?} but first > last", a, b, c),
        );
    }
    if av.cmp(&bv) == Ordering::Equal && bv.cmp(&cv) == Ordering::Equal && av.cmp(&cv) != Ordering::Equal {
        v.fail(
            triple_sig("ordeq-trans", a, b, c),
            format!("{:?} ~ {:?} ~ {:?} by cmp but first !~ last", a, b, c),
        );
    }
    let kinds = [a.kind(), b.kind(), c.kind()];
    if kinds[0] != kinds[1] || kinds[1] != kinds[2] {
        v.nontrivial();
    }
    v
}

#[derive(Clone, Debug, Serialize, Deserialize)]
struct PairCase(V, V);
#[derive(Clone, Debug, Serialize, Deserialize)]
struct TripleCase(V, V, V);
#[derive(Clone, Debug, Serialize, Deserialize)]
struct SortCase(Vec<V>);

fn check_sort(case: &SortCase) -> Verdict {
    let mut v = Verdict::new();
    let refs: Vec<&V> = case.0.iter().collect();
    v.failures = pairwise_failures(&refs);
    if !v.failures.is_empty() {
        v.class("skipped-incoherent-pair");
        return v;
    }
    let vals: Vec<Value> = case.0.iter().map(|x| x.to_value()).collect();
    let mut s1 = vals.clone();
    // `sort` may panic on an inconsistent order (reported by the runner as a panic signature).
    s1.sort();
    let mut s2 = s1.clone();
    s2.sort();
    let same = s1.len() == s2.len() && s1.iter().zip(&s2).all(|(x, y)| structural_eq(x, y));
    if !same {
        v.fail("sort-idempotent", format!("sorting a sorted vector changed it: {:?}", case.0));
    }
    for w in s1.windows(2) {
        if w[0].cmp(&w[1]) == Ordering::Greater {
            v.fail(
                "sort-ordered",
                format!("after sort, {:?} precedes {:?} but compares Greater", V::from_value(&w[0]), V::from_value(&w[1])),
            );
            break;
        }
    }
    // BTreeMap / HashMap keyed by values: every inserted key must be found again.
    let mut bt = std::collections::BTreeMap::new();
    let mut hm = std::collections::HashMap::new();
    for (i, x) in vals.iter().enumerate() {
        bt.insert(x.clone(), i);
        hm.insert(x.clone(), i);
    }
    for x in &vals {
        if !bt.contains_key(x) {
            v.fail("btreemap-lookup", format!("key {:?} inserted into a BTreeMap is not found", V::from_value(x)));
            break;
        }
        if !hm.contains_key(x) {
            v.fail("hashmap-lookup", format!("key {:?} inserted into a HashMap is not found", V::from_value(x)));
            break;
        }
    }
    let kinds: std::collections::HashSet<_> = case.0.iter().map(|x| x.kind()).collect();
    if kinds.len() >= 3 {
        v.nontrivial();
    }
    v
}

pub fn run(ctx: &mut Ctx) {
    ctx.rule(
        "pairs: all ordered pairs of the boundary pool (exhaustive) + random pairs; triples and sort vectors \
         drawn from the pool and from random values. Non-trivial = operands of different ValueKind, or two \
         floats within 2*EPSILON / 1 ulp of each other (triples: not all one kind; sort: >= 3 kinds). \
         Distinct by Debug form of the case.",
    );
    ctx.assume("Hash coherence is checked with two hashers (SipHash DefaultHasher and an FNV byte hasher)");
    let pool = boundary_pool();
    let n = pool.len();
    println!("C19: pool size {}", n);
    // 1. exhaustive pairs over the pool
    {
        let pool = &pool;
        ctx.enumerate(
            "pool-pairs",
            |w, ws| {
                (0..n)
                    .filter(move |i| i % ws == w)
                    .flat_map(move |i| (0..n).map(move |j| PairCase(pool[i].clone(), pool[j].clone())))
            },
            |c| check_pair(&c.0, &c.1),
        );
    }
    // 2. random pairs (random values, and a random value against a pool member)
    let pool2 = pool.clone();
    let pairs = ctx.pick(600_000, 20_000_000);
    ctx.prop(
        "random-pairs",
        pairs,
        || {
            let pool = pool2.clone();
            prop_oneof![
                (arb_value(false), arb_value(false)).prop_map(|(a, b)| PairCase(a, b)),
                (arb_value(false), proptest::sample::select(pool)).prop_map(|(a, b)| PairCase(a, b)),
                arb_value(false).prop_map(|a| PairCase(a.clone(), a)),
                (arb_scalar(false), arb_scalar(false)).prop_map(|(a, b)| PairCase(a, b)),
            ]
        },
        |c| check_pair(&c.0, &c.1),
    );
    // 3. triples
    let pool3 = pool.clone();
    let triples = ctx.pick(4_000_000, 200_000_000);
    ctx.prop(
        "triples",
        triples,
        || {
            let pool = pool3.clone();
            let one = prop_oneof![
                4 => proptest::sample::select(pool),
                1 => arb_scalar(false),
            ];
            (one.clone(), one.clone(), one).prop_map(|(a, b, c)| TripleCase(a, b, c))
        },
        |c| check_triple(&c.0, &c.1, &c.2),
    );
    // 4. sorting / keyed collections
    let pool4 = pool.clone();
    let sorts = ctx.pick(300_000, 10_000_000);
    ctx.prop(
        "sort",
        sorts,
        || {
            let pool = pool4.clone();
            proptest::collection::vec(
                prop_oneof![4 => proptest::sample::select(pool), 1 => arb_scalar(false)],
                2..24,
            )
            .prop_map(SortCase)
        },
        check_sort,
    );
    let _ = fnv1a;
}
