//! Sub-check 1: `peel_envelope_header_str(ReconEncoder(msg))` has the same kind, node, lane and body.

use crate::gen::{arb_body, arb_warp_text, body_class, needs_escaping, needs_quoting};
use bytes::{Bytes, BytesMut};
use proptest::prelude::*;
use serde::{Deserialize, Serialize};
use swimos_api::address::RelativeAddress;
use swimos_messages::protocol::{BytesRequestMessage, BytesResponseMessage};
use swimos_messages::remote_protocol::NoSuchAgent;
use swimos_messages::warp::{peel_envelope_header_str, RawEnvelope};
use swimos_model::Text;
use swimos_remote::verif_hooks::ReconEncoder;
use swimos_utilities::encoding::BytesStr;
use tokio_util::codec::Encoder;
use uuid::Uuid;
use vcommon::Verdict;

#[derive(Clone, Copy, Debug, PartialEq, Eq, Serialize, Deserialize)]
pub enum Kind {
    Link,
    Sync,
    Unlink,
    Command,
    Linked,
    Synced,
    Unlinked,
    Event,
    /// `NoSuchAgent { lane: Some(_) }` (written as `@unlinked(..)@nodeNotFound`)
    NoAgentLane,
    /// `NoSuchAgent { lane: None }`
    NoAgent,
}

impl Kind {
    pub fn name(&self) -> &'static str {
        match self {
            Kind::Link => "link",
            Kind::Sync => "sync",
            Kind::Unlink => "unlink",
            Kind::Command => "command",
            Kind::Linked => "linked",
            Kind::Synced => "synced",
            Kind::Unlinked | Kind::NoAgentLane | Kind::NoAgent => "unlinked",
            Kind::Event => "event",
        }
    }
    pub fn has_body(&self) -> bool {
        matches!(self, Kind::Command | Kind::Unlinked | Kind::Event)
    }
}

pub const KINDS: [Kind; 10] = [
    Kind::Link,
    Kind::Sync,
    Kind::Unlink,
    Kind::Command,
    Kind::Linked,
    Kind::Synced,
    Kind::Unlinked,
    Kind::Event,
    Kind::NoAgentLane,
    Kind::NoAgent,
];

#[derive(Clone, Debug, Serialize, Deserialize)]
pub struct Case {
    pub kind: Kind,
    pub node: String,
    pub lane: String,
    /// Only used by command / unlinked / event.
    pub body: String,
    /// unlinked only: `Unlinked(None)` instead of `Unlinked(Some(body))`
    pub no_body: bool,
}

pub fn arb_case() -> impl Strategy<Value = Case> {
    (
        proptest::sample::select(&KINDS[..]),
        arb_warp_text(),
        arb_warp_text(),
        arb_body(),
        proptest::bool::weighted(0.2),
        // size classes: pad one of node / lane / body so that the routed frame (32 byte header +
        // node + lane + body) has exactly a boundary size (4 KiB, 8 KiB, 64 KiB, each -1 / 0 / +1, and beyond)
        prop_oneof![
            300 => Just(None),
            2 => (0u8..3, proptest::sample::select(&crate::sock::SIZE_CLASSES[..6]), 0u8..3).prop_map(Some),
            1 => (0u8..3, proptest::sample::select(&crate::sock::SIZE_CLASSES[6..]), 0u8..3).prop_map(Some),
        ],
    )
        .prop_map(|(kind, mut node, mut lane, body, no_body, pad)| {
            let no_body = no_body && kind == Kind::Unlinked;
            let mut body = if kind.has_body() && !no_body { body } else { String::new() };
            if let Some((which, target, fill)) = pad {
                let target = target as usize;
                let which = if which == 2 && !(kind.has_body() && !no_body) { 0 } else { which };
                if which == 2 {
                    // a string literal body of exactly the missing size
                    let fixed = 32 + node.len() + lane.len();
                    if target > fixed + 2 {
                        body = format!("\"{}\"", "a".repeat(target - fixed - 2));
                    }
                } else {
                    let fixed = 32 + node.len() + lane.len() + body.len();
                    if target > fixed {
                        let padding = ["a", " ", "\""][fill as usize].repeat(target - fixed);
                        if which == 0 {
                            node.push_str(&padding);
                        } else {
                            lane.push_str(&padding);
                        }
                    }
                }
            }
            Case { kind, node, lane, body, no_body }
        })
}

/// What `OutgoingTask` does before it hands a message to `ReconEncoder`: the source wrote it to a
/// byte channel with the raw routed-frame encoder, the task reads it back with the raw decoder
/// (`FramedRead`, so the bytes arrive in pieces). Returns what the decoder produced.
fn through_routed_codec(case: &Case, split: usize) -> Result<Option<Either<BytesRequestMessage, BytesResponseMessage>>, String> {
    use swimos_messages::protocol::{RawRequestMessageDecoder, RawRequestMessageEncoder, RawResponseMessageDecoder, RawResponseMessageEncoder, RequestMessage, ResponseMessage};
    use tokio_util::codec::Decoder;
    let id = Uuid::from_u128(7);
    let path = RelativeAddress::new(case.node.as_str(), case.lane.as_str());
    let body = case.body.as_bytes();
    let mut wire = BytesMut::new();
    let request = match case.kind {
        Kind::Link => Some(RequestMessage::<&str, &[u8]>::link(id, path)),
        Kind::Sync => Some(RequestMessage::sync(id, path)),
        Kind::Unlink => Some(RequestMessage::unlink(id, path)),
        Kind::Command => Some(RequestMessage::command(id, path, body)),
        _ => None,
    };
    let is_request = request.is_some();
    if let Some(r) = request {
        RawRequestMessageEncoder.encode(r, &mut wire).map_err(|e| e.to_string())?;
    } else {
        let path = RelativeAddress::new(case.node.as_str(), case.lane.as_str());
        let r: ResponseMessage<&str, &[u8], &[u8]> = match case.kind {
            Kind::Linked => ResponseMessage::linked(id, path),
            Kind::Synced => ResponseMessage::synced(id, path),
            Kind::Unlinked => ResponseMessage::unlinked(id, path, if case.no_body { None } else { Some(body) }),
            Kind::Event => ResponseMessage::event(id, path, body),
            _ => return Ok(None),
        };
        RawResponseMessageEncoder.encode(r, &mut wire).map_err(|e| e.to_string())?;
    }
    // feed the decoder as a FramedRead would: a first piece, then the rest
    let split = split.min(wire.len());
    let mut buf = BytesMut::new();
    buf.extend_from_slice(&wire[..split]);
    let mut req_dec = RawRequestMessageDecoder;
    let mut resp_dec = RawResponseMessageDecoder;
    for round in 0..2 {
        let item = if is_request {
            req_dec.decode(&mut buf).map_err(|e| format!("request decoder: {}", e))?.map(Either::Left)
        } else {
            resp_dec.decode(&mut buf).map_err(|e| format!("response decoder: {}", e))?.map(Either::Right)
        };
        if let Some(item) = item {
            if !buf.is_empty() || (round == 0 && split < wire.len()) {
                return Err("the decoder produced a message before / without consuming the whole frame".into());
            }
            return Ok(Some(item));
        }
        if round == 0 {
            buf.extend_from_slice(&wire[split..]);
        }
    }
    Err(format!("the decoder produced nothing from a complete frame of {} bytes", wire.len()))
}

pub enum Either<A, B> {
    Left(A),
    Right(B),
}

pub fn encode(case: &Case) -> BytesMut {
    let id = Uuid::from_u128(7);
    let path = RelativeAddress::new(
        BytesStr::from(case.node.clone()),
        BytesStr::from(case.lane.clone()),
    );
    let body = Bytes::from(case.body.clone().into_bytes());
    let mut enc = ReconEncoder;
    let mut dst = BytesMut::new();
    match case.kind {
        Kind::Link => enc.encode(BytesRequestMessage::link(id, path), &mut dst),
        Kind::Sync => enc.encode(BytesRequestMessage::sync(id, path), &mut dst),
        Kind::Unlink => enc.encode(BytesRequestMessage::unlink(id, path), &mut dst),
        Kind::Command => enc.encode(BytesRequestMessage::command(id, path, body), &mut dst),
        Kind::Linked => enc.encode(BytesResponseMessage::linked(id, path), &mut dst),
        Kind::Synced => enc.encode(BytesResponseMessage::synced(id, path), &mut dst),
        Kind::Unlinked => enc.encode(
            BytesResponseMessage::unlinked(id, path, if case.no_body { None } else { Some(body) }),
            &mut dst,
        ),
        Kind::Event => enc.encode(BytesResponseMessage::event(id, path, body), &mut dst),
        Kind::NoAgentLane => enc.encode(
            NoSuchAgent {
                node: Text::new(&case.node),
                lane: Some(Text::new(&case.lane)),
            },
            &mut dst,
        ),
        Kind::NoAgent => enc.encode(
            NoSuchAgent {
                node: Text::new(&case.node),
                lane: None,
            },
            &mut dst,
        ),
    }
    .expect("the encoder is documented as infallible");
    dst
}

/// (kind, node, lane, rate/prio present, body)
pub fn flatten<'a>(env: &RawEnvelope<'a>) -> Option<(&'static str, String, String, bool, &'a str)> {
    Some(match env {
        RawEnvelope::Auth(_) | RawEnvelope::DeAuth(_) => return None,
        RawEnvelope::Link { node_uri, lane_uri, rate, prio, body } => {
            ("link", node_uri.to_string(), lane_uri.to_string(), rate.is_some() || prio.is_some(), **body)
        }
        RawEnvelope::Sync { node_uri, lane_uri, rate, prio, body } => {
            ("sync", node_uri.to_string(), lane_uri.to_string(), rate.is_some() || prio.is_some(), **body)
        }
        RawEnvelope::Linked { node_uri, lane_uri, rate, prio, body } => {
            ("linked", node_uri.to_string(), lane_uri.to_string(), rate.is_some() || prio.is_some(), **body)
        }
        RawEnvelope::Command { node_uri, lane_uri, body } => ("command", node_uri.to_string(), lane_uri.to_string(), false, **body),
        RawEnvelope::Unlink { node_uri, lane_uri, body } => ("unlink", node_uri.to_string(), lane_uri.to_string(), false, **body),
        RawEnvelope::Synced { node_uri, lane_uri, body } => ("synced", node_uri.to_string(), lane_uri.to_string(), false, **body),
        RawEnvelope::Event { node_uri, lane_uri, body } => ("event", node_uri.to_string(), lane_uri.to_string(), false, **body),
        RawEnvelope::Unlinked { node_uri, lane_uri, body } => ("unlinked", node_uri.to_string(), lane_uri.to_string(), false, **body),
    })
}

fn show(s: &str) -> String {
    if s.len() > 200 {
        format!("{:?}.. ({} bytes)", &s.chars().take(80).collect::<String>(), s.len())
    } else {
        format!("{:?}", s)
    }
}

pub fn check(case: &Case) -> Verdict {
    let mut v = Verdict::new();
    let k = case.kind.name();
    let frame_len = 32 + case.node.len() + case.lane.len() + case.body.len();
    // first hop: source -> byte channel -> outgoing task
    let bytes = match through_routed_codec(case, (frame_len * 7 / 10).max(1)) {
        Ok(None) => encode(case),
        Ok(Some(msg)) => {
            let mut dst = BytesMut::new();
            let r = match msg {
                Either::Left(m) => {
                    if m.path.node.as_str() != case.node || m.path.lane.as_str() != case.lane {
                        v.fail(format!("pure:routed-codec:{}", k), "node / lane changed in the routed-frame codec".to_string());
                    }
                    ReconEncoder.encode(m, &mut dst)
                }
                Either::Right(m) => {
                    if m.path.node.as_str() != case.node || m.path.lane.as_str() != case.lane {
                        v.fail(format!("pure:routed-codec:{}", k), "node / lane changed in the routed-frame codec".to_string());
                    }
                    ReconEncoder.encode(m, &mut dst)
                }
            };
            r.expect("the encoder is documented as infallible");
            dst
        }
        Err(e) => {
            v.fail(
                format!("pure:routed-codec:{}", k),
                format!("a {} envelope whose routed frame has {} bytes does not survive the byte-channel codec: {}", k, frame_len, e),
            );
            encode(case)
        }
    };
    let exp_lane: &str = if case.kind == Kind::NoAgent { "" } else { &case.lane };
    let exp_body: &str = match case.kind {
        Kind::NoAgentLane | Kind::NoAgent => "@nodeNotFound",
        Kind::Unlinked if case.no_body => "",
        kind if kind.has_body() => &case.body,
        _ => "",
    };
    match std::str::from_utf8(&bytes) {
        Err(e) => v.fail(format!("pure:not-utf8:{}", k), format!("encoder output is not UTF-8: {}", e)),
        Ok(text) => match peel_envelope_header_str(text) {
            Err(e) => v.fail(
                format!("pure:unreadable:{}", k),
                format!("the peer cannot read the envelope {}: {}", show(text), e),
            ),
            Ok(env) => match flatten(&env) {
                None => v.fail(format!("pure:kind:{}", k), format!("{} read as auth/deauth", show(text))),
                Some((kind, node, lane, rp, body)) => {
                    if kind != k {
                        v.fail(format!("pure:kind:{}", k), format!("{} read as kind {}", show(text), kind));
                    }
                    if node != case.node {
                        v.fail(
                            format!("pure:node:{}", k),
                            format!("node {} written as {} read as {}", show(&case.node), show(text), show(&node)),
                        );
                    }
                    if lane != exp_lane {
                        v.fail(
                            format!("pure:lane:{}", k),
                            format!("lane {} written as {} read as {}", show(exp_lane), show(text), show(&lane)),
                        );
                    }
                    if body != exp_body {
                        v.fail(
                            format!("pure:body:{}", k),
                            format!("body {} written as {} read as {}", show(exp_body), show(text), show(body)),
                        );
                    }
                    if rp {
                        v.fail(format!("pure:rate-prio:{}", k), format!("{} read with a rate/prio nobody wrote", show(text)));
                    }
                }
            },
        },
    }
    let q = needs_quoting(&case.node) || needs_quoting(&case.lane);
    let e = needs_escaping(&case.node) || needs_escaping(&case.lane);
    if q {
        v.nontrivial();
    }
    v.class(match case.kind {
        Kind::Link => "kind:link",
        Kind::Sync => "kind:sync",
        Kind::Unlink => "kind:unlink",
        Kind::Command => "kind:command",
        Kind::Linked => "kind:linked",
        Kind::Synced => "kind:synced",
        Kind::Unlinked => "kind:unlinked",
        Kind::Event => "kind:event",
        Kind::NoAgentLane | Kind::NoAgent => "kind:no-such-agent",
    });
    v.class_if(q, "name:quoted");
    v.class_if(e, "name:escaped");
    v.class_if(case.node.is_empty() || case.lane.is_empty(), "name:empty");
    v.class_if(
        ["true", "false"].contains(&case.node.as_str()) || ["true", "false"].contains(&case.lane.as_str()),
        "name:keyword",
    );
    v.class_if(
        case.node.chars().chain(case.lane.chars()).any(|c| c as u32 > 0xffff),
        "name:non-bmp",
    );
    v.class_if(case.node.contains('%') || case.lane.contains('%'), "name:percent");
    v.class_if(case.node.len() > 500 || case.lane.len() > 500, "name:long");
    v.class_if(frame_len >= 4095 && frame_len <= 4097, "frame~4KiB");
    v.class_if(frame_len >= 8191 && frame_len <= 8193, "frame~8KiB");
    v.class_if(frame_len >= 65535 && frame_len <= 65537, "frame~64KiB");
    v.class_if(frame_len > 65537, "frame>64KiB");
    if case.kind.has_body() && !case.no_body {
        v.class(body_class(&case.body));
    }
    v
}

// ---------------------------------------------------------------------------------------------
// reader totality: whatever text arrives in a frame, the reader answers Ok or Err (it is the
// reader's rejection that keeps an invalid frame from being delivered); it never panics.

#[derive(Clone, Debug, Serialize, Deserialize)]
pub struct TextCase {
    pub text: String,
}

pub fn arb_text_case() -> impl Strategy<Value = TextCase> {
    let valid = arb_case().prop_map(|c| String::from_utf8_lossy(&encode(&c)).to_string()).boxed();
    prop_oneof![
        // a valid envelope cut short
        3 => (valid.clone(), any::<u16>()).prop_map(|(t, at)| {
            let idx: Vec<usize> = t.char_indices().map(|(i, _)| i).collect();
            if idx.is_empty() { t } else { t[..idx[vcommon::pick_index(at, idx.len())]].to_string() }
        }),
        // one character removed / replaced / inserted
        4 => (valid.clone(), any::<u16>(), 0u8..3, proptest::sample::select(&["\"", "\\", "(", ")", ",", ":", "@", " ", "\n", "{", "}", "\\u", "\\ud800", "\\uDFFF", "%", "a", "1", ";", "\u{0}"][..]))
            .prop_map(|(t, at, how, ins)| {
                let idx: Vec<usize> = t.char_indices().map(|(i, _)| i).collect();
                if idx.is_empty() {
                    return ins.to_string();
                }
                let i = idx[vcommon::pick_index(at, idx.len())];
                let c = t[i..].chars().next().unwrap();
                match how {
                    0 => format!("{}{}", &t[..i], &t[i + c.len_utf8()..]),
                    1 => format!("{}{}{}", &t[..i], ins, &t[i + c.len_utf8()..]),
                    _ => format!("{}{}{}", &t[..i], ins, &t[i..]),
                }
            }),
        1 => valid,
        1 => proptest::sample::select(crate::sock::GARBAGE).prop_map(|s| s.to_string()),
        1 => "[@a-z(),:\"\\\\ {}]{0,24}",
    ]
    .prop_map(|text| TextCase { text })
}

pub fn check_text(case: &TextCase) -> Verdict {
    let mut v = Verdict::new();
    let r = std::panic::catch_unwind(|| peel_envelope_header_str(&case.text).map(|e| flatten(&e).map(|f| f.0)));
    match r {
        Ok(Ok(_)) => v.class("reader:accepted"),
        Ok(Err(_)) => {
            v.class("reader:rejected");
            v.nontrivial();
        }
        Err(e) => {
            let msg = if let Some(m) = e.downcast_ref::<&str>() {
                m.to_string()
            } else if let Some(m) = e.downcast_ref::<String>() {
                m.clone()
            } else {
                "?".to_string()
            };
            let what = if msg.contains("Incomplete") {
                "parser-incomplete"
            } else if msg.contains("CharTryFromError") {
                "surrogate-escape"
            } else {
                "other"
            };
            v.fail(format!("reader:panic:{}", what), format!("peel_envelope_header_str({}) panicked: {}", show(&case.text), msg));
        }
    }
    v
}
