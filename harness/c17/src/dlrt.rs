//! Sub-check `dl-runtime`: the inactivity clause of C17 decided against the REAL
//! `ValueDownlinkRuntime` / `MapDownlinkRuntime` (read task + write task + attachment task + the
//! two-party timeout coordinator together), using C07's `dlrt` engine: the runtime future is polled by the
//! harness on a paused clock, the harness plays a legal remote lane and the consumers.
//!
//! Clause: "a runtime stops for inactivity only when every one of its constituent tasks has an outstanding
//! vote to stop at the same moment" — for a downlink runtime (`DownlinkRuntimeConfig::empty_timeout`: "if the
//! runtime has no consumers for longer than this timeout, it will stop"): the read task withdraws its vote
//! when a consumer attaches, so the runtime must not stop for inactivity while a consumer is attached.

#[allow(dead_code)]
#[path = "../../c07/src/engine.rs"]
mod engine;

use engine::*;
use proptest::prelude::*;
use serde::{Deserialize, Serialize};
use vcommon::Verdict;

#[derive(Clone, Debug, PartialEq, Eq, Serialize, Deserialize)]
pub enum DOp {
    Attach { sync: bool, keep: bool, in_cap: usize, out_cap: usize },
    /// consumer c (index modulo the number attached so far) writes a command and delivers it
    Write { c: usize },
    /// the consumer stops listening (keeps its command channel: the write side still counts it)
    DropReader { c: usize },
    /// the consumer closes its command channel (keeps listening: an event-only subscriber)
    DropWriter { c: usize },
    /// the consumer detaches
    Drop { c: usize },
    /// the remote lane changes (an event for everybody who listens; the read task notices dead listeners)
    Change,
    Settle,
    Poll { k: usize },
    Advance { ms: u64 },
    CRead { c: usize, n: usize },
    RRead { n: usize },
    RPump { n: usize },
}

#[derive(Clone, Debug, Serialize, Deserialize)]
pub struct Case {
    params: Params,
    ops: Vec<DOp>,
}

fn arb_opts() -> impl Strategy<Value = (bool, bool)> {
    // consumers that do not ask for SYNC must be frequent
    prop_oneof![
        4 => Just((false, false)),
        3 => Just((false, true)),
        2 => Just((true, false)),
        2 => Just((true, true)),
    ]
}

fn arb_noise(timeout: u64) -> impl Strategy<Value = DOp> {
    prop_oneof![
        3 => (1usize..5).prop_map(|k| DOp::Poll { k }),
        2 => Just(DOp::Settle),
        2 => (0usize..4, 1usize..40).prop_map(|(c, n)| DOp::CRead { c, n }),
        2 => (1usize..120).prop_map(|n| DOp::RRead { n }),
        2 => (1usize..120).prop_map(|n| DOp::RPump { n }),
        1 => Just(DOp::Change),
        1 => (0usize..4).prop_map(|c| DOp::Write { c }),
        2 => (1u64..timeout / 2).prop_map(|ms| DOp::Advance { ms }),
    ]
}

pub fn strategy() -> impl Strategy<Value = Case> {
    let kind = prop_oneof![Just(Kind::Value), Just(Kind::Map)];
    let timeout = prop_oneof![Just(500u64), Just(1000)];
    (kind, timeout).prop_flat_map(|(kind, timeout)| {
        (
            (
                any::<u64>(),
                prop_oneof![Just(2usize), Just(8), Just(64)],
                prop_oneof![Just(1usize), Just(2), Just(8)],
                prop_oneof![Just(8usize), Just(64), Just(4096)],
                prop_oneof![Just(8usize), Just(64), Just(4096)],
            ),
            // initial consumers; which of them keeps the write side busy and how
            proptest::collection::vec(arb_opts(), 0..3),
            // 0: the first initial consumer only stops listening (write side stays occupied);
            // 1: every initial consumer detaches completely; 2: nobody detaches
            prop_oneof![5 => Just(0u8), 2 => Just(1u8), 1 => Just(2u8)],
            (1u64..300, 1u64..300, any::<bool>(), any::<bool>()),
            // late joiners
            proptest::collection::vec((arb_opts(), prop_oneof![Just(2usize), Just(16), Just(256)]), 1..3),
            // how the write side becomes idle afterwards: 0 the occupying consumer detaches, 1 the late joiner
            // closes its command channel, 2 both, 3 neither
            0u8..4,
            (any::<bool>(), any::<bool>(), any::<bool>()),
            proptest::collection::vec((any::<u16>(), arb_noise(timeout)), 0..6),
        )
            .prop_map(
                move |((seed, budget, queue, to_cap, from_cap), init, mode, (d1, d2, again, write_first), late, release, (ev1, ev2, skip_vote), noise)| {
                    let params = Params {
                        kind,
                        seed,
                        budget,
                        attachment_queue: queue,
                        to_remote_cap: to_cap,
                        from_remote_cap: from_cap,
                        empty_timeout_ms: timeout,
                        init: vec![(0, 900_000)],
                    };
                    let mut ops = vec![];
                    for (sync, keep) in &init {
                        ops.push(DOp::Attach { sync: *sync, keep: *keep, in_cap: 64, out_cap: 64 });
                    }
                    ops.push(DOp::Settle);
                    if write_first && !init.is_empty() {
                        ops.push(DOp::Write { c: 0 });
                        ops.push(DOp::Settle);
                    }
                    let n_init = init.len();
                    match mode {
                        0 => {
                            for c in 0..n_init {
                                ops.push(if c == 0 { DOp::DropReader { c } } else { DOp::Drop { c } });
                            }
                        }
                        1 => {
                            for c in 0..n_init {
                                ops.push(DOp::Drop { c });
                            }
                        }
                        _ => {}
                    }
                    // the read task only notices a listener that went away when it next writes to it
                    ops.push(DOp::Change);
                    ops.push(DOp::Settle);
                    if !skip_vote {
                        ops.push(DOp::Advance { ms: timeout + d1 });
                        ops.push(DOp::Settle);
                    }
                    let first_late = n_init;
                    for ((sync, keep), cap) in &late {
                        ops.push(DOp::Attach { sync: *sync, keep: *keep, in_cap: *cap, out_cap: 64 });
                    }
                    ops.push(DOp::Settle);
                    if ev1 {
                        ops.push(DOp::Change);
                        ops.push(DOp::Settle);
                    }
                    if (release == 0 || release == 2) && mode == 0 && n_init > 0 {
                        ops.push(DOp::Drop { c: 0 });
                    }
                    if release == 1 || release == 2 {
                        for i in 0..late.len() {
                            ops.push(DOp::DropWriter { c: first_late + i });
                        }
                    }
                    ops.push(DOp::Poll { k: 1000 });
                    ops.push(DOp::Advance { ms: timeout + d2 });
                    ops.push(DOp::Settle);
                    if again {
                        ops.push(DOp::Advance { ms: timeout + d1 });
                        ops.push(DOp::Settle);
                    }
                    if ev2 {
                        ops.push(DOp::Change);
                        ops.push(DOp::Settle);
                    }
                    for (at, op) in noise {
                        let at = vcommon::pick_index(at, ops.len() + 1);
                        ops.insert(at, op);
                    }
                    Case { params, ops }
                },
            )
    })
}

struct ConsumerView {
    sync: bool,
    keep: bool,
    linked_seq: Option<u64>,
    unlinked: bool,
    gone: bool,
}

struct Obs {
    kind: Kind,
    consumers: Vec<ConsumerView>,
    /// the runtime future had finished at the fixpoint after the generated ops (before the harness's own stop)
    done: Option<u64>,
    settled_alive_at: Vec<u64>,
    /// harness-level bookkeeping for the non-triviality rule / classes
    read_voted_before_late_attach: bool,
    write_side_occupied_then: bool,
    write_side_idle_timeout_after: bool,
    remote_linked: bool,
}

fn execute(case: &Case) -> Obs {
    block_on_paused(case.params.seed, async {
        let mut rt = Rt::start(&case.params);
        let timeout = case.params.empty_timeout_ms;
        let mut next_id = 1u32;
        let kind = case.params.kind;
        let mut fresh = move || {
            let id = next_id;
            next_id += 1;
            match kind {
                Kind::Value => W::Val { id, pad: 0 },
                Kind::Map => W::Upd { k: (id % 3) as u8 * 2, id, pad: 0 },
            }
        };
        // bookkeeping on the harness side (virtual time in ms)
        let mut now = 0u64;
        // since when nobody listens AND the read task has had the chance to notice (a change was settled)
        let mut listeners_gone_noticed_at: Option<u64> = Some(0);
        let mut pending_notice = false;
        let mut read_voted_before_late_attach = false;
        let mut write_side_occupied_then = false;
        let mut write_idle_since: Option<u64> = None;
        let mut write_side_idle_timeout_after = false;
        let mut window_open = false;
        for op in &case.ops {
            let n = rt.consumers.len();
            let listening = |rt: &Rt| rt.consumers.iter().filter(|c| c.dropped.is_none() && c.reader_dropped.is_none()).count();
            let writing = |rt: &Rt| rt.consumers.iter().filter(|c| c.dropped.is_none() && c.writer_dropped.is_none()).count();
            match op {
                DOp::Attach { sync, keep, in_cap, out_cap } => {
                    if n < 6 {
                        if let Some(t) = listeners_gone_noticed_at {
                            if now > t + timeout && !rt.is_done() && rt.remote.linked {
                                read_voted_before_late_attach = true;
                                window_open = true;
                                if writing(&rt) > 0 {
                                    write_side_occupied_then = true;
                                }
                            }
                        }
                        rt.attach(*sync, *keep, *in_cap, *out_cap);
                        listeners_gone_noticed_at = None;
                        pending_notice = false;
                    }
                }
                DOp::Write { c } if n > 0 => {
                    let w = fresh();
                    let c = *c % n;
                    rt.consumers[c].write(&w);
                    loop {
                        let wrote = rt.consumers[c].pump(usize::MAX);
                        let polled = rt.poll(1000);
                        if rt.consumers[c].outbox_len() == 0 || (wrote == 0 && polled == 0) {
                            break;
                        }
                    }
                }
                DOp::DropReader { c } if n > 0 => rt.consumers[*c % n].drop_reader(),
                DOp::DropWriter { c } if n > 0 => rt.consumers[*c % n].drop_writer(),
                DOp::Drop { c } if n > 0 => rt.consumers[*c % n].drop_now(),
                DOp::Change => {
                    let w = fresh();
                    rt.remote.spontaneous(&w);
                    if listening(&rt) == 0 {
                        pending_notice = true;
                    }
                }
                DOp::Settle => {
                    rt.settle();
                    if pending_notice && listening(&rt) == 0 && listeners_gone_noticed_at.is_none() {
                        listeners_gone_noticed_at = Some(now);
                    }
                }
                DOp::Poll { k } => {
                    rt.poll(*k);
                }
                DOp::Advance { ms } => {
                    rt.advance(*ms).await;
                    now += *ms;
                }
                DOp::CRead { c, n: k } if n > 0 => {
                    rt.consumers[*c % n].read(*k);
                }
                DOp::RRead { n } => {
                    rt.remote.read(*n);
                }
                DOp::RPump { n } => {
                    rt.remote.pump(*n);
                }
                _ => {}
            }
            if window_open {
                if writing(&rt) == 0 {
                    match write_idle_since {
                        None => write_idle_since = Some(now),
                        Some(t) if now > t + timeout => write_side_idle_timeout_after = true,
                        _ => {}
                    }
                } else {
                    write_idle_since = None;
                }
            }
        }
        rt.settle();
        let done = rt.done;
        let settled_alive_at = rt.settled_alive_at.clone();
        let remote_linked = rt.remote.linked;
        // (the harness's own stop is not needed here: nothing is asserted about unlinked)
        let consumers = rt
            .consumers
            .iter()
            .map(|c| ConsumerView {
                sync: c.sync,
                keep: c.keep,
                linked_seq: c.frames.iter().find(|(_, f)| *f == Note::Linked).map(|(s, _)| *s),
                unlinked: c.frames.iter().any(|(_, f)| *f == Note::Unlinked),
                gone: c.dropped.is_some() || c.reader_dropped.is_some(),
            })
            .collect();
        Obs {
            kind,
            consumers,
            done,
            settled_alive_at,
            read_voted_before_late_attach,
            write_side_occupied_then,
            write_side_idle_timeout_after,
            remote_linked,
        }
    })
}

fn options_name(sync: bool, keep: bool) -> &'static str {
    match (sync, keep) {
        (false, false) => "empty",
        (false, true) => "KEEP_LINKED",
        (true, false) => "SYNC",
        (true, true) => "SYNC|KEEP_LINKED",
    }
}

/// No op of this sub-check stops the runtime, closes the connection or makes the lane unlink, so the only
/// way for the runtime future to finish is the unanimous inactivity vote.
///
/// A consumer is *established* when it has read `linked` (the read task has taken it: on the unchanged
/// tree the read task rescinds an outstanding vote in the very step that stores the consumer, and ends the
/// runtime in that step if unanimity had already been reached) and afterwards a full settle ended with the
/// runtime still running (so unanimity had not been reached before the consumer was stored). From then on
/// the read task holds no vote for as long as the consumer keeps listening, hence the runtime may not stop.
pub fn check(case: &Case) -> Verdict {
    let obs = execute(case);
    let mut v = Verdict::new();
    let mut established_live = false;
    for (ci, c) in obs.consumers.iter().enumerate() {
        let Some(ls) = c.linked_seq else { continue };
        let established = obs.settled_alive_at.iter().any(|e| *e > ls);
        if established && !c.gone {
            established_live = true;
            if let Some(d) = obs.done {
                v.fail(
                    format!(
                        "dl-runtime:stopped-with-live-consumer:{}:{}",
                        obs.kind.name(),
                        options_name(c.sync, c.keep)
                    ),
                    format!(
                        "consumer {} (options {}) read linked at seq {}, the runtime was still running when everything had settled afterwards, the consumer never stopped listening, nothing stopped the runtime or closed the link, yet the runtime finished at seq {} (consumer was told unlinked: {}): it stopped for inactivity although the read task's party was serving a consumer",
                        ci,
                        options_name(c.sync, c.keep),
                        ls,
                        d,
                        c.unlinked
                    ),
                );
            }
        }
    }
    if obs.read_voted_before_late_attach {
        v.nontrivial();
    }
    v.class_if(obs.read_voted_before_late_attach, "dl:attach-after-read-task-voted");
    v.class_if(
        obs.read_voted_before_late_attach && obs.write_side_occupied_then,
        "dl:attach-in-window(read-voted,write-side-occupied)",
    );
    v.class_if(obs.write_side_idle_timeout_after, "dl:write-side-idle-for-timeout-afterwards");
    v.class_if(established_live, "dl:live-consumer-at-end");
    v.class_if(obs.done.is_some(), "dl:runtime-stopped-for-inactivity");
    v.class_if(
        obs.consumers.iter().any(|c| !c.sync && c.linked_seq.is_some() && !c.gone),
        "dl:live-consumer-without-SYNC",
    );
    v.class_if(obs.kind == Kind::Map, "dl:map");
    v.class_if(obs.remote_linked, "dl:linked");
    v
}
