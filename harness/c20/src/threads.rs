//! C20 (3): k OS threads count events/commands on one `UplinkReporter` while another thread takes
//! snapshots. Whatever the schedule, the snapshots plus a final snapshot must add up to the number
//! of increments (nothing lost, nothing counted twice).

use proptest::prelude::*;
use serde::{Deserialize, Serialize};
use std::sync::atomic::{AtomicBool, Ordering};
use std::sync::{Arc, Barrier};
use swimos_runtime::agent::reporting::UplinkReporter;
use vcommon::Verdict;

#[derive(Clone, Debug, Serialize, Deserialize)]
pub struct ThreadCase {
    /// per counting thread: (number of increments, amount per event increment, amount per command increment)
    pub counters: Vec<(u32, u8, u8)>,
    /// the snapshot thread yields after every snapshot (more interleavings on few cores)
    pub yield_between: bool,
}

pub fn strategy() -> impl Strategy<Value = ThreadCase> {
    (
        proptest::collection::vec((2_000u32..30_000, 1u8..4, 0u8..3), 1..6),
        any::<bool>(),
    )
        .prop_map(|(counters, yield_between)| ThreadCase { counters, yield_between })
}

pub fn check(case: &ThreadCase) -> Verdict {
    let reporter = UplinkReporter::default();
    let reader = reporter.reader();
    let k = case.counters.len();
    let barrier = Arc::new(Barrier::new(k + 1));
    let done = Arc::new(AtomicBool::new(false));
    let mut exp_events = 0u64;
    let mut exp_cmds = 0u64;
    let mut handles = vec![];
    for (n, ev, cmd) in case.counters.iter().copied() {
        exp_events += n as u64 * ev as u64;
        exp_cmds += n as u64 * cmd as u64;
        let rep = reporter.clone();
        let b = barrier.clone();
        handles.push(std::thread::spawn(move || {
            b.wait();
            for _ in 0..n {
                rep.count_events(ev as u64);
                if cmd > 0 {
                    rep.count_commands(cmd as u64);
                }
            }
        }));
    }
    let snap = {
        let b = barrier.clone();
        let done = done.clone();
        let reader = reader.clone();
        let yield_between = case.yield_between;
        std::thread::spawn(move || {
            let (mut ev, mut cmd, mut snaps, mut nonzero) = (0u64, 0u64, 0u64, 0u64);
            b.wait();
            loop {
                let finished = done.load(Ordering::SeqCst);
                match reader.snapshot() {
                    Some(s) => {
                        ev += s.event_count;
                        cmd += s.command_count;
                        snaps += 1;
                        if s.event_count > 0 {
                            nonzero += 1;
                        }
                    }
                    None => return (ev, cmd, snaps, nonzero, true),
                }
                if finished {
                    // the snapshot above was taken after every counter had finished
                    return (ev, cmd, snaps, nonzero, false);
                }
                if yield_between {
                    std::thread::yield_now();
                }
            }
        })
    };
    for h in handles {
        h.join().expect("counter thread");
    }
    done.store(true, Ordering::SeqCst);
    let (ev, cmd, snaps, nonzero, dead) = snap.join().expect("snapshot thread");
    let mut v = Verdict::new();
    if dead {
        v.fail("threads:reader-dead", "snapshot() returned None while the reporter is alive");
    }
    // one more for good measure: must be empty
    let last = reader.snapshot();
    let (ev, cmd) = match last {
        Some(s) => (ev + s.event_count, cmd + s.command_count),
        None => (ev, cmd),
    };
    if ev != exp_events {
        v.fail(
            "threads:event-count",
            format!("{} threads counted {} events in total, snapshots ({} taken) add up to {}", k, exp_events, snaps, ev),
        );
    }
    if cmd != exp_cmds {
        v.fail(
            "threads:command-count",
            format!("{} threads counted {} commands in total, snapshots ({} taken) add up to {}", k, exp_cmds, snaps, cmd),
        );
    }
    // non-trivial: the snapshots really interleaved with the counting (several non-empty ones)
    if nonzero >= 3 && k >= 2 {
        v.nontrivial();
    }
    v.class_if(nonzero >= 3, "interleaved-snapshots>=3");
    v.class_if(nonzero >= 50, "interleaved-snapshots>=50");
    v.class_if(k >= 3, "threads>=3");
    drop(reporter);
    v
}
