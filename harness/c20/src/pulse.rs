//! C20 (5): what the introspection meta lanes PUBLISH. The real `NodeMetaAgent` / `LaneMetaAgent`
//! (obtained black-box through `register_introspection`) observe the real `SimAgent` running in the
//! real runtime with the `NodeReporting` handed out by `IntrospectionResolver::register_agent`; the
//! harness plays the runtime of the meta agents (a fake `AgentContext` hands out the lane channels),
//! reads every frame of their `pulse` lanes and, at the end, takes one last snapshot through a second
//! reader (`resolve_lane(..).report_reader` / `resolve_agent(..).aggregate_reader()`).
//!
//! Counting rules of the runtime (see agentsim.rs): +1 command on the lane and on the aggregate per
//! command envelope written to an existing lane; supply lane: +fan-out per supplied value, +1 per
//! sync (the `Synced` marker); a lane without links counts no events.
//!
//! Oracle: for the node aggregate and for each introspected lane,
//!   sum(event_count of the standard events published on `pulse`) + final snapshot == events counted,
//!   same for commands; link_count of every published pulse == number of links at that moment;
//!   a sync on the meta lane is answered with the last published pulse (so it is not summed).

use bytes::BytesMut;
use futures::future::BoxFuture;
use futures::FutureExt;
use parking_lot::Mutex;
use proptest::prelude::*;
use serde::{Deserialize, Serialize};
use std::future::Future;
use std::num::NonZeroUsize;
use std::pin::Pin;
use std::sync::atomic::{AtomicBool, AtomicU64, Ordering};
use std::sync::Arc;
use std::task::{Context, Poll, Wake, Waker};
use std::time::Duration;
use swimos_agent_protocol::encoding::lane::{RawValueLaneRequestEncoder, ValueLaneResponseDecoder};
use swimos_agent_protocol::{LaneRequest, LaneResponse};
use swimos_api::agent::{
    Agent, AgentConfig, AgentContext, BoxAgent, DownlinkKind, HttpLaneRequestChannel, LaneConfig, StoreKind, WarpLaneKind,
};
use swimos_api::error::{AgentRuntimeError, DownlinkRuntimeError, OpenStoreError};
use swimos_introspection::{register_introspection, AgentRegistration, IntrospectionConfig};
use swimos_meta::{LanePulse, NodePulse, WarpUplinkPulse};
use swimos_model::Text;
use swimos_runtime::agent::reporting::UplinkReportReader;
use swimos_utilities::byte_channel::{byte_channel, BudgetedFutureExt, ByteReader, ByteWriter};
use swimos_utilities::routing::{RoutePattern, RouteUri};
use swimos_utilities::trigger;
use tokio::io::{AsyncRead, AsyncWrite, ReadBuf};
use tokio_util::codec::{Decoder, Encoder};
use uuid::Uuid;
use vcommon::Verdict;
use vsim::agent::{make_agent, Act, AgentFlags, Ev, Shared};
use vsim::{harness_op, FrameKind, Req, Sim, SimParams};

const NODE: &str = "/node";
const NREMOTES: usize = 3;
/// Introspected targets: the node aggregate and two lanes.
const TARGETS: [&str; 3] = ["<node>", "sup", "cmd"];

#[derive(Clone, Debug, PartialEq, Eq, Serialize, Deserialize)]
pub struct Traffic {
    /// `runs` commands to the control lane, each runs program `prog` (k supplies to lane `sup`)
    pub runs: u8,
    pub prog: u8,
    /// commands to the command lane `cmd`
    pub cmd: u8,
    /// commands to the value lane `v0` (never linked: counted by the aggregate only)
    pub v0: u8,
}

impl Traffic {
    fn is_zero(&self) -> bool {
        self.runs == 0 && self.cmd == 0 && self.v0 == 0
    }
}

#[derive(Clone, Debug, PartialEq, Eq, Serialize, Deserialize)]
pub enum Step {
    /// remote r links / unlinks / syncs lane `sup`
    Link { r: u8 },
    Unlink { r: u8 },
    SyncSup { r: u8 },
    /// queue the traffic; deliver it now (settle) or leave it for the next settle
    Traffic { t: Traffic, settle: bool },
    Advance { ms: u64 },
    /// sync request on the `pulse` lane of meta agent `which`
    MetaSync { which: u8 },
    /// n times: the same traffic, then the same advance
    Steady { n: u8, t: Traffic, ms: u64, settle: bool },
}

#[derive(Clone, Debug, Serialize, Deserialize)]
pub struct Case {
    pub seed: u64,
    pub budget: usize,
    pub interval_ms: u64,
    /// capacity of the meta lanes' output channels
    pub out_cap: usize,
    /// poll the meta agents before / after the observed agent in every round
    pub meta_first: bool,
    /// number of supplies of each control-lane program
    pub programs: Vec<u8>,
    pub steps: Vec<Step>,
}

fn arb_traffic(nprogs: usize) -> impl Strategy<Value = Traffic> {
    (0u8..4, 0..nprogs as u8, 0u8..5, 0u8..3).prop_map(|(runs, prog, cmd, v0)| Traffic { runs, prog, cmd, v0 })
}

fn arb_nonzero_traffic(nprogs: usize) -> impl Strategy<Value = Traffic> {
    arb_traffic(nprogs).prop_map(|mut t| {
        if t.is_zero() {
            t.cmd = 1;
            t.runs = 1;
        }
        t
    })
}

fn arb_step(interval: u64, nprogs: usize) -> impl Strategy<Value = Step> {
    let steady_ms = prop_oneof![
        4 => Just(interval),
        2 => Just(interval + 1),
        1 => Just(interval + 250),
        1 => Just(2 * interval),
    ];
    let adv_ms = prop_oneof![
        4 => Just(interval),
        2 => Just(interval + 1),
        1 => Just(interval - 1),
        1 => Just(interval / 2),
        1 => Just(2 * interval),
        1 => Just(3 * interval + 7),
        2 => 1u64..500,
    ];
    prop_oneof![
        3 => (0u8..NREMOTES as u8).prop_map(|r| Step::Link { r }),
        1 => (0u8..NREMOTES as u8).prop_map(|r| Step::Unlink { r }),
        1 => (0u8..NREMOTES as u8).prop_map(|r| Step::SyncSup { r }),
        3 => (arb_traffic(nprogs), any::<bool>()).prop_map(|(t, settle)| Step::Traffic { t, settle }),
        4 => adv_ms.prop_map(|ms| Step::Advance { ms }),
        2 => (0u8..TARGETS.len() as u8).prop_map(|which| Step::MetaSync { which }),
        5 => (2u8..7, arb_nonzero_traffic(nprogs), steady_ms, any::<bool>()).prop_map(|(n, t, ms, settle)| Step::Steady { n, t, ms, settle }),
    ]
}

pub fn arb_case(max_steps: usize) -> impl Strategy<Value = Case> {
    (
        any::<u64>(),
        prop_oneof![Just(2usize), Just(8), Just(64)],
        prop_oneof![2 => Just(1000u64), 1 => Just(2000u64), 1 => Just(5000u64)],
        prop_oneof![Just(64usize), Just(256), Just(4096)],
        any::<bool>(),
        proptest::collection::vec(1u8..4, 1..4),
        0usize..4,
    )
        .prop_flat_map(move |(seed, budget, interval_ms, out_cap, meta_first, programs, nlinks)| {
            let n = programs.len();
            (
                Just((seed, budget, interval_ms, out_cap, meta_first, programs, nlinks)),
                proptest::collection::vec(arb_step(interval_ms, n), 2..max_steps),
            )
        })
        .prop_map(|((seed, budget, interval_ms, out_cap, meta_first, programs, nlinks), steps)| {
            let mut all: Vec<Step> = (0..nlinks.min(NREMOTES)).map(|r| Step::Link { r: r as u8 }).collect();
            all.extend(steps);
            Case { seed, budget, interval_ms, out_cap, meta_first, programs, steps: all }
        })
}

// ------------------------------------------------------------------------------------------------
// harness-side executor pieces

struct WFlag(AtomicBool);
impl Wake for WFlag {
    fn wake(self: Arc<Self>) {
        self.0.store(true, Ordering::SeqCst);
    }
    fn wake_by_ref(self: &Arc<Self>) {
        self.0.store(true, Ordering::SeqCst);
    }
}

/// A background future polled by the harness whenever it was woken.
struct Bg {
    fut: Option<Pin<Box<dyn Future<Output = ()>>>>,
    flag: Arc<WFlag>,
    waker: Waker,
}

impl Bg {
    fn new(f: impl Future<Output = ()> + 'static, budget: usize) -> Bg {
        let flag = Arc::new(WFlag(AtomicBool::new(true)));
        let waker = Waker::from(flag.clone());
        let fut = f.with_budget(NonZeroUsize::new(budget.max(2)).unwrap());
        Bg { fut: Some(Box::pin(fut)), flag, waker }
    }

    /// Poll while woken (at most `max` times). Returns the number of polls.
    fn poll(&mut self, max: usize) -> usize {
        let mut n = 0;
        while n < max {
            let Some(fut) = self.fut.as_mut() else { break };
            if !self.flag.0.swap(false, Ordering::SeqCst) {
                break;
            }
            n += 1;
            let mut cx = Context::from_waker(&self.waker);
            if let Poll::Ready(()) = fut.as_mut().poll(&mut cx) {
                self.fut = None;
            }
        }
        n
    }
}

/// Collects the agents `register_introspection` registers.
#[derive(Default)]
struct Capture {
    agents: Vec<(RoutePattern, BoxAgent)>,
}

impl AgentRegistration for Capture {
    fn register<A: Agent + Send + 'static>(&mut self, pattern: RoutePattern, agent: A) {
        self.agents.push((pattern, Box::new(agent)));
    }
}

type Endpoint = (String, ByteWriter, ByteReader);

/// The runtime side of a meta agent: creates the lane channels on request and keeps the other ends.
struct FakeCtx {
    out_cap: usize,
    endpoints: Arc<Mutex<Vec<Endpoint>>>,
}

impl AgentContext for FakeCtx {
    fn command_channel(&self) -> BoxFuture<'static, Result<ByteWriter, DownlinkRuntimeError>> {
        panic!("meta agent asked for a command channel");
    }

    fn add_lane(
        &self,
        name: &str,
        _lane_kind: WarpLaneKind,
        _config: LaneConfig,
    ) -> BoxFuture<'static, Result<(ByteWriter, ByteReader), AgentRuntimeError>> {
        let (in_tx, in_rx) = byte_channel(NonZeroUsize::new(4096).unwrap());
        let (out_tx, out_rx) = byte_channel(NonZeroUsize::new(self.out_cap.max(1)).unwrap());
        self.endpoints.lock().push((name.to_string(), in_tx, out_rx));
        async move { Ok((out_tx, in_rx)) }.boxed()
    }

    fn add_http_lane(&self, _name: &str) -> BoxFuture<'static, Result<HttpLaneRequestChannel, AgentRuntimeError>> {
        panic!("meta agent asked for an HTTP lane");
    }

    fn open_downlink(
        &self,
        _host: Option<&str>,
        _node: &str,
        _lane: &str,
        _kind: DownlinkKind,
    ) -> BoxFuture<'static, Result<(ByteWriter, ByteReader), DownlinkRuntimeError>> {
        panic!("meta agent asked for a downlink");
    }

    fn add_store(&self, _name: &str, _kind: StoreKind) -> BoxFuture<'static, Result<(ByteWriter, ByteReader), OpenStoreError>> {
        panic!("meta agent asked for a store");
    }
}

#[derive(Clone, Debug, PartialEq, Eq)]
enum MetaStatus {
    Init,
    Running,
    InitFailed(String),
    Ended(Result<(), String>),
}

#[derive(Clone, Copy, Debug, PartialEq, Eq)]
struct P {
    links: u64,
    events: u64,
    commands: u64,
    event_rate: u64,
    command_rate: u64,
}

impl From<WarpUplinkPulse> for P {
    fn from(p: WarpUplinkPulse) -> P {
        P { links: p.link_count, events: p.event_count, commands: p.command_count, event_rate: p.event_rate, command_rate: p.command_rate }
    }
}

#[derive(Clone, Debug, PartialEq, Eq)]
enum Resp {
    Std(P),
    SyncEv(Uuid, P),
    Synced(Uuid),
    Initialized,
}

fn conv<T>(r: LaneResponse<T>, f: impl Fn(T) -> WarpUplinkPulse) -> Resp {
    match r {
        LaneResponse::StandardEvent(p) => Resp::Std(f(p).into()),
        LaneResponse::SyncEvent(id, p) => Resp::SyncEv(id, f(p).into()),
        LaneResponse::Synced(id) => Resp::Synced(id),
        LaneResponse::Initialized => Resp::Initialized,
    }
}

enum Dec {
    Node(ValueLaneResponseDecoder<NodePulse>),
    Lane(ValueLaneResponseDecoder<LanePulse>),
}

impl Dec {
    fn decode(&mut self, buf: &mut BytesMut) -> Result<Option<Resp>, String> {
        match self {
            Dec::Node(d) => d.decode(buf).map(|o| o.map(|r| conv(r, |p: NodePulse| p.uplinks))).map_err(|e| format!("{:?}", e)),
            Dec::Lane(d) => d.decode(buf).map(|o| o.map(|r| conv(r, |p: LanePulse| p.uplink_pulse))).map_err(|e| format!("{:?}", e)),
        }
    }
}

/// The harness end of one meta agent.
struct Meta {
    task: Bg,
    status: Arc<Mutex<MetaStatus>>,
    endpoints: Arc<Mutex<Vec<Endpoint>>>,
    tx: Option<ByteWriter>,
    rx: Option<ByteReader>,
    /// other lanes of the meta agent (kept open, never used)
    _others: Vec<Endpoint>,
    dec: Dec,
    inbox: BytesMut,
    outbox: BytesMut,
    /// (index of the primitive step during which the frame was read, frame)
    frames: Vec<(usize, Resp)>,
    syncs_sent: Vec<Uuid>,
    decode_error: Option<String>,
    closed: bool,
}

impl Meta {
    fn read(&mut self, step: usize) -> usize {
        let mut total = 0;
        loop {
            let Some(r) = self.rx.as_mut() else { break };
            let mut tmp = [0u8; 1024];
            let mut rb = ReadBuf::new(&mut tmp);
            match harness_op(|cx| Pin::new(&mut *r).poll_read(cx, &mut rb)) {
                Poll::Ready(Ok(())) => {
                    let n = rb.filled().len();
                    if n == 0 {
                        self.rx = None;
                        self.closed = true;
                        break;
                    }
                    self.inbox.extend_from_slice(rb.filled());
                    total += n;
                }
                Poll::Ready(Err(_)) => {
                    self.rx = None;
                    self.closed = true;
                    break;
                }
                Poll::Pending => break,
            }
        }
        while self.decode_error.is_none() {
            match self.dec.decode(&mut self.inbox) {
                Ok(Some(resp)) => self.frames.push((step, resp)),
                Ok(None) => break,
                Err(e) => self.decode_error = Some(e),
            }
        }
        total
    }

    fn flush(&mut self) -> usize {
        let mut written = 0;
        while !self.outbox.is_empty() {
            let Some(w) = self.tx.as_mut() else { break };
            let chunk = &self.outbox[..];
            match harness_op(|cx| Pin::new(&mut *w).poll_write(cx, chunk)) {
                Poll::Ready(Ok(0)) => break,
                Poll::Ready(Ok(k)) => {
                    let _ = self.outbox.split_to(k);
                    written += k;
                }
                Poll::Ready(Err(_)) => {
                    self.tx = None;
                    self.outbox.clear();
                }
                Poll::Pending => break,
            }
        }
        written
    }

    fn sync(&mut self, id: Uuid) {
        let mut enc = RawValueLaneRequestEncoder::default();
        let req: LaneRequest<Vec<u8>> = LaneRequest::Sync(id);
        enc.encode(req, &mut self.outbox).expect("encode sync");
        self.syncs_sent.push(id);
    }
}

struct Readers {
    agg: UplinkReportReader,
    lanes: Vec<(String, UplinkReportReader)>,
}

struct World {
    sim: Sim,
    intro: Bg,
    metas: Vec<Meta>,
    aux: Vec<Bg>,
    meta_first: bool,
    step: usize,
}

impl World {
    fn poll_bg(&mut self) -> usize {
        let mut total = 0;
        loop {
            let mut n = self.intro.poll(64);
            for m in self.metas.iter_mut() {
                n += m.flush();
                n += m.task.poll(64);
            }
            for a in self.aux.iter_mut() {
                n += a.poll(64);
            }
            let step = self.step;
            for m in self.metas.iter_mut() {
                n += m.read(step);
            }
            total += n;
            if n == 0 {
                break;
            }
            if total > 10_000_000 {
                panic!("background tasks did not become idle (livelock)");
            }
        }
        total
    }

    /// Everything runs to a fixpoint: requests delivered, agent idle, meta agents idle, outputs read.
    fn settle(&mut self) {
        let mut rounds = 0;
        loop {
            rounds += 1;
            let mut progress = 0;
            if self.meta_first {
                progress += self.poll_bg();
            }
            if self.sim.settle() > 1 {
                progress += 1;
            }
            progress += self.poll_bg();
            if progress == 0 {
                break;
            }
            if rounds > 100_000 {
                panic!("world did not settle (livelock)");
            }
        }
    }
}

struct Obs {
    /// per target: frames read and final remainder
    frames: Vec<Vec<(usize, Resp)>>,
    remainder: Vec<Option<(u64, u64, u64)>>,
    status: Vec<MetaStatus>,
    decode_errors: Vec<Option<String>>,
    syncs: Vec<Vec<Uuid>>,
    setup_error: Option<String>,
    /// fan-out of lane `sup` before / after every primitive step, and the clock at its end
    fan_before: Vec<u64>,
    fan_after: Vec<u64>,
    /// (clock at the end of a link step, fan-out from then on)
    epochs: Vec<(u64, u64)>,
    trace: Vec<(u64, Ev)>,
    sent: Vec<Vec<(String, Req, u64, Option<u64>)>>,
    agent_result: Option<Result<(), String>>,
    prims: Vec<Prim>,
}

/// Primitive steps (a `Steady` run is expanded).
#[derive(Clone, Debug, PartialEq, Eq)]
enum Prim {
    Link(u8),
    Unlink(u8),
    SyncSup(u8),
    Traffic(Traffic, bool),
    Advance(u64),
    MetaSync(u8),
}

fn expand(steps: &[Step]) -> Vec<Prim> {
    let mut out = vec![];
    for s in steps {
        match s {
            Step::Link { r } => out.push(Prim::Link(*r)),
            Step::Unlink { r } => out.push(Prim::Unlink(*r)),
            Step::SyncSup { r } => out.push(Prim::SyncSup(*r)),
            Step::Traffic { t, settle } => out.push(Prim::Traffic(t.clone(), *settle)),
            Step::Advance { ms } => out.push(Prim::Advance(*ms)),
            Step::MetaSync { which } => out.push(Prim::MetaSync(*which)),
            Step::Steady { n, t, ms, settle } => {
                for _ in 0..*n {
                    out.push(Prim::Traffic(t.clone(), *settle));
                    out.push(Prim::Advance(*ms));
                }
            }
        }
    }
    out
}

fn fanout(sim: &Sim) -> u64 {
    let mut n = 0;
    for r in &sim.remotes {
        let mut open = false;
        for f in r.frames.iter().filter(|f| f.lane == "sup") {
            match f.kind {
                FrameKind::Linked => open = true,
                FrameKind::Unlinked(_) => open = false,
                _ => {}
            }
        }
        if open {
            n += 1;
        }
    }
    n
}

fn execute(case: &Case) -> Obs {
    let prims = expand(&case.steps);
    vsim::block_on_paused(case.seed, async {
        let clock = Arc::new(AtomicU64::new(1));
        let mut next_v = 1_000_000i64;
        let programs: Vec<Vec<Act>> = case
            .programs
            .iter()
            .map(|k| {
                (0..*k)
                    .map(|_| {
                        next_v += 1;
                        Act::Supply { v: next_v }
                    })
                    .collect()
            })
            .collect();
        let shared = Shared::new(clock.clone(), programs, AgentFlags::default());
        let agent = make_agent(shared.clone());

        // the introspection system, through its public entry point
        let (_stop_tx, stop_rx) = trigger::trigger();
        let config = IntrospectionConfig {
            node_pulse_interval: Duration::from_millis(case.interval_ms),
            lane_pulse_interval: Duration::from_millis(case.interval_ms),
            registration_channel_size: NonZeroUsize::new(4).unwrap(),
        };
        let mut capture = Capture::default();
        let (resolver, intro_task) = register_introspection(stop_rx, config, &mut capture);
        let intro = Bg::new(intro_task, case.budget);

        let params = SimParams {
            seed: case.seed,
            budget: case.budget,
            prune_remote_delay_ms: 100_000_000,
            inactive_timeout_ms: 100_000_000,
            shutdown_timeout_ms: 100_000_000,
            ..SimParams::default()
        };
        let agent_id = Uuid::from_u128(0xA6E47);
        let node_uri: RouteUri = NODE.parse().expect("route");
        let reporting = match resolver.register_agent(agent_id, node_uri, Text::new("SimAgent")) {
            Ok(r) => r,
            Err(_) => panic!("introspection task stopped before the agent was registered"),
        };
        let sim = Sim::start(&agent, &params, clock, Some(reporting));
        let mut w = World { sim, intro, metas: vec![], aux: vec![], meta_first: case.meta_first, step: 0 };
        // agent initialisation: the lane registrations go through the (small) registration channel
        loop {
            let mut n = w.sim.poll(10_000);
            n += w.poll_bg();
            if n == 0 {
                break;
            }
        }
        for _ in 0..NREMOTES {
            w.sim.attach(4096, 4096);
        }
        w.settle();

        // second readers, used only for the final remainder
        let readers: Arc<Mutex<Option<Result<Readers, String>>>> = Arc::new(Mutex::new(None));
        {
            let slot = readers.clone();
            let resolver = resolver.clone();
            w.aux.push(Bg::new(
                async move {
                    let result = async {
                        let agg = resolver.resolve_agent(Text::new(NODE)).await.map_err(|e| format!("{}", e))?.aggregate_reader();
                        let mut lanes = vec![];
                        for name in &TARGETS[1..] {
                            let view = resolver.resolve_lane(Text::new(NODE), Text::new(name)).await.map_err(|e| format!("{}", e))?;
                            lanes.push((name.to_string(), view.report_reader));
                        }
                        Ok::<Readers, String>(Readers { agg, lanes })
                    }
                    .await;
                    *slot.lock() = Some(result);
                },
                64,
            ));
        }

        // the meta agents
        for (ti, target) in TARGETS.iter().enumerate() {
            let route: RouteUri = if ti == 0 {
                "swimos:meta:node/%2Fnode".parse().expect("meta route")
            } else {
                format!("swimos:meta:node/%2Fnode/lane/{}", target).parse().expect("meta route")
            };
            // route the URI the way the server does: first registered pattern that matches
            let Some((agent, params)) = capture.agents.iter().find_map(|(p, a)| p.unapply_route_uri(&route).ok().map(|params| (a, params))) else {
                panic!("no meta agent is registered for {}", route);
            };
            let endpoints: Arc<Mutex<Vec<Endpoint>>> = Arc::new(Mutex::new(vec![]));
            let ctx = FakeCtx { out_cap: case.out_cap, endpoints: endpoints.clone() };
            let status = Arc::new(Mutex::new(MetaStatus::Init));
            let st = status.clone();
            let init = agent.run(route, params, AgentConfig::DEFAULT, Box::new(ctx));
            let task = Bg::new(
                async move {
                    match init.await {
                        Ok(run) => {
                            *st.lock() = MetaStatus::Running;
                            let r = run.await;
                            *st.lock() = MetaStatus::Ended(r.map_err(|e| format!("{:?}", e)));
                        }
                        Err(e) => *st.lock() = MetaStatus::InitFailed(format!("{:?}", e)),
                    }
                },
                case.budget,
            );
            w.metas.push(Meta {
                task,
                status,
                endpoints,
                tx: None,
                rx: None,
                _others: vec![],
                dec: if ti == 0 { Dec::Node(Default::default()) } else { Dec::Lane(Default::default()) },
                inbox: BytesMut::new(),
                outbox: BytesMut::new(),
                frames: vec![],
                syncs_sent: vec![],
                decode_error: None,
                closed: false,
            });
        }
        w.settle();
        let mut setup_error = None;
        for (ti, m) in w.metas.iter_mut().enumerate() {
            let mut eps = std::mem::take(&mut *m.endpoints.lock());
            if let Some(i) = eps.iter().position(|(n, _, _)| n == "pulse") {
                let (_, tx, rx) = eps.remove(i);
                m.tx = Some(tx);
                m.rx = Some(rx);
            }
            m._others = eps;
            let st = m.status.lock().clone();
            if st != MetaStatus::Running || m.rx.is_none() {
                setup_error = Some(format!("meta agent for {} did not start: {:?}", TARGETS[ti], st));
            }
        }
        let readers = match readers.lock().take() {
            Some(Ok(r)) => Some(r),
            Some(Err(e)) => {
                setup_error = Some(format!("could not resolve the second readers: {}", e));
                None
            }
            None => {
                setup_error = Some("the introspection task did not answer the resolve requests".to_string());
                None
            }
        };

        let mut fan_before = vec![];
        let mut fan_after = vec![];
        let mut epochs = vec![(0u64, fanout(&w.sim))];
        let mut cmd_v = 0i64;
        if setup_error.is_none() {
            for (i, p) in prims.iter().enumerate() {
                w.step = i;
                fan_before.push(fanout(&w.sim));
                match p {
                    Prim::Link(r) | Prim::Unlink(r) | Prim::SyncSup(r) => {
                        // the link relation only changes between quiescent states
                        w.settle();
                        fan_before[i] = fanout(&w.sim);
                        let req = match p {
                            Prim::Link(_) => Req::Link,
                            Prim::Unlink(_) => Req::Unlink,
                            _ => Req::Sync,
                        };
                        w.sim.remotes[*r as usize % NREMOTES].send("sup", req);
                        w.settle();
                        epochs.push((w.sim.now(), fanout(&w.sim)));
                    }
                    Prim::Traffic(t, settle) => {
                        for k in 0..t.runs {
                            w.sim.remotes[k as usize % NREMOTES].send("ctl", Req::Command(t.prog.to_string().into_bytes()));
                        }
                        for k in 0..t.cmd {
                            cmd_v += 1;
                            w.sim.remotes[(k as usize + 1) % NREMOTES].send("cmd", Req::Command(cmd_v.to_string().into_bytes()));
                        }
                        for k in 0..t.v0 {
                            cmd_v += 1;
                            w.sim.remotes[(k as usize + 2) % NREMOTES].send("v0", Req::Command(cmd_v.to_string().into_bytes()));
                        }
                        if *settle {
                            w.settle();
                        }
                    }
                    Prim::Advance(ms) => {
                        w.sim.advance(Duration::from_millis(*ms)).await;
                        w.settle();
                    }
                    Prim::MetaSync(which) => {
                        let id = Uuid::from_u128(0x5000 + i as u128);
                        let idx = *which as usize % w.metas.len();
                        w.metas[idx].sync(id);
                        w.settle();
                    }
                }
                fan_after.push(fanout(&w.sim));
            }
            w.step = prims.len();
            w.settle();
        }
        let remainder: Vec<Option<(u64, u64, u64)>> = match &readers {
            Some(r) => {
                let mut v = vec![r.agg.snapshot().map(|s| (s.link_count, s.event_count, s.command_count))];
                for (_, l) in &r.lanes {
                    v.push(l.snapshot().map(|s| (s.link_count, s.event_count, s.command_count)));
                }
                v
            }
            None => vec![None; TARGETS.len()],
        };
        Obs {
            frames: w.metas.iter().map(|m| m.frames.clone()).collect(),
            remainder,
            status: w.metas.iter().map(|m| m.status.lock().clone()).collect(),
            decode_errors: w.metas.iter().map(|m| m.decode_error.clone()).collect(),
            syncs: w.metas.iter().map(|m| m.syncs_sent.clone()).collect(),
            setup_error,
            fan_before,
            fan_after,
            epochs,
            trace: shared.trace(),
            sent: w.sim.remotes.iter().map(|r| r.sent.clone()).collect(),
            agent_result: w.sim.result.clone(),
            prims,
        }
    })
}

pub fn check(case: &Case) -> Verdict {
    let obs = execute(case);
    let mut v = Verdict::new();
    if std::env::var("VERIF_DUMP").is_ok() {
        eprintln!("prims {:?}", obs.prims);
        for (ti, f) in obs.frames.iter().enumerate() {
            eprintln!("{} frames {:?}\n   remainder {:?} status {:?}", TARGETS[ti], f, obs.remainder[ti], obs.status[ti]);
        }
        eprintln!("epochs {:?} trace {:?}", obs.epochs, obs.trace);
    }
    if let Some(e) = &obs.setup_error {
        v.fail("pulse:setup", e.clone());
        return v;
    }
    if let Some(r) = &obs.agent_result {
        v.fail("pulse:agent-ended", format!("the observed agent ended during the run: {:?}", r));
        return v;
    }

    // ---- what was counted (runtime rules, see header)
    let written = |lane: &str, pred: &dyn Fn(&Req) -> bool| -> u64 {
        obs.sent.iter().flatten().filter(|(l, req, _, w)| l == lane && pred(req) && w.is_some()).count() as u64
    };
    let is_cmd = |r: &Req| matches!(r, Req::Command(_));
    let unwritten = obs.sent.iter().flatten().filter(|(_, _, _, w)| w.is_none()).count();
    let cmd_cmds = written("cmd", &is_cmd);
    let all_cmds = cmd_cmds + written("v0", &is_cmd) + written("ctl", &is_cmd);
    let mut sup_events = written("sup", &|r| matches!(r, Req::Sync));
    let mut runs_seen = 0u64;
    for (s, ev) in &obs.trace {
        if let Ev::ProgBegin { idx } = ev {
            runs_seen += 1;
            let k = case.programs.get((*idx).max(0) as usize).copied().unwrap_or(0) as u64;
            let fan = obs.epochs.iter().rev().find(|(at, _)| at <= s).map(|(_, f)| *f).unwrap_or(0);
            sup_events += k * fan;
        }
    }
    if unwritten > 0 || runs_seen != written("ctl", &is_cmd) {
        // the harness could not deliver everything: the expected totals below would be wrong
        v.fail("pulse:harness-undelivered", format!("{} requests unwritten, {} programs ran of {} control commands", unwritten, runs_seen, written("ctl", &is_cmd)));
        return v;
    }
    let expected: [(u64, u64); 3] = [(sup_events, all_cmds), (sup_events, 0), (0, cmd_cmds)];

    let mut identical_seen = false;
    let mut pulses_total = 0usize;
    for (ti, name) in TARGETS.iter().enumerate() {
        if obs.status[ti] != MetaStatus::Running {
            v.fail("pulse:meta-agent-stopped", format!("the meta agent of {} ended while the observed agent runs: {:?}", name, obs.status[ti]));
        }
        if let Some(e) = &obs.decode_errors[ti] {
            v.fail("pulse:undecodable-frame", format!("{}: {}", name, e));
            continue;
        }
        let Some((_, rem_ev, rem_cmd)) = obs.remainder[ti] else {
            v.fail("pulse:reader-dead", format!("the second reader of {} is invalid while the agent runs", name));
            continue;
        };
        let mut sum_ev = 0u64;
        let mut sum_cmd = 0u64;
        let mut last: Option<P> = None;
        let mut prev_std: Option<P> = None;
        let mut open_sync: Option<Uuid> = None;
        let mut answered = vec![];
        for (step, f) in &obs.frames[ti] {
            match f {
                Resp::Std(p) => {
                    pulses_total += 1;
                    sum_ev += p.events;
                    sum_cmd += p.commands;
                    if let Some(q) = prev_std {
                        if q == *p && (p.events > 0 || p.commands > 0) {
                            identical_seen = true;
                        }
                    }
                    prev_std = Some(*p);
                    last = Some(*p);
                    // links at the moment of the snapshot
                    let (lo, hi) = if *step < obs.fan_before.len() {
                        let (a, b) = (obs.fan_before[*step], obs.fan_after[*step]);
                        (a.min(b), a.max(b))
                    } else {
                        let f = obs.fan_after.last().copied().unwrap_or(0);
                        (f, f)
                    };
                    let (lo, hi) = if ti == 2 { (0, 0) } else { (lo, hi) };
                    if p.links < lo || p.links > hi {
                        v.fail(
                            "pulse:link-count",
                            format!("{}: a pulse published during step {} ({:?}) reports link_count {} while {}..={} remotes are linked", name, step, obs.prims.get(*step), p.links, lo, hi),
                        );
                    }
                }
                Resp::SyncEv(id, p) => {
                    open_sync = Some(*id);
                    if let Some(l) = last {
                        if l != *p {
                            v.fail("pulse:sync-answer", format!("{}: a sync was answered with {:?}, the last published pulse is {:?}", name, p, l));
                        }
                    } else if p.events != 0 || p.commands != 0 {
                        v.fail("pulse:sync-answer", format!("{}: before any pulse a sync was answered with {:?} (nothing had been counted when the meta agent started)", name, p));
                    }
                }
                Resp::Synced(id) => {
                    if open_sync != Some(*id) {
                        v.fail("pulse:sync-answer", format!("{}: synced {} without a sync event for it", name, id));
                    }
                    answered.push(*id);
                    open_sync = None;
                }
                Resp::Initialized => {}
            }
        }
        if answered != obs.syncs[ti] {
            v.fail("pulse:sync-answer", format!("{}: sync requests {:?} were answered by {:?}", name, obs.syncs[ti], answered));
        }
        let (exp_ev, exp_cmd) = expected[ti];
        let got_ev = sum_ev + rem_ev;
        let got_cmd = sum_cmd + rem_cmd;
        if got_ev < exp_ev {
            v.fail(
                "pulse:events-lost",
                format!("{}: {} events were counted, the published pulses add up to {} and {} are still unreported: {} were never published", name, exp_ev, sum_ev, rem_ev, exp_ev - got_ev),
            );
        } else if got_ev > exp_ev {
            v.fail("pulse:events-overcounted", format!("{}: {} events were counted, published {} + unreported {}", name, exp_ev, sum_ev, rem_ev));
        }
        if got_cmd < exp_cmd {
            v.fail(
                "pulse:commands-lost",
                format!("{}: {} commands were received, the published pulses add up to {} and {} are still unreported: {} were never published", name, exp_cmd, sum_cmd, rem_cmd, exp_cmd - got_cmd),
            );
        } else if got_cmd > exp_cmd {
            v.fail("pulse:commands-overcounted", format!("{}: {} commands were received, published {} + unreported {}", name, exp_cmd, sum_cmd, rem_cmd));
        }
    }

    // ---- non-trivial: two consecutive pulse intervals with identical non-zero traffic (generator level:
    // the same for the unchanged and for a changed implementation)
    let mut intervals: Vec<(Traffic, u64, u64, u64)> = vec![];
    let mut acc = Traffic { runs: 0, prog: 0, cmd: 0, v0: 0 };
    let mut acc_events = 0u64;
    let mut since = 0u64;
    let mut dirty = false;
    let mut steady_pairs = 0usize;
    let mut longest = 0usize;
    let mut run_len = 1usize;
    for (i, p) in obs.prims.iter().enumerate() {
        match p {
            Prim::Traffic(t, _) => {
                acc.runs += t.runs;
                acc.cmd += t.cmd;
                acc.v0 += t.v0;
                acc_events += t.runs as u64 * case.programs.get(t.prog as usize).copied().unwrap_or(0) as u64 * obs.fan_before[i];
            }
            Prim::Link(_) | Prim::Unlink(_) | Prim::SyncSup(_) => dirty = true,
            Prim::MetaSync(_) => {}
            Prim::Advance(ms) => {
                since += ms;
                if since >= case.interval_ms {
                    let rec = (acc.clone(), acc_events, since, obs.fan_before[i]);
                    if !dirty && !acc.is_zero() && intervals.last() == Some(&rec) {
                        steady_pairs += 1;
                        run_len += 1;
                        longest = longest.max(run_len);
                    } else {
                        run_len = 1;
                    }
                    intervals.push(rec);
                    acc = Traffic { runs: 0, prog: 0, cmd: 0, v0: 0 };
                    acc_events = 0;
                    since = 0;
                    dirty = false;
                }
            }
        }
    }
    if steady_pairs > 0 {
        v.nontrivial();
    }
    v.class_if(steady_pairs > 0, "pulse:steady-intervals>=2");
    v.class_if(longest >= 4, "pulse:steady-intervals>=4");
    v.class_if(identical_seen, "pulse:identical-consecutive-pulses-published");
    v.class_if(pulses_total >= 10, "pulse:>=10-pulses");
    v.class_if(pulses_total == 0, "pulse:no-pulse");
    v.class_if(sup_events > 0, "pulse:events-to-links");
    v.class_if(obs.syncs.iter().any(|s| !s.is_empty()), "pulse:meta-sync");
    v.class_if(obs.prims.iter().any(|p| matches!(p, Prim::Traffic(t, false) if !t.is_zero())), "pulse:traffic-in-flight-at-advance");
    v.class_if(case.out_cap < 256, "pulse:small-output-channel");
    v.class_if(obs.fan_after.iter().any(|f| *f >= 2), "pulse:fan-out>=2");
    v
}
