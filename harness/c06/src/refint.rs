//! Reference interpreter (plain recursive Rust over the same program tables and a model of the lanes)
//! and the incremental block oracle.
//!
//! Semantics (docs/event_handler.md, docs/lifecycle.md): a handler that changes a lane is suspended,
//! the lane's handlers run to completion (value lane: on_event then on_set with the previous value; map
//! lane: on_update / on_remove / on_clear with the previous entry / contents), then the handler resumes.
//! A failure (or a stop instruction) unwinds the whole chain of interrupted handlers.

use crate::agent::{Rec, Top};
use crate::ast::{arm_of, is_value, to_val, try_fails, How, Obs, Src, Tables, HK, P, V};
use serde::{Deserialize, Serialize};
use std::collections::BTreeMap;

#[derive(Clone, Debug, Default, PartialEq, Eq)]
pub struct Model {
    pub v: [i32; 2],
    pub m: [BTreeMap<i32, i32>; 2],
}

impl Model {
    fn snapshot(&self, lane: u8) -> Vec<(i32, i32)> {
        self.m[(lane / 2) as usize].iter().map(|(k, v)| (*k, *v)).collect()
    }
    fn read(&self, src: Src) -> Obs {
        match src {
            Src::Val(l) => Obs::V(self.v[(l / 2) as usize]),
            Src::Entry(l, k) => Obs::E(self.m[(l / 2) as usize].get(&k).copied()),
            Src::Map(l) => Obs::M(self.snapshot(l)),
        }
    }
}

#[derive(Clone, Copy, Debug, PartialEq, Eq)]
pub enum Flow {
    Done,
    Fail,
    Stop,
    /// The reference execution exceeded the record budget (case abandoned).
    Overflow,
}

/// A command a remote sent to a lane.
#[derive(Clone, Debug, PartialEq, Eq, PartialOrd, Ord, Serialize, Deserialize)]
pub enum Cmd {
    Run(u16),
    Set { lane: u8, v: i32 },
    Upd { lane: u8, k: i32, v: i32 },
    Rem { lane: u8, k: i32 },
    Clr { lane: u8 },
}

/// What started a block.
#[derive(Clone, Debug, PartialEq, Eq)]
pub enum Trigger {
    Top(Top),
    Ext(Cmd),
}

#[derive(Clone, Copy, Default)]
struct Sum {
    /// Depth of the deepest chain of triggered handlers below this body.
    depth: usize,
    /// Lanes modified by this body or anything it triggered.
    lanes: u8,
}

#[derive(Default)]
struct FrameState {
    sum: Sum,
    /// Lanes modified by triggered handlers in cascades of depth >= 2 started by this handler.
    deep_dirty: u8,
    /// Lanes modified by any cascade started by this handler.
    any_dirty: u8,
}

#[derive(Default, Clone, Debug)]
pub struct Stats {
    /// A handler read, after resuming, a lane modified by a cascade of depth >= 2 that it started.
    pub nontrivial: bool,
    /// A handler read, after resuming, a lane modified by a cascade it started.
    pub read_after_cascade: bool,
    pub max_depth: usize,
    pub mutations: usize,
    pub spawns: usize,
    pub branches: usize,
    /// Executed and_then / and_then_contextual / and_then_try nodes.
    pub binds: [usize; 3],
    pub computed_mutations: usize,
    /// Nesting depth of value producing combinators that was executed.
    pub max_value_depth: usize,
    /// A combinator's operand `program.followed_by(value)` whose program mutates a lane was executed.
    pub multi_step_first: bool,
    pub noop_removes: usize,
    pub empty_clears: usize,
    pub same_value_sets: usize,
}

pub const RECORD_BUDGET: usize = 4000;

/// Marker left by the most recent lane mutation of the current frame, after its cascade completed.
#[derive(Clone)]
struct LastMut {
    /// Length of `out` / `spawned` before the cascade's first record.
    out_len: usize,
    spawned_len: usize,
    /// The model right after the mutation itself, before any triggered handler ran.
    model: Model,
    quirks_len: usize,
}

/// The places where the implementation evaluates a continuation closure in the *same step* in which the
/// first operand completed with a lane modification, i.e. before the handlers triggered by that
/// modification run.
#[derive(Clone, Copy, Debug, PartialEq, Eq, PartialOrd, Ord)]
pub enum Quirk {
    /// `and_then_contextual`: the closure reads the agent before the triggered handlers ran.
    CtxBeforeCascade,
    /// `and_then_try`: the closure fails, the modification (and its handlers) is dropped.
    AndThenTryDrops,
    /// `try_handler`: the result is `Err`, the modification (and its handlers) is dropped.
    TryHandlerDrops,
}

impl Quirk {
    pub fn sig(&self) -> &'static str {
        match self {
            Quirk::CtxBeforeCascade => "continuation-runs-before-triggered-handlers:and_then_contextual",
            Quirk::AndThenTryDrops => "modification-dropped-on-failure:and_then_try",
            Quirk::TryHandlerDrops => "modification-dropped-on-failure:try_handler",
        }
    }
}

pub struct Ref<'a> {
    pub t: &'a Tables,
    pub model: Model,
    pub out: Vec<Rec>,
    pub spawned: Vec<u16>,
    pub stats: Stats,
    overflow: bool,
    /// The last executed step of the current frame completed with a (triggering) lane modification.
    tail: bool,
    last_mut: Option<LastMut>,
    /// false: documented semantics; true: mirror the implementation at the `Quirk` sites.
    pub quirk_mode: bool,
    /// Quirk sites met while executing the current block.
    pub quirks: Vec<Quirk>,
}

fn how_index(h: How) -> usize {
    match h {
        How::Then => 0,
        How::Ctx(_) => 1,
        How::Try => 2,
    }
}

fn vdepth(v: &V) -> usize {
    match v {
        V::Get(_) | V::Const(_) => 0,
        V::Of(..) => 1,
        V::After(_, v) | V::Map(v, _) | V::Opt(v) | V::Try(v) => 1 + vdepth(v),
        V::Bind { first, arms, .. } => 1 + arms.iter().map(vdepth).max().unwrap_or(0).max(vdepth(first)),
        V::Join(a, b) => 1 + vdepth(a).max(vdepth(b)),
        V::Join3(a, b, c) => 1 + vdepth(a).max(vdepth(b)).max(vdepth(c)),
    }
}

/// Does the program contain a lane mutation (so that, as the first operand of a combinator, it reports a
/// modification in a step that is not the combinator's last)?
fn mutates_before_end(p: &P) -> bool {
    match p {
        P::Set { .. } | P::Upd { .. } | P::Rem { .. } | P::Clr { .. } | P::MutV { .. } => true,
        P::Seq(ps) => ps.iter().any(mutates_before_end),
        P::Then(a, b) => mutates_before_end(a) || mutates_before_end(b),
        P::Branch { arms, .. } => arms.iter().any(mutates_before_end),
        _ => false,
    }
}

fn bit(lane: u8) -> u8 {
    1 << lane
}

impl<'a> Ref<'a> {
    pub fn new(t: &'a Tables) -> Self {
        Ref {
            t,
            model: Model::default(),
            out: vec![],
            spawned: vec![],
            stats: Stats::default(),
            overflow: false,
            tail: false,
            last_mut: None,
            quirk_mode: false,
            quirks: vec![],
        }
    }

    fn push(&mut self, r: Rec) {
        self.tail = false;
        if self.out.len() >= RECORD_BUDGET {
            self.overflow = true;
        } else {
            self.out.push(r);
        }
    }

    /// Run one lane handler (its own frame).
    fn handler(&mut self, lane: u8, kind: HK, enter: Rec, depth: usize) -> (Flow, Sum) {
        self.stats.max_depth = self.stats.max_depth.max(depth);
        self.push(enter);
        let t = self.t;
        let body = &t.lane[lane as usize][kind.slot()];
        let mut fs = FrameState::default();
        let flow = self.run(body, &mut fs, depth);
        if flow == Flow::Done {
            self.push(Rec::Leave { lane, kind });
        }
        (flow, fs.sum)
    }

    fn mark(&self) -> LastMut {
        LastMut {
            out_len: self.out.len(),
            spawned_len: self.spawned.len(),
            model: self.model.clone(),
            quirks_len: self.quirks.len(),
        }
    }

    fn after_cascade(&mut self, fs: &mut FrameState, lane: u8, casc: Sum, mark: LastMut) {
        self.tail = true;
        self.last_mut = Some(mark);
        fs.sum.lanes |= bit(lane) | casc.lanes;
        fs.sum.depth = fs.sum.depth.max(casc.depth);
        fs.any_dirty |= casc.lanes;
        if casc.depth >= 2 {
            fs.deep_dirty |= casc.lanes;
        }
    }

    fn set(&mut self, lane: u8, v: i32, fs: &mut FrameState, depth: usize) -> Flow {
        self.stats.mutations += 1;
        let slot = &mut self.model.v[(lane / 2) as usize];
        let prev = std::mem::replace(slot, v);
        if prev == v {
            self.stats.same_value_sets += 1;
        }
        let mark = self.mark();
        // on_event then on_set, both with the value that was set
        let (flow, s1) = self.handler(lane, HK::OnEvent, Rec::OnEvent { lane, v }, depth + 1);
        let mut casc = Sum { depth: 1 + s1.depth, lanes: s1.lanes };
        if flow != Flow::Done {
            self.after_cascade(fs, lane, casc, mark);
            return flow;
        }
        let (flow, s2) = self.handler(lane, HK::OnSet, Rec::OnSet { lane, v, prev: Some(prev) }, depth + 1);
        casc.depth = casc.depth.max(1 + s2.depth);
        casc.lanes |= s2.lanes;
        self.after_cascade(fs, lane, casc, mark);
        flow
    }

    fn upd(&mut self, lane: u8, k: i32, v: i32, fs: &mut FrameState, depth: usize) -> Flow {
        self.stats.mutations += 1;
        let prev = self.model.m[(lane / 2) as usize].insert(k, v);
        let map = self.model.snapshot(lane);
        let mark = self.mark();
        let (flow, s) = self.handler(lane, HK::OnUpdate, Rec::OnUpdate { lane, k, prev, v, map }, depth + 1);
        self.after_cascade(fs, lane, Sum { depth: 1 + s.depth, lanes: s.lanes }, mark);
        flow
    }

    fn rem(&mut self, lane: u8, k: i32, fs: &mut FrameState, depth: usize) -> Flow {
        match self.model.m[(lane / 2) as usize].remove(&k) {
            // removing an absent key changes nothing and triggers nothing (map_storage::remove)
            None => {
                self.stats.noop_removes += 1;
                self.tail = false;
                Flow::Done
            }
            Some(prev) => {
                self.stats.mutations += 1;
                let map = self.model.snapshot(lane);
                let mark = self.mark();
                let (flow, s) = self.handler(lane, HK::OnRemove, Rec::OnRemove { lane, k, prev, map }, depth + 1);
                self.after_cascade(fs, lane, Sum { depth: 1 + s.depth, lanes: s.lanes }, mark);
                flow
            }
        }
    }

    fn clr(&mut self, lane: u8, fs: &mut FrameState, depth: usize) -> Flow {
        self.stats.mutations += 1;
        let prev = self.model.snapshot(lane);
        if prev.is_empty() {
            self.stats.empty_clears += 1;
        }
        self.model.m[(lane / 2) as usize].clear();
        let mark = self.mark();
        let (flow, s) = self.handler(lane, HK::OnClear, Rec::OnClear { lane, prev }, depth + 1);
        self.after_cascade(fs, lane, Sum { depth: 1 + s.depth, lanes: s.lanes }, mark);
        flow
    }

    fn read(&mut self, src: Src, fs: &FrameState) -> Obs {
        if fs.deep_dirty & bit(src.lane()) != 0 {
            self.stats.nontrivial = true;
        }
        if fs.any_dirty & bit(src.lane()) != 0 {
            self.stats.read_after_cascade = true;
        }
        let o = self.model.read(src);
        self.push(Rec::Got(src, o.clone()));
        o
    }

    /// The implementation at a quirk site: undo the cascade of the modification that completed the first
    /// operand (the handlers never run; the state change itself stays).
    fn drop_last_cascade(&mut self) {
        if let Some(lm) = self.last_mut.take() {
            self.out.truncate(lm.out_len);
            self.spawned.truncate(lm.spawned_len);
            self.quirks.truncate(lm.quirks_len);
            self.model = lm.model;
        }
    }

    /// Evaluate the first operand of an `and_then` / `and_then_contextual` / `and_then_try` and apply the
    /// continuation closure's own effects.
    fn bound(&mut self, first: &V, how: How, fs: &mut FrameState, depth: usize) -> (Flow, i64) {
        let (f, x) = self.eval(first, fs, depth);
        if f != Flow::Done {
            return (f, x);
        }
        // did `first` complete in the very step that modified a lane?
        let coincides = self.tail && self.last_mut.is_some();
        match how {
            How::Then => {}
            How::Ctx(src) => {
                if coincides {
                    self.quirks.push(Quirk::CtxBeforeCascade);
                }
                if coincides && self.quirk_mode {
                    // the closure ran before the triggered handlers: it saw the state right after the
                    // modification, and its record precedes theirs
                    let lm = self.last_mut.clone().unwrap();
                    let o = lm.model.read(src);
                    self.out.insert(lm.out_len, Rec::CtxGot(src, o));
                } else {
                    if fs.deep_dirty & bit(src.lane()) != 0 {
                        self.stats.nontrivial = true;
                    }
                    let o = self.model.read(src);
                    self.push(Rec::CtxGot(src, o));
                }
                self.tail = false;
            }
            How::Try => {
                if try_fails(x) {
                    if coincides {
                        if self.quirk_mode {
                            self.drop_last_cascade();
                        }
                        self.quirks.push(Quirk::AndThenTryDrops);
                    }
                    return (Flow::Fail, x);
                }
            }
        }
        (Flow::Done, x)
    }

    /// Value producing actions: strictly left to right, each sub-action to completion.
    fn eval(&mut self, v: &V, fs: &mut FrameState, depth: usize) -> (Flow, i64) {
        if self.overflow {
            return (Flow::Overflow, 0);
        }
        self.stats.max_value_depth = self.stats.max_value_depth.max(vdepth(v));
        match v {
            V::Get(src) => (Flow::Done, self.read(*src, fs).scalar()),
            V::Const(c) => {
                self.tail = false;
                (Flow::Done, *c as i64)
            }
            V::After(p, v) => {
                if mutates_before_end(p) {
                    self.stats.multi_step_first = true;
                }
                let f = self.run(p, fs, depth);
                if f != Flow::Done {
                    return (f, 0);
                }
                self.eval(v, fs, depth)
            }
            V::Of(p, c) => {
                if mutates_before_end(p) {
                    self.stats.multi_step_first = true;
                }
                (self.run(p, fs, depth), *c as i64)
            }
            V::Map(v, c) => {
                let (f, x) = self.eval(v, fs, depth);
                (f, x.wrapping_add(*c as i64))
            }
            V::Bind { first, how, arms } => {
                self.stats.binds[how_index(*how)] += 1;
                let (f, x) = self.bound(first, *how, fs, depth);
                if f != Flow::Done {
                    return (f, 0);
                }
                self.eval(&arms[arm_of(x, arms.len())], fs, depth)
            }
            V::Join(a, b) => {
                let (f, x) = self.eval(a, fs, depth);
                if f != Flow::Done {
                    return (f, 0);
                }
                let (f, y) = self.eval(b, fs, depth);
                (f, x.wrapping_add(y))
            }
            V::Join3(a, b, c) => {
                let (f, x) = self.eval(a, fs, depth);
                if f != Flow::Done {
                    return (f, 0);
                }
                let (f, y) = self.eval(b, fs, depth);
                if f != Flow::Done {
                    return (f, 0);
                }
                let (f, z) = self.eval(c, fs, depth);
                (f, x.wrapping_add(y).wrapping_add(z))
            }
            V::Opt(v) => self.eval(v, fs, depth),
            V::Try(v) => {
                let (f, x) = self.eval(v, fs, depth);
                if f == Flow::Done && try_fails(x) {
                    if self.tail && self.last_mut.is_some() {
                        if self.quirk_mode {
                            self.drop_last_cascade();
                        }
                        self.quirks.push(Quirk::TryHandlerDrops);
                    }
                    (Flow::Fail, x)
                } else {
                    (f, x)
                }
            }
        }
    }

    fn run(&mut self, p: &P, fs: &mut FrameState, depth: usize) -> Flow {
        if self.overflow {
            return Flow::Overflow;
        }
        match p {
            P::Seq(ps) => {
                if ps.is_empty() {
                    self.tail = false;
                }
                for q in ps {
                    let f = self.run(q, fs, depth);
                    if f != Flow::Done {
                        return f;
                    }
                }
                Flow::Done
            }
            P::Then(a, b) => {
                let f = self.run(a, fs, depth);
                if f != Flow::Done {
                    return f;
                }
                self.run(b, fs, depth)
            }
            P::Set { lane, v } => self.set(*lane, *v, fs, depth),
            P::Upd { lane, k, v } => self.upd(*lane, *k, *v, fs, depth),
            P::Rem { lane, k } => self.rem(*lane, *k, fs, depth),
            P::Clr { lane } => self.clr(*lane, fs, depth),
            P::Discard(v) => self.eval(v, fs, depth).0,
            P::Branch { first, how, arms } => {
                self.stats.branches += 1;
                self.stats.binds[how_index(*how)] += 1;
                let (f, x) = self.bound(first, *how, fs, depth);
                if f != Flow::Done {
                    return f;
                }
                self.run(&arms[arm_of(x, arms.len())], fs, depth)
            }
            P::MutV { first, how, target, off } => {
                self.stats.computed_mutations += 1;
                self.stats.binds[how_index(*how)] += 1;
                let (f, x) = self.bound(first, *how, fs, depth);
                if f != Flow::Done {
                    return f;
                }
                let m = target.with_value(to_val(x, *off));
                self.run(&m, fs, depth)
            }
            P::Eff(l) => {
                self.push(Rec::Eff(*l));
                Flow::Done
            }
            P::Suspend { prog, .. } => {
                self.stats.spawns += 1;
                self.push(Rec::Spawn(*prog));
                self.spawned.push(*prog);
                Flow::Done
            }
            P::Fail => Flow::Fail,
            P::Stop => Flow::Stop,
        }
    }

    /// Execute one block from the current model state; returns the expected records.
    pub fn block(&mut self, trig: &Trigger) -> (Vec<Rec>, Flow, Vec<u16>) {
        self.out.clear();
        self.spawned.clear();
        self.quirks.clear();
        self.tail = false;
        self.last_mut = None;
        let mut fs = FrameState::default();
        let t = self.t;
        static EMPTY: P = P::Seq(vec![]);
        let mut flow = match trig {
            Trigger::Top(top) => {
                let body: &P = match top {
                    Top::Start => &t.start,
                    Top::Stop => &t.stop,
                    Top::Run(i) => t.run.get(*i as usize).unwrap_or(&EMPTY),
                    Top::Spawned(i) => t.spawn.get(*i as usize).unwrap_or(&EMPTY),
                };
                self.push(Rec::Begin(*top));
                let f = self.run(body, &mut fs, 0);
                if f == Flow::Done {
                    self.push(Rec::End(*top));
                }
                f
            }
            Trigger::Ext(Cmd::Run(i)) => return self.block(&Trigger::Top(Top::Run(*i))),
            Trigger::Ext(Cmd::Set { lane, v }) => self.set(*lane, *v, &mut fs, 0),
            Trigger::Ext(Cmd::Upd { lane, k, v }) => self.upd(*lane, *k, *v, &mut fs, 0),
            Trigger::Ext(Cmd::Rem { lane, k }) => self.rem(*lane, *k, &mut fs, 0),
            Trigger::Ext(Cmd::Clr { lane }) => self.clr(*lane, &mut fs, 0),
        };
        if self.overflow {
            flow = Flow::Overflow;
        }
        (std::mem::take(&mut self.out), flow, std::mem::take(&mut self.spawned))
    }
}

/// Static worst-case number of records a case can produce (saturating); used to discard explosive
/// cases before they are run.
pub fn worst_case_records(t: &Tables, runs: &[u16], ext_muts: usize) -> u64 {
    // lane handler costs, highest lane first (handlers only touch higher lanes)
    let mut lane_cost = [0u64; 4]; // cost of one mutation of lane i (all handlers it triggers)
    let mut spawn_cost = vec![0u64; t.spawn.len()];
    fn vcost(v: &V, lane_cost: &[u64; 4], spawn_cost: &[u64]) -> u64 {
        match v {
            V::Get(_) => 1,
            V::Const(_) => 0,
            V::After(p, v) => cost(p, lane_cost, spawn_cost).saturating_add(vcost(v, lane_cost, spawn_cost)),
            V::Of(p, _) => cost(p, lane_cost, spawn_cost),
            V::Map(v, _) | V::Opt(v) | V::Try(v) => vcost(v, lane_cost, spawn_cost),
            V::Bind { first, arms, .. } => vcost(first, lane_cost, spawn_cost)
                .saturating_add(arms.iter().map(|a| vcost(a, lane_cost, spawn_cost)).max().unwrap_or(0)),
            V::Join(a, b) => vcost(a, lane_cost, spawn_cost).saturating_add(vcost(b, lane_cost, spawn_cost)),
            V::Join3(a, b, c) => vcost(a, lane_cost, spawn_cost)
                .saturating_add(vcost(b, lane_cost, spawn_cost))
                .saturating_add(vcost(c, lane_cost, spawn_cost)),
        }
    }
    fn cost(p: &P, lane_cost: &[u64; 4], spawn_cost: &[u64]) -> u64 {
        match p {
            P::Seq(ps) => ps.iter().fold(0u64, |a, q| a.saturating_add(cost(q, lane_cost, spawn_cost))),
            P::Then(a, b) => cost(a, lane_cost, spawn_cost).saturating_add(cost(b, lane_cost, spawn_cost)),
            P::Set { lane, .. } | P::Upd { lane, .. } | P::Rem { lane, .. } | P::Clr { lane } => lane_cost[*lane as usize],
            P::Eff(_) => 1,
            P::Discard(v) => vcost(v, lane_cost, spawn_cost),
            P::Branch { first, arms, .. } => vcost(first, lane_cost, spawn_cost)
                .saturating_add(arms.iter().map(|a| cost(a, lane_cost, spawn_cost)).max().unwrap_or(0)),
            P::MutV { first, target, .. } => {
                vcost(first, lane_cost, spawn_cost).saturating_add(cost(target, lane_cost, spawn_cost))
            }
            P::Suspend { prog, .. } => 1u64.saturating_add(spawn_cost.get(*prog as usize).copied().unwrap_or(0)),
            P::Fail | P::Stop => 0,
        }
    }
    // spawn programs and lane handlers depend on each other only "upwards" in (level, index): iterate
    // to a fixpoint (bounded: the dependency order is acyclic)
    for _ in 0..(t.spawn.len() + 6) {
        for i in (0..4usize).rev() {
            let slots = &t.lane[i];
            lane_cost[i] = if is_value(i as u8) {
                // both handlers run
                slots.iter().fold(0u64, |a, p| a.saturating_add(2).saturating_add(cost(p, &lane_cost, &spawn_cost)))
            } else {
                slots.iter().map(|p| 2u64.saturating_add(cost(p, &lane_cost, &spawn_cost))).max().unwrap_or(0)
            };
        }
        for j in (0..t.spawn.len()).rev() {
            spawn_cost[j] = 2u64.saturating_add(cost(&t.spawn[j], &lane_cost, &spawn_cost));
        }
    }
    let mut total = 2u64.saturating_add(cost(&t.start, &lane_cost, &spawn_cost));
    total = total.saturating_add(2u64.saturating_add(cost(&t.stop, &lane_cost, &spawn_cost)));
    for r in runs {
        if let Some(p) = t.run.get(*r as usize) {
            total = total.saturating_add(2u64.saturating_add(cost(p, &lane_cost, &spawn_cost)));
        }
    }
    let max_lane = lane_cost.iter().copied().max().unwrap_or(0);
    total.saturating_add(max_lane.saturating_mul(ext_muts as u64))
}

// ------------------------------------------------------------------------------------------------
// the incremental block oracle

#[derive(Clone, Debug)]
pub struct Outcome {
    /// `Some` once the agent task has completed.
    pub result: Option<Result<(), String>>,
    /// The agent was still running (idle) after the final drain, i.e. before the harness asked it to
    /// stop: every suspended program must have run by then.
    pub alive_after_drain: bool,
}

#[derive(Clone, Copy, Debug, PartialEq, Eq)]
enum Phase {
    BeforeStart,
    Running,
    /// on_start instructed a stop (the agent fails to start): nothing or only on_stop may follow.
    StartStopped,
    /// A handler instructed the agent to stop: only on_stop may follow.
    Stopping,
    /// on_stop ran: nothing may follow.
    AfterStop,
    /// A failure that the agent treats as fatal: nothing may follow.
    Failed,
}

#[derive(Default, Debug)]
pub struct Report {
    pub failures: Vec<(String, String)>,
    pub stats: Stats,
    pub blocks: usize,
    pub spawned_blocks: usize,
    pub ext_blocks: usize,
    pub run_blocks: usize,
    pub aborted_blocks: usize,
    pub fail_swallowed: usize,
    pub fatal_failure: bool,
    pub stop_instructed: bool,
    pub start_stopped: bool,
    pub on_stop_ran: bool,
    pub overflow: bool,
    /// Blocks that matched only the implementation's behaviour at a `Quirk` site.
    pub quirk_blocks: usize,
    /// Quirk sites executed (documented-mode count).
    pub quirk_sites: usize,
}

fn mismatch_sig(exp: &Rec, got: Option<&Rec>) -> String {
    let Some(got) = got else {
        return format!("missing:expected={}", exp.kind());
    };
    match (exp, got) {
        (Rec::OnSet { lane: l1, v: v1, prev: p1 }, Rec::OnSet { lane: l2, v: v2, prev: p2 }) if l1 == l2 && v1 == v2 && p1 != p2 => {
            "wrong-previous:on_set".into()
        }
        (Rec::OnUpdate { lane: l1, k: k1, v: v1, prev: p1, .. }, Rec::OnUpdate { lane: l2, k: k2, v: v2, prev: p2, .. })
            if l1 == l2 && k1 == k2 && v1 == v2 && p1 != p2 =>
        {
            "wrong-previous:on_update".into()
        }
        (Rec::OnRemove { lane: l1, k: k1, prev: p1, .. }, Rec::OnRemove { lane: l2, k: k2, prev: p2, .. }) if l1 == l2 && k1 == k2 && p1 != p2 => {
            "wrong-previous:on_remove".into()
        }
        (Rec::OnClear { lane: l1, prev: p1 }, Rec::OnClear { lane: l2, prev: p2 }) if l1 == l2 && p1 != p2 => "wrong-previous:on_clear".into(),
        (Rec::Got(s1, o1), Rec::Got(s2, o2)) if s1 == s2 && o1 != o2 => "wrong-read:resumed-handler-saw-other-state".into(),
        (Rec::CtxGot(s1, o1), Rec::CtxGot(s2, o2)) if s1 == s2 && o1 != o2 => "wrong-read:continuation-saw-other-state".into(),
        (a, b) if a.kind() == b.kind() => format!("payload:{}", a.kind()),
        (a, b) => format!("order:expected={},observed={}", a.kind(), b.kind()),
    }
}

/// Check an observed trace against the reference, block by block, following the observed block order.
/// `sent` = every command any remote queued (an upper bound on what can have been processed).
pub fn verify(t: &Tables, trace: &[Rec], sent: &[Cmd], outcome: &Outcome) -> Report {
    let mut rep = Report::default();
    let mut r = Ref::new(t);
    let mut avail: BTreeMap<Cmd, usize> = BTreeMap::new();
    for c in sent {
        *avail.entry(c.clone()).or_default() += 1;
    }
    let mut pending: BTreeMap<u16, usize> = BTreeMap::new();
    let mut phase = Phase::BeforeStart;
    let mut pos = 0usize;
    let mut last_flow = Flow::Done;
    let mut broken = false;
    macro_rules! fail {
        ($sig:expr, $($fmt:tt)+) => {{
            rep.failures.push(($sig.to_string(), format!($($fmt)+)));
        }};
    }
    let ctx_window = |pos: usize| -> String {
        let lo = pos.saturating_sub(6);
        let hi = (pos + 4).min(trace.len());
        format!("observed[{}..{}] = {:?}", lo, hi, &trace[lo..hi])
    };

    while pos < trace.len() {
        let first = &trace[pos];
        let trig = match first {
            Rec::Begin(top) => match top {
                Top::Run(i) => Trigger::Ext(Cmd::Run(*i)),
                other => Trigger::Top(*other),
            },
            Rec::OnEvent { lane, v } => Trigger::Ext(Cmd::Set { lane: *lane, v: *v }),
            Rec::OnUpdate { lane, k, v, .. } => Trigger::Ext(Cmd::Upd { lane: *lane, k: *k, v: *v }),
            Rec::OnRemove { lane, k, .. } => Trigger::Ext(Cmd::Rem { lane: *lane, k: *k }),
            Rec::OnClear { lane, .. } => Trigger::Ext(Cmd::Clr { lane: *lane }),
            other => {
                if last_flow != Flow::Done {
                    fail!(
                        format!("executed-after-abort:{}", other.kind()),
                        "a record follows a handler chain that failed / was stopped, outside any new top-level handler, at {}: {}",
                        pos,
                        ctx_window(pos)
                    );
                } else {
                    fail!(
                        format!("orphan-record:{}", other.kind()),
                        "record at {} is not inside any top-level handler (the previous one was complete): {}",
                        pos,
                        ctx_window(pos)
                    );
                }
                broken = true;
                break;
            }
        };
        // --- may this block run now?
        let is_start = trig == Trigger::Top(Top::Start);
        let is_stop = trig == Trigger::Top(Top::Stop);
        match phase {
            Phase::BeforeStart if !is_start => {
                fail!("on-start-not-first", "the first top-level handler is {:?}, not on_start: {}", trig, ctx_window(pos));
                broken = true;
                break;
            }
            Phase::Running if is_start => {
                fail!("on-start-twice", "on_start ran again at {}: {}", pos, ctx_window(pos));
                broken = true;
                break;
            }
            Phase::StartStopped | Phase::Stopping if !is_stop => {
                fail!(
                    "handler-after-stop-instructed",
                    "after a handler instructed the agent to stop, {:?} ran (only on_stop may follow): {}",
                    trig,
                    ctx_window(pos)
                );
                broken = true;
                break;
            }
            Phase::AfterStop => {
                fail!("handler-after-on-stop", "{:?} ran after on_stop: {}", trig, ctx_window(pos));
                broken = true;
                break;
            }
            Phase::Failed => {
                fail!(
                    "handler-after-fatal-failure",
                    "{:?} ran after a handler failure that ends the agent: {}",
                    trig,
                    ctx_window(pos)
                );
                broken = true;
                break;
            }
            _ => {}
        }
        match &trig {
            Trigger::Top(Top::Spawned(p)) => {
                let n = pending.entry(*p).or_default();
                if *n == 0 {
                    fail!(
                        "spawned-ran-unrequested",
                        "suspended program {} ran although no (further) instance of it was pending: {}",
                        p,
                        ctx_window(pos)
                    );
                    broken = true;
                    break;
                }
                *n -= 1;
                rep.spawned_blocks += 1;
            }
            Trigger::Ext(cmd) => {
                let n = avail.entry(cmd.clone()).or_default();
                if *n == 0 {
                    let sig = if last_flow != Flow::Done {
                        format!("executed-after-abort:{}", first.kind())
                    } else {
                        format!("unexplained-handler:{}", first.kind())
                    };
                    fail!(
                        sig,
                        "a lane handler ran at top level for {:?} but no remote sent such a command (or it was already consumed): {}",
                        cmd,
                        ctx_window(pos)
                    );
                    broken = true;
                    break;
                }
                *n -= 1;
                if matches!(cmd, Cmd::Run(_)) {
                    rep.run_blocks += 1;
                } else {
                    rep.ext_blocks += 1;
                }
            }
            _ => {}
        }
        if is_stop && phase == Phase::Running && outcome.alive_after_drain {
            // this on_stop is the consequence of the harness's final stop request, issued when the agent
            // was idle after all timers had fired: every suspended program must have run
            let left: Vec<(u16, usize)> = pending.iter().filter(|(_, n)| **n > 0).map(|(p, n)| (*p, *n)).collect();
            if !left.is_empty() {
                fail!(
                    "spawned-not-run",
                    "the agent was idle and alive but suspended programs never ran (program, instances): {:?}",
                    left
                );
            }
        }
        // --- expected records of this block from the model state at its start
        let start_model = r.model.clone();
        r.quirk_mode = false;
        let (mut exp, mut flow, mut spawned) = r.block(&trig);
        if flow == Flow::Overflow {
            rep.overflow = true;
            broken = true;
            break;
        }
        rep.blocks += 1;
        rep.quirk_sites += r.quirks.len();
        let first_diff = |exp: &[Rec]| -> Option<usize> { (0..exp.len()).find(|i| trace.get(pos + i) != Some(&exp[*i])) };
        let mut bad = first_diff(&exp);
        if bad.is_some() && !r.quirks.is_empty() {
            // the block contains a site where the implementation evaluates a continuation closure before the
            // handlers triggered by the first operand's last step: does the observed trace match that?
            let doc_model = std::mem::replace(&mut r.model, start_model);
            r.quirk_mode = true;
            let (exp2, flow2, spawned2) = r.block(&trig);
            r.quirk_mode = false;
            if flow2 != Flow::Overflow && first_diff(&exp2).is_none() {
                let mut qs = r.quirks.clone();
                qs.sort();
                qs.dedup();
                for q in qs {
                    fail!(
                        q.sig(),
                        "block {:?} starting at {}: the observed records equal the execution in which the continuation closure is \
                         evaluated in the same step as the first operand's final lane modification (before / instead of the handlers \
                         that modification triggers), not the documented depth-first order.\n documented = {:?}\n observed   = {:?}",
                        trig,
                        pos,
                        exp,
                        exp2
                    );
                }
                rep.quirk_blocks += 1;
                exp = exp2;
                flow = flow2;
                spawned = spawned2;
                bad = None;
            } else {
                r.model = doc_model;
            }
        }
        if let Some(i) = bad {
            let e = exp[i].clone();
            let g = trace.get(pos + i).cloned();
            fail!(
                mismatch_sig(&e, g.as_ref()),
                "block {:?} starting at {}: record {} differs: expected {:?}, observed {:?}\n expected block = {:?}\n {}",
                trig,
                pos,
                i,
                e,
                g,
                exp,
                ctx_window(pos + i)
            );
            broken = true;
            break;
        }
        pos += exp.len();
        for p in spawned {
            *pending.entry(p).or_default() += 1;
        }
        last_flow = flow;
        if flow != Flow::Done {
            rep.aborted_blocks += 1;
        }
        // --- phase transitions
        phase = match (&trig, flow) {
            (Trigger::Top(Top::Stop), _) => {
                rep.on_stop_ran = true;
                if flow == Flow::Fail {
                    rep.fatal_failure = true;
                }
                Phase::AfterStop
            }
            (Trigger::Top(Top::Start), Flow::Done) => Phase::Running,
            (Trigger::Top(Top::Start), Flow::Stop) => {
                rep.start_stopped = true;
                Phase::StartStopped
            }
            (Trigger::Top(_), Flow::Fail) => {
                // on_start / suspended program: AgentInitError::UserCodeError / AgentTaskError::UserCodeError
                rep.fatal_failure = true;
                Phase::Failed
            }
            (_, Flow::Stop) => {
                rep.stop_instructed = true;
                Phase::Stopping
            }
            (Trigger::Ext(_), Flow::Fail) => {
                // A failure below a command received from a remote: the statement only requires that
                // nothing further of the chain runs. (The agent currently logs it and carries on.)
                rep.fail_swallowed += 1;
                Phase::Running
            }
            _ => Phase::Running,
        };
    }
    rep.stats = r.stats.clone();
    if broken {
        return rep;
    }
    // --- end of trace
    match (&outcome.result, phase) {
        (_, Phase::BeforeStart) => {
            fail!("on-start-missing", "no handler ran at all (on_start must run when the agent starts); result {:?}", outcome.result);
        }
        (_, Phase::Stopping) => {
            fail!(
                "on-stop-missing",
                "a handler instructed the agent to stop but on_stop did not run; result {:?}",
                outcome.result
            );
        }
        (Some(Ok(())), Phase::Running) => {
            fail!("on-stop-missing", "the agent stopped cleanly but on_stop did not run");
        }
        (Some(Ok(())), Phase::Failed) | (None, Phase::Failed) => {
            fail!(
                "failure-not-fatal",
                "a failed on_start / suspended handler did not end the agent task with an error; result {:?}",
                outcome.result
            );
        }
        (None, Phase::Running) => {
            // still alive after the final drain: every suspended program must have run
            let left: Vec<(u16, usize)> = pending.iter().filter(|(_, n)| **n > 0).map(|(p, n)| (*p, *n)).collect();
            if !left.is_empty() {
                fail!(
                    "spawned-not-run",
                    "the agent is idle and alive but suspended programs never ran (program, instances): {:?}",
                    left
                );
            }
        }
        _ => {}
    }
    rep
}
