//! A recording `NodePersistence` for crash/restart checks.
//!
//! * The data lives in an `Arc<parking_lot::Mutex<Data>>` owned by the harness, so it survives the agent
//!   (the `RecStore` handed to `run_agent_with_store` is only a handle) and a second incarnation can be
//!   started on exactly what the first one left behind.
//! * Every call is appended to `Data::log` with the global sequence number shared with the remotes'
//!   frame log and the agent-side trace.
//! * Fault injection: mutating call number `Fault::at` (counted over all mutating calls since the data
//!   was created) panics with the payload `InjectedFault`, either before the operation is applied
//!   (`after_apply == false`: the entry is logged with `applied == false`) or after it was applied but
//!   before the call returns (`applied == true`). The lock is released before the panic is raised and
//!   `parking_lot` mutexes are not poisoned by unwinding, so the restart can never be wedged.
//!   With `error == true` the call instead returns `Err(StoreError)` without applying the operation.

use bytes::{BufMut, BytesMut};
use parking_lot::Mutex;
use std::collections::{BTreeMap, VecDeque};
use std::sync::atomic::{AtomicU64, Ordering};
use std::sync::Arc;
use swimos_api::error::StoreError;
use swimos_api::persistence::{KeyValue, NodePersistence, RangeConsumer};

/// Panic payload of an injected store fault.
pub struct InjectedFault;

#[derive(Clone, Debug, PartialEq, Eq)]
pub enum Call {
    IdFor(String),
    GetValue(u64),
    ReadMap(u64),
    PutValue(u64, Vec<u8>),
    DeleteValue(u64),
    UpdateMap(u64, Vec<u8>, Vec<u8>),
    RemoveMap(u64, Vec<u8>),
    ClearMap(u64),
}

impl Call {
    pub fn is_mutation(&self) -> bool {
        !matches!(self, Call::IdFor(_) | Call::GetValue(_) | Call::ReadMap(_))
    }

    pub fn id(&self) -> Option<u64> {
        match self {
            Call::IdFor(_) => None,
            Call::GetValue(id)
            | Call::ReadMap(id)
            | Call::PutValue(id, _)
            | Call::DeleteValue(id)
            | Call::UpdateMap(id, _, _)
            | Call::RemoveMap(id, _)
            | Call::ClearMap(id) => Some(*id),
        }
    }
}

#[derive(Clone, Debug)]
pub struct Entry {
    /// Global sequence number taken when the call was entered.
    pub seq: u64,
    /// Incarnation (1 = before the cut, 2 = after the restart).
    pub inc: u32,
    pub call: Call,
    /// False only for a mutating call that was aborted by an injected fault before it took effect.
    pub applied: bool,
}

#[derive(Clone, Copy, Debug)]
pub struct Fault {
    /// Index (over all mutating calls) of the call that panics.
    pub at: u64,
    pub after_apply: bool,
    /// Return an error (operation not applied) instead of panicking.
    pub error: bool,
}

#[derive(Default)]
pub struct Data {
    pub ids: BTreeMap<String, u64>,
    pub values: BTreeMap<u64, Vec<u8>>,
    pub maps: BTreeMap<u64, BTreeMap<Vec<u8>, Vec<u8>>>,
    pub log: Vec<Entry>,
    /// Number of mutating calls so far.
    pub mutations: u64,
    pub fault: Option<Fault>,
    pub fired: bool,
    /// `(name, n)`: the n-th (1-based) `id_for(name)` fails once with `KeyNotFound` (logged with
    /// `applied == false`).
    pub id_fault: Option<(String, u32)>,
    pub id_lookups: BTreeMap<String, u32>,
}

impl Data {
    fn apply(&mut self, call: &Call) {
        match call {
            Call::PutValue(id, v) => {
                self.values.insert(*id, v.clone());
            }
            Call::DeleteValue(id) => {
                self.values.remove(id);
            }
            Call::UpdateMap(id, k, v) => {
                self.maps.entry(*id).or_default().insert(k.clone(), v.clone());
            }
            Call::RemoveMap(id, k) => {
                self.maps.entry(*id).or_default().remove(k);
            }
            Call::ClearMap(id) => {
                self.maps.entry(*id).or_default().clear();
            }
            Call::IdFor(_) | Call::GetValue(_) | Call::ReadMap(_) => {}
        }
    }
}

pub type SharedData = Arc<Mutex<Data>>;

pub struct RecStore {
    data: SharedData,
    clock: Arc<AtomicU64>,
    inc: u32,
}

impl RecStore {
    pub fn new(data: SharedData, clock: Arc<AtomicU64>, inc: u32) -> Self {
        RecStore { data, clock, inc }
    }

    fn tick(&self) -> u64 {
        self.clock.fetch_add(1, Ordering::SeqCst)
    }

    fn read_call(&self, call: Call) {
        let seq = self.tick();
        let mut g = self.data.lock();
        g.log.push(Entry {
            seq,
            inc: self.inc,
            call,
            applied: true,
        });
    }

    fn mutate(&mut self, call: Call) -> Result<(), StoreError> {
        let seq = self.tick();
        let mut g = self.data.lock();
        let idx = g.mutations;
        g.mutations += 1;
        let (fire, error) = match g.fault {
            Some(f) if !g.fired && f.at == idx => (Some(f.after_apply && !f.error), f.error),
            _ => (None, false),
        };
        let applied = fire != Some(false);
        if applied {
            g.apply(&call);
        }
        g.log.push(Entry {
            seq,
            inc: self.inc,
            call,
            applied,
        });
        if fire.is_some() {
            g.fired = true;
            drop(g);
            if error {
                return Err(StoreError::DelegateMessage("store failure injected by the harness".into()));
            }
            std::panic::panic_any(InjectedFault);
        }
        Ok(())
    }
}

#[derive(Debug, Default)]
pub struct Consumer {
    current: Option<(Vec<u8>, Vec<u8>)>,
    rest: VecDeque<(Vec<u8>, Vec<u8>)>,
}

impl RangeConsumer for Consumer {
    fn consume_next(&mut self) -> Result<Option<KeyValue<'_>>, StoreError> {
        let Consumer { current, rest } = self;
        if let Some(kv) = rest.pop_front() {
            let (k, v) = current.insert(kv);
            Ok(Some((k.as_slice(), v.as_slice())))
        } else {
            Ok(None)
        }
    }
}

impl NodePersistence for RecStore {
    type MapCon<'a>
        = Consumer
    where
        Self: 'a;

    type LaneId = u64;

    fn id_for(&self, name: &str) -> Result<Self::LaneId, StoreError> {
        let seq = self.tick();
        let mut g = self.data.lock();
        let count = {
            let c = g.id_lookups.entry(name.to_string()).or_insert(0);
            *c += 1;
            *c
        };
        if matches!(&g.id_fault, Some((n, k)) if n == name && *k == count) {
            g.id_fault = None;
            g.log.push(Entry {
                seq,
                inc: self.inc,
                call: Call::IdFor(name.to_string()),
                applied: false,
            });
            return Err(StoreError::KeyNotFound);
        }
        let next = g.ids.len() as u64;
        let id = *g.ids.entry(name.to_string()).or_insert(next);
        g.log.push(Entry {
            seq,
            inc: self.inc,
            call: Call::IdFor(name.to_string()),
            applied: true,
        });
        Ok(id)
    }

    fn get_value(&self, id: Self::LaneId, buffer: &mut BytesMut) -> Result<Option<usize>, StoreError> {
        self.read_call(Call::GetValue(id));
        let g = self.data.lock();
        Ok(g.values.get(&id).map(|v| {
            buffer.reserve(v.len());
            buffer.put(v.as_slice());
            v.len()
        }))
    }

    fn put_value(&mut self, id: Self::LaneId, value: &[u8]) -> Result<(), StoreError> {
        self.mutate(Call::PutValue(id, value.to_vec()))
    }

    fn delete_value(&mut self, id: Self::LaneId) -> Result<(), StoreError> {
        self.mutate(Call::DeleteValue(id))
    }

    fn update_map(&mut self, id: Self::LaneId, key: &[u8], value: &[u8]) -> Result<(), StoreError> {
        self.mutate(Call::UpdateMap(id, key.to_vec(), value.to_vec()))
    }

    fn remove_map(&mut self, id: Self::LaneId, key: &[u8]) -> Result<(), StoreError> {
        self.mutate(Call::RemoveMap(id, key.to_vec()))
    }

    fn clear_map(&mut self, id: Self::LaneId) -> Result<(), StoreError> {
        self.mutate(Call::ClearMap(id))
    }

    fn read_map(&self, id: Self::LaneId) -> Result<Self::MapCon<'_>, StoreError> {
        self.read_call(Call::ReadMap(id));
        let g = self.data.lock();
        let rest = g
            .maps
            .get(&id)
            .map(|m| m.iter().map(|(k, v)| (k.clone(), v.clone())).collect())
            .unwrap_or_default();
        Ok(Consumer { current: None, rest })
    }
}
