#!/usr/bin/env python3
"""Prints the prompt for an independent 'seeded change' sub-agent for property <ID> (nothing from /verif but the property text)."""
import json, sys
pid = sys.argv[1]
p = [json.loads(l) for l in open('/verif/properties.jsonl') if json.loads(l)['id'] == pid][0]
wt = f"/tmp/seed/{pid}"
print(f"""You are testing how good a (hidden) verification harness is. Work ONLY inside your own scratch git worktree of the repository swimos/swim-rust (Rust, Tokio): {wt} (already created, detached at the current HEAD of /repo). Do NOT read or write anything under /verif and do NOT touch /repo itself. Use your own cargo target dir: export CARGO_TARGET_DIR={wt}/target ; always pass --offline to cargo (there is no network).

Here is a semantic property of the code base that should always hold:

  {p['id']} — {p['title']}
  Statement: {p['statement']}
  Quantified over: {p['quantifier']['text']}
  Code it is anchored in: {', '.join(p['anchors']['files'])}

Your job: produce up to THREE independent, realistic changes (bugs) to the source code, each of which BREAKS this property while (a) still compiling, (b) still passing the existing test suite of the affected crate(s) (run `cargo test --offline -p <crate>` for every crate you touch and for direct dependants whose tests exercise that code, e.g. swimos_agent / swimos_runtime / swimos_recon / swimos_form ...; the known always-failing test `swimos_form tests::test_derive` can be ignored), and (c) looking like something a developer could plausibly write (an off-by-one, a forgotten flag reset, a swapped order, a missing wake-up, a wrong branch, an optimisation that is wrong in a corner case, two cooperating sites that each look fine alone ...). Prefer changes that need something SPECIFIC to manifest — a particular interleaving or slow consumer, a crash/fault at a particular point, a multi-step sequence of operations, an unusual input, a boundary value — rather than ones that ordinary use would expose at once. Do not make changes that merely panic on every input or break everything.

For each change deliver, in the directory {wt}/out/<n>/ (n = 1,2,3):
  * patch.diff  — `git diff` of the change against HEAD (source changes only; apply cleanly with `git apply` on a clean checkout),
  * a demonstration: a small Rust test file or program (demo.rs plus the exact instructions/commands to run it, e.g. where to drop it as an integration test or unit test module and the cargo command), which FAILS with the change applied and PASSES without it — actually run it both ways and record the outputs in demo_output.txt,
  * notes.md — which clause of the property it breaks, what it needs in order to manifest, which existing tests you ran (commands + result lines) to confirm they still pass with the change.
Keep each change independent (each patch applies alone to a clean HEAD). When done, leave the worktree source clean (`git checkout -- .` ; untracked demo files may stay under out/), delete {wt}/target to free disk, and reply with a short summary of the three changes (one paragraph each) and anything you could not do.""")
