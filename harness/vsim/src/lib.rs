//! Agent simulation engine (agentsim / rawlane): the real `AgentRouteTask` (agent model + agent
//! runtime) inside a harness-owned executor. Remotes, store, link-request server and clock are harness
//! objects driven by a generated op list. See DESIGN.md §2.2-2.3.
pub mod agent;
pub mod exec;
pub mod links;
pub mod ops;
pub mod remote;

pub use exec::*;
pub use remote::*;
pub use ops::*;
