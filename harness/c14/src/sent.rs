//! Sub-check (c): commands the agent itself sends (`send_command`, `SendCommand`, `Commander::send`,
//! `Commander::send_queued`) are forwarded once each, in order per target lane; only an overwritable
//! command may be superseded, and only by a later command to the same target.

use crate::cagent::{make_cmd_agent, target_key, Api, CAct, CEv, CShared, TARGETS};
use proptest::prelude::*;
use serde::{Deserialize, Serialize};
use std::collections::{BTreeMap, HashMap};
use std::sync::atomic::AtomicU64;
use std::sync::Arc;
use std::time::Duration;
use vcommon::{pick_index, Verdict};
use vsim::links::{CmdFrameKind, LinkServer};
use vsim::{arb_cap, arb_nbytes, arb_small_cap, block_on_paused, Req, Sim, SimParams};

#[derive(Clone, Debug, PartialEq, Eq, Serialize, Deserialize)]
pub enum COp {
    /// The control remote asks the agent to run a fresh program: one command per entry,
    /// (target slot, api index).
    Burst { acts: Vec<(u8, u8)> },
    /// The control remote writes at most n bytes of its outbox.
    Pump { n: usize },
    /// Poll the system at most k times.
    Poll { k: usize },
    /// Answer the oldest unanswered commander request with a channel of this capacity.
    Answer { cap: usize },
    /// Read at most n bytes from one of the open command channels.
    ReadCh { c: u16, n: usize },
    /// Answer everything (channels of this capacity), drain everything, run to a fixpoint.
    Settle { cap: usize },
    Advance { ms: u64 },
}

#[derive(Clone, Debug, Serialize, Deserialize)]
pub struct CCase {
    pub params: SimParams,
    /// Indices into `cagent::TARGETS` (1-3 distinct).
    pub targets: Vec<u8>,
    pub ops: Vec<COp>,
    /// Capacity of the channels opened by the final settle.
    pub final_cap: usize,
    /// false: only the ad hoc apis (`send_command`, `SendCommand`) are used, so no commander
    /// registration messages exist; true: all four apis.
    pub commander: bool,
    /// Target slots for which `on_start` creates and keeps a commander (in this order); the flag
    /// says whether it also sends a first (not overwritable) command through it. Commander variant only.
    #[serde(default)]
    pub start_cmdrs: Vec<(u8, bool)>,
}

fn arb_params() -> impl Strategy<Value = SimParams> {
    (
        any::<u64>(),
        arb_cap(),
        arb_cap(),
        prop_oneof![Just(2usize), Just(3), Just(8), Just(64)],
        prop_oneof![2 => arb_small_cap(), 1 => arb_cap()],
    )
        .prop_map(|(seed, lane_in_buf, lane_out_buf, budget, cmd_buf)| SimParams {
            seed,
            lane_in_buf: lane_in_buf.max(8),
            lane_out_buf: lane_out_buf.max(8),
            budget,
            command_msg_buffer: cmd_buf,
            // only the command output timeout (30 s, fixed) may fire when the clock is advanced
            inactive_timeout_ms: 3_600_000,
            prune_remote_delay_ms: 3_600_000,
            ..SimParams::default()
        })
}

fn arb_burst() -> impl Strategy<Value = COp> {
    // bias of the api mix (even api index = overwritable, odd = not; 4,5 = kept commander):
    // 0 all queued, 1 all overwritable, 2 mixed, 3 mostly queued, 4 mostly kept commanders
    let len = prop_oneof![3 => 1usize..6, 4 => 6usize..40, 2 => 40usize..150, 1 => 150usize..=400];
    (0u8..5, len)
        .prop_flat_map(|(bias, len)| {
            let api = match bias {
                0 => prop_oneof![Just(1u8), Just(3u8), Just(5u8)].boxed(),
                1 => prop_oneof![Just(0u8), Just(2u8), Just(4u8)].boxed(),
                2 => (0u8..6).boxed(),
                3 => prop_oneof![4 => Just(1u8), 4 => Just(3u8), 3 => Just(5u8), 1 => Just(0u8), 1 => Just(2u8), 1 => Just(4u8)]
                    .boxed(),
                _ => prop_oneof![3 => Just(5u8), 2 => Just(4u8), 1 => Just(1u8), 1 => Just(2u8)].boxed(),
            };
            proptest::collection::vec((0u8..3, api), len..=len)
        })
        .prop_map(|acts| COp::Burst { acts })
}

fn arb_cop() -> impl Strategy<Value = COp> {
    prop_oneof![
        4 => arb_burst(),
        3 => arb_nbytes().prop_map(|n| COp::Pump { n }),
        2 => Just(COp::Pump { n: usize::MAX }),
        6 => (1usize..8).prop_map(|k| COp::Poll { k }),
        3 => Just(COp::Poll { k: 100_000 }),
        4 => arb_small_cap().prop_map(|cap| COp::Answer { cap }),
        10 => (any::<u16>(), arb_nbytes()).prop_map(|(c, n)| COp::ReadCh { c, n }),
        1 => arb_small_cap().prop_map(|cap| COp::Settle { cap }),
        1 => (1u64..200).prop_map(|ms| COp::Advance { ms }),
        1 => Just(COp::Advance { ms: 31_000 }),
    ]
}

pub fn arb_case(max_ops: usize, commander: bool) -> impl Strategy<Value = CCase> {
    (
        arb_params(),
        proptest::sample::subsequence((0u8..TARGETS.len() as u8).collect::<Vec<_>>(), 1..=3),
        proptest::collection::vec(arb_cop(), 2..max_ops),
        arb_small_cap(),
        proptest::collection::vec((0u8..3, any::<bool>()), 0..=3),
    )
        .prop_map(move |(params, targets, ops, final_cap, start_cmdrs)| CCase {
            params,
            targets,
            ops,
            final_cap,
            commander,
            start_cmdrs: if commander { start_cmdrs } else { vec![] },
        })
}

struct ChanObs {
    key: String,
    cap: usize,
    opened_seq: u64,
    frames: Vec<vsim::links::CmdFrame>,
    decode_error: Option<String>,
    partial: usize,
    refused: bool,
    eof: bool,
}

struct Obs {
    agent_id: uuid::Uuid,
    trace: Vec<(u64, CEv)>,
    chans: Vec<ChanObs>,
    /// (seq) of every point at which the system was idle after an op.
    idle: Vec<u64>,
    /// (seq) of every completed full settle.
    quiescent: Vec<u64>,
    /// (seq, channel) of every read that returned at least one byte.
    reads: Vec<(u64, usize)>,
    result: Option<Result<(), String>>,
    unanswered: usize,
    ctl_unwritten: usize,
}

fn settle_all(sim: &mut Sim, server: &mut LinkServer, cap: usize) {
    // no bound on the number of rounds (a 1-byte channel moves one byte per round); a livelock
    // (polls but no byte moves) is still detected
    let mut stagnant = 0u32;
    loop {
        let mut moved = 0usize;
        moved += server.accept(&mut sim.link_rx);
        while server.answer_next(cap).is_some() {
            moved += 1;
        }
        for r in sim.remotes.iter_mut() {
            moved += r.pump(usize::MAX);
        }
        let polls = sim.poll(10_000);
        for r in sim.remotes.iter_mut() {
            moved += r.read(usize::MAX);
        }
        moved += server.drain_all();
        moved += server.accept(&mut sim.link_rx);
        if moved == 0 && polls == 0 && (sim.is_done() || !sim.is_woken()) {
            break;
        }
        if moved == 0 {
            stagnant += 1;
            if stagnant > 20_000 {
                panic!("settle_all: the system keeps running but nothing has moved for 20000 rounds (livelock)");
            }
        } else {
            stagnant = 0;
        }
    }
}

fn programs_of(case: &CCase) -> Vec<Vec<CAct>> {
    let mut programs = vec![];
    for op in &case.ops {
        if let COp::Burst { acts } = op {
            let k = programs.len();
            let prog = acts
                .iter()
                .enumerate()
                .map(|(i, (slot, api))| CAct {
                    t: case.targets[(*slot as usize) % case.targets.len()] as usize % TARGETS.len(),
                    v: ((k as i64) + 1) * 1000 + i as i64,
                    // odd = not overwritable; without the commander apis 2,3 fold onto 0,1
                    api: Api::from_index(if case.commander { *api } else { *api % 2 }),
                })
                .collect();
            programs.push(prog);
        }
    }
    programs
}

fn execute(case: &CCase) -> Obs {
    block_on_paused(case.params.seed, async {
        let clock = Arc::new(AtomicU64::new(1));
        let start_cmdrs = case
            .start_cmdrs
            .iter()
            .enumerate()
            .map(|(i, (slot, first))| {
                let t = case.targets[(*slot as usize) % case.targets.len()] as usize % TARGETS.len();
                (t, if *first { Some(500 + i as i64) } else { None })
            })
            .collect();
        let shared = CShared::new(clock.clone(), programs_of(case), start_cmdrs);
        let agent = make_cmd_agent(shared.clone());
        let mut sim = Sim::start(&agent, &case.params, clock.clone(), None);
        sim.run_until_idle();
        let mut server = LinkServer::new(clock.clone());
        sim.attach(4096, 4096);
        let mut idle = vec![];
        let mut quiescent = vec![];
        let mut reads = vec![];
        let mut next_prog = 0usize;
        for op in &case.ops {
            match op {
                COp::Burst { .. } => {
                    let body = next_prog.to_string().into_bytes();
                    next_prog += 1;
                    sim.remotes[0].send("ctl", Req::Command(body));
                }
                COp::Pump { n } => {
                    sim.remotes[0].pump(*n);
                }
                COp::Poll { k } => {
                    sim.poll(*k);
                }
                COp::Answer { cap } => {
                    server.accept(&mut sim.link_rx);
                    server.answer_next(*cap);
                }
                COp::ReadCh { c, n } => {
                    let nch = server.channels.len();
                    if nch > 0 {
                        let ch = pick_index(*c, nch);
                        if server.read(ch, *n) > 0 {
                            reads.push((sim.tick(), ch));
                        }
                    }
                }
                COp::Settle { cap } => {
                    settle_all(&mut sim, &mut server, *cap);
                    quiescent.push(sim.tick());
                }
                COp::Advance { ms } => {
                    sim.advance(Duration::from_millis(*ms)).await;
                }
            }
            server.accept(&mut sim.link_rx);
            // nothing the remote sends is ever read back in this sub-check except by settle
            if sim.is_done() || !sim.is_woken() {
                idle.push(sim.tick());
            }
        }
        settle_all(&mut sim, &mut server, case.final_cap);
        quiescent.push(sim.tick());
        idle.push(sim.tick());
        Obs {
            agent_id: sim.agent_id,
            trace: shared.trace(),
            chans: server
                .channels
                .iter()
                .map(|c| ChanObs {
                    key: c.key.clone(),
                    cap: c.cap,
                    opened_seq: c.opened_seq,
                    frames: c.frames.clone(),
                    decode_error: c.decode_error.clone(),
                    partial: c.partial_bytes(),
                    refused: c.refused_by_agent,
                    eof: c.eof,
                })
                .collect(),
            idle,
            quiescent,
            reads,
            result: sim.result.clone(),
            unanswered: server.pending.len(),
            ctl_unwritten: sim.remotes[0].outbox_len(),
        }
    })
}

fn parse_i64(body: &[u8]) -> Option<i64> {
    std::str::from_utf8(body).ok()?.trim().parse().ok()
}

/// Appends the sub-check's suffix to every signature (the commander variant has its own
/// signatures so that a finding that needs registration messages does not mask the ad hoc variant).
struct SigVerdict {
    v: Verdict,
    sfx: &'static str,
}

impl SigVerdict {
    fn fail(&mut self, sig: &str, detail: String) {
        self.v.fail(format!("{}{}", sig, self.sfx), detail);
    }
}

struct SentCmd {
    seq: u64,
    v: i64,
    ow: bool,
    prog: i32,
}

pub fn check(case: &CCase) -> Verdict {
    let obs = execute(case);
    let dump = std::env::var("VERIF_DUMP").is_ok();
    if dump {
        eprintln!("trace: {:?}", obs.trace);
        for (i, c) in obs.chans.iter().enumerate() {
            eprintln!("chan {} key={} cap={} opened={} refused={} eof={}", i, c.key, c.cap, c.opened_seq, c.refused, c.eof);
            for f in &c.frames {
                eprintln!("   {} {} {} {:?}", f.seq, f.node, f.lane, match &f.kind {
                    CmdFrameKind::Command(b) => String::from_utf8_lossy(b).to_string(),
                    k => format!("{:?}", k),
                });
            }
        }
        eprintln!("idle {:?} quiescent {:?} result {:?}", obs.idle, obs.quiescent, obs.result);
    }
    let mut v = SigVerdict { v: Verdict::new(), sfx: if case.commander { "@commander" } else { "" } };
    if let Some(Err(e)) = &obs.result {
        v.fail("agent-failed", format!("the agent task ended with an error: {}", e));
    }
    if matches!(obs.result, Some(Ok(()))) {
        v.fail("harness:agent-stopped", "the agent task ended although nothing asked it to stop".to_string());
    }
    if obs.unanswered > 0 || obs.ctl_unwritten > 0 {
        v.fail("harness-not-quiescent", format!("unanswered {} ctl bytes unwritten {}", obs.unanswered, obs.ctl_unwritten));
    }

    // what was sent, per target, in send order
    let mut sent: BTreeMap<usize, Vec<SentCmd>> = BTreeMap::new();
    let mut prog_span: HashMap<i32, (u64, Option<u64>)> = HashMap::new();
    let mut cur_prog = -1;
    for (seq, ev) in &obs.trace {
        match ev {
            CEv::ProgBegin { idx } => {
                if prog_span.insert(*idx, (*seq, None)).is_some() {
                    v.fail("program-ran-twice", format!("program {} was started twice (a ctl command was delivered twice)", idx));
                }
                cur_prog = *idx;
            }
            CEv::ProgEnd { idx } => {
                if let Some(e) = prog_span.get_mut(idx) {
                    e.1 = Some(*seq);
                }
            }
            CEv::Sent { t, v: val, ow } => sent.entry(*t).or_default().push(SentCmd {
                seq: *seq,
                v: *val,
                ow: *ow,
                prog: cur_prog,
            }),
            CEv::BigSent { .. } | CEv::RegFailed { .. } => {}
        }
    }

    // what arrived, per target: channels of the target's key in the order they were opened
    let mut chan_order: Vec<usize> = (0..obs.chans.len()).collect();
    chan_order.sort_by_key(|i| obs.chans[*i].opened_seq);
    let mut received: BTreeMap<usize, Vec<(i64, u64, usize)>> = BTreeMap::new(); // value, seq, chan
    for ci in chan_order {
        let c = &obs.chans[ci];
        if let Some(e) = &c.decode_error {
            v.fail("sent-cmd-bad-frame", format!("channel {} ({}): undecodable bytes: {}", ci, c.key, e));
        }
        if c.partial > 0 {
            v.fail("sent-cmd-bad-frame", format!("channel {} ({}): {} bytes of an incomplete frame at quiescence", ci, c.key, c.partial));
        }
        for f in &c.frames {
            let CmdFrameKind::Command(body) = &f.kind else {
                v.fail("sent-cmd-bad-frame", format!("channel {} ({}): non-command frame {:?}", ci, c.key, f));
                continue;
            };
            if f.origin != obs.agent_id {
                v.fail("sent-cmd-bad-frame", format!("channel {} ({}): frame with origin {} (agent is {})", ci, c.key, f.origin, obs.agent_id));
            }
            let target = (0..TARGETS.len()).find(|t| {
                target_key(*t) == c.key && TARGETS[*t].1 == f.node && TARGETS[*t].2 == f.lane
            });
            let Some(t) = target else {
                v.fail("sent-cmd-misrouted", format!("channel {} for {} carried a command for {} {}", ci, c.key, f.node, f.lane));
                continue;
            };
            let Some(val) = parse_i64(body) else {
                v.fail("sent-cmd-invented", format!("target {:?}: body {:?} is not a value that was sent", TARGETS[t], String::from_utf8_lossy(body)));
                continue;
            };
            received.entry(t).or_default().push((val, f.seq, ci));
        }
    }

    let empty_s: Vec<SentCmd> = vec![];
    let empty_r: Vec<(i64, u64, usize)> = vec![];
    let mut superseded_total = 0usize;
    let mut nontrivial = false;
    let all_targets: Vec<usize> = {
        let mut s: Vec<usize> = sent.keys().chain(received.keys()).copied().collect();
        s.sort();
        s.dedup();
        s
    };
    for t in all_targets {
        let s = sent.get(&t).unwrap_or(&empty_s);
        let r = received.get(&t).unwrap_or(&empty_r);
        let index_of: HashMap<i64, usize> = s.iter().enumerate().map(|(i, c)| (c.v, i)).collect();
        let mut count = vec![0usize; s.len()];
        let mut firsts: Vec<usize> = vec![];
        for (val, seq, ci) in r {
            match index_of.get(val) {
                None => v.fail(
                    "sent-cmd-invented",
                    format!("target {:?}: received {} (seq {}, channel {}) which was never sent to it", TARGETS[t], val, seq, ci),
                ),
                Some(i) => {
                    if *seq < s[*i].seq {
                        v.fail("sent-cmd-invented", format!("target {:?}: {} received (seq {}) before it was sent (seq {})", TARGETS[t], val, seq, s[*i].seq));
                    }
                    count[*i] += 1;
                    if count[*i] == 1 {
                        firsts.push(*i);
                    }
                }
            }
        }
        let summary = || {
            format!(
                "sent {:?}; received {:?}",
                s.iter().map(|c| (c.v, if c.ow { "ow" } else { "q" })).collect::<Vec<_>>(),
                r.iter().map(|(val, _, ci)| (*val, *ci)).collect::<Vec<_>>()
            )
        };
        if let Some(i) = count.iter().position(|c| *c > 1) {
            v.fail(
                "sent-cmd-duplicated",
                format!("target {:?}: command {} was forwarded {} times. {}", TARGETS[t], s[i].v, count[i], summary()),
            );
        }
        if let Some(w) = firsts.windows(2).find(|w| w[1] < w[0]) {
            v.fail(
                "sent-cmd-reordered",
                format!("target {:?}: {} forwarded before {} but sent after it. {}", TARGETS[t], s[w[0]].v, s[w[1]].v, summary()),
            );
        }
        // one failure per (target, kind of loss): the first lost command and how many there are
        let mut lost_q: Vec<i64> = vec![];
        let mut lost_last: Vec<i64> = vec![];
        let mut lost_ns: Vec<(i64, u64, i64, u64)> = vec![];
        for (i, c) in s.iter().enumerate() {
            if count[i] > 0 {
                continue;
            }
            if !c.ow {
                lost_q.push(c.v);
            } else if i + 1 == s.len() {
                lost_last.push(c.v);
            } else {
                // it may only have been superseded by a later command to the same target sent
                // before it left: at a quiescent point everything pending has left
                let next = &s[i + 1];
                if obs.quiescent.iter().any(|q| *q > c.seq && *q < next.seq) {
                    lost_ns.push((c.v, c.seq, next.v, next.seq));
                } else {
                    superseded_total += 1;
                }
            }
        }
        if let Some(first) = lost_q.first() {
            v.fail(
                "sent-cmd-lost:not-overwritable",
                format!("target {:?}: {} non-overwritable commands were never forwarded, the first is {}. {}", TARGETS[t], lost_q.len(), first, summary()),
            );
        }
        if let Some(first) = lost_last.first() {
            v.fail(
                "sent-cmd-lost:nothing-later",
                format!("target {:?}: the overwritable command {} was never forwarded although no later command was sent to the same target. {}", TARGETS[t], first, summary()),
            );
        }
        if let Some((val, seq, nv, nseq)) = lost_ns.first() {
            v.fail(
                "sent-cmd-lost:not-superseded",
                format!("target {:?}: {} overwritable commands were never forwarded although the system was quiescent before the next command to the same target; the first is {} (sent at {}, next command {} at {}). {}", TARGETS[t], lost_ns.len(), val, seq, nv, nseq, summary()),
            );
        }

        // non-trivial: for some program, more bytes of its commands to this target than the
        // target's channel holds were still to be read when the system went idle after the
        // program, and the target read nothing while the program was forwarded
        let mut progs: Vec<i32> = s.iter().map(|c| c.prog).collect();
        progs.dedup();
        for p in progs {
            let Some((b, Some(e))) = prog_span.get(&p).copied() else { continue };
            let Some(idle_after) = obs.idle.iter().copied().find(|i| *i > e) else { continue };
            let mut per_chan: HashMap<usize, usize> = HashMap::new();
            for (val, seq, ci) in r {
                if let Some(i) = index_of.get(val) {
                    if s[*i].prog == p && *seq > idle_after {
                        *per_chan.entry(*ci).or_default() += 32 + TARGETS[t].1.len() + TARGETS[t].2.len() + val.to_string().len();
                    }
                }
            }
            for (ci, bytes) in per_chan {
                let stalled = !obs.reads.iter().any(|(rs, rc)| *rc == ci && *rs > b && *rs < idle_after);
                if stalled && bytes > obs.chans[ci].cap {
                    nontrivial = true;
                }
            }
        }
    }
    let mut v = v.v;
    if nontrivial {
        v.nontrivial();
    }
    let nsent: usize = sent.values().map(|s| s.len()).sum();
    v.class_if(nontrivial, "burst>cap-with-stalled-target");
    v.class_if(superseded_total > 0, "overwritable-superseded");
    v.class_if(sent.len() >= 2, "targets>=2");
    v.class_if(sent.len() >= 3, "targets>=3");
    v.class_if(nsent >= 100, "sent>=100");
    v.class_if(nsent == 0, "nothing-sent");
    {
        // kept commanders created in both phases: one made in on_start is used again after a run-time
        // handler has created (and kept) one for another target
        let start_targets: Vec<usize> = case
            .start_cmdrs
            .iter()
            .map(|(slot, _)| case.targets[(*slot as usize) % case.targets.len()] as usize % TARGETS.len())
            .collect();
        let programs = programs_of(case);
        let mut created_later = false;
        let mut both = false;
        for (_, ev) in &obs.trace {
            if let CEv::ProgBegin { idx } = ev {
                for a in programs.get(*idx as usize).map(|p| p.as_slice()).unwrap_or(&[]) {
                    if matches!(a.api, Api::Held | Api::HeldQueued) {
                        if start_targets.contains(&a.t) {
                            both |= created_later;
                        } else {
                            created_later = true;
                        }
                    }
                }
            }
        }
        v.class_if(!start_targets.is_empty(), "commander-kept-from-on-start");
        v.class_if(both, "kept-commanders-from-both-phases");
    }
    v.class_if(
        sent.values().any(|s| s.iter().any(|c| c.ow)) && sent.values().any(|s| s.iter().any(|c| !c.ow)),
        "mixed-overwritable",
    );
    v.class_if(
        {
            let mut keys: Vec<&str> = obs.chans.iter().map(|c| c.key.as_str()).collect();
            let n = keys.len();
            keys.sort();
            keys.dedup();
            keys.len() < n
        },
        "channel-reopened-after-timeout",
    );
    v.class_if(
        {
            // two lanes multiplexed on one remote-host channel
            let mut per_chan: HashMap<usize, Vec<usize>> = HashMap::new();
            for (t, r) in &received {
                for (_, _, ci) in r {
                    let e = per_chan.entry(*ci).or_default();
                    if !e.contains(t) {
                        e.push(*t);
                    }
                }
            }
            per_chan.values().any(|ts| ts.len() >= 2)
        },
        "two-lanes-one-channel",
    );
    v
}
