//! C20 Introspection reports the true number of links and counts every message.
mod agentsim;
mod links;
mod threads;

use vcommon::Ctx;

fn main() {
    let args: Vec<String> = std::env::args().skip(1).collect();
    let mut ctx = Ctx::new("C20", &args);
    ctx.rule(
        "links-enum-*: every sequence (to the depth bound) of register_reporter / insert / remove / remove_remote / remove_lane / \
         remove_all_links / count_single / count_broadcast over L lanes x R remotes, restricted to the way agent/task/mod.rs uses the \
         registry (see links.rs header), executed from scratch on the real `Links` with real reporters; after EVERY operation every \
         lane reader and the aggregate reader are snapshot and compared with the reference relation, and the snapshots so far must add up \
         to what was counted. One runner case is the subtree under a 2-op prefix; evaluations / distinct_nontrivial are counted per \
         executed maximal sequence (distinct by construction). links-random: 3 lanes x 4 remotes, up to 80 ops chosen among the enabled \
         ones, snapshots either after every op or only at generated Snap ops. A history is non-trivial when a removal path other than a \
         single unlink (remove_remote / remove_lane) removed at least one link and a link was inserted afterwards. \
         agentsim: real SimAgent + real runtime with NodeReporting; phases (links only / events only / mixed with remote drops, pruning, \
         unknown lanes, stop) each ended by settle() and a snapshot of all readers; non-trivial = a phase whose event count is exactly \
         predictable saw sync responses or a broadcast to >= 2 links, or the runtime removed a remote and another link followed. \
         threads: 1-5 OS threads counting on one UplinkReporter while one thread snapshots; non-trivial = >= 3 non-empty snapshots \
         interleaved with >= 2 counting threads.",
    );
    ctx.assume("sequentially consistent executions only; the Relaxed orderings of the counters are not explored (x86)");
    ctx.assume("agentsim: the frames a still-connected remote has received at quiescence (linked without a later unlinked) define 'actually linked'; a remote the harness dropped may or may not still be counted until the runtime notices (completion promise)");
    ctx.assume("event_count counts events handed to links before backpressure relief (count_single: 1 per targeted response incl. the synced marker, count_broadcast: current fan-out), as implemented in handle_event");

    let (d22, d33) = ctx.pick((7usize, 6usize), (9usize, 7usize));
    ctx.enumerate("links-enum-2x2", |w, ws| links::tree_cases(2, 2, d22, 2, w, ws), links::check_tree);
    ctx.enumerate("links-enum-3x3", |w, ws| links::tree_cases(3, 3, d33, 2, w, ws), links::check_tree);
    let n = ctx.pick(2_000_000, 20_000_000);
    ctx.prop("links-random", n, || links::rand_strategy(80), links::check_rand);
    let n = ctx.pick(300_000, 2_000_000);
    let (ph, ops) = ctx.pick((6usize, 14usize), (10usize, 30usize));
    ctx.prop("agentsim", n, move || agentsim::arb_case(ph, ops), agentsim::check);
    let n = ctx.pick(2_000, 20_000);
    ctx.prop("threads", n, threads::strategy, threads::check);
    ctx.finish();
}
