fn main() {}
