//! `dlrt` engine: the REAL `ValueDownlinkRuntime` / `MapDownlinkRuntime` as one future polled by the
//! harness (flag waker, paused seeded current-thread tokio runtime, swimos coop budget), a LEGAL remote
//! lane model on the socket side and N consumers attached through `AttachAction`. Every peer is plain
//! data driven by the generated op list: byte-channel halves plus an outbox with partial writes.
//!
//! All observers share one sequence counter so that oracles are invariants over histories.

use bytes::{Buf, BufMut, Bytes, BytesMut};
use futures::future::LocalBoxFuture;
use futures::FutureExt;
use serde::{Deserialize, Serialize};
use std::cell::Cell;
use std::collections::{BTreeMap, VecDeque};
use std::future::Future;
use std::num::NonZeroUsize;
use std::pin::Pin;
use std::rc::Rc;
use std::sync::atomic::{AtomicBool, Ordering};
use std::sync::Arc;
use std::task::{Context, Poll, Wake, Waker};
use std::time::Duration;
use swimos_agent_protocol::encoding::map::{RawMapMessageDecoder, RawMapOperationEncoder};
use swimos_agent_protocol::peeling::extract_header;
use swimos_agent_protocol::{MapMessage, MapOperation};
use swimos_api::address::RelativeAddress;
use swimos_messages::protocol::{
    Operation, RawRequestMessageDecoder, RawResponseMessageEncoder, ResponseMessage,
};
use swimos_runtime::downlink::failure::{AlwaysAbortStrategy, ReportStrategy};
use swimos_runtime::downlink::{
    AttachAction, DownlinkOptions, DownlinkRuntimeConfig, IdentifiedAddress, MapDownlinkRuntime,
    ValueDownlinkRuntime,
};
use swimos_utilities::byte_channel::{byte_channel, BudgetedFutureExt, ByteReader, ByteWriter};
use swimos_utilities::trigger;
use tokio::io::{AsyncRead, AsyncWrite, ReadBuf};
use tokio::sync::mpsc;
use tokio_util::codec::{Decoder, Encoder};
use uuid::Uuid;

// ---------------------------------------------------------------------------------------------
// executor plumbing (same technique as vsim::exec / vsim::remote)

struct Flag(AtomicBool);
impl Wake for Flag {
    fn wake(self: Arc<Self>) {
        self.0.store(true, Ordering::SeqCst);
    }
    fn wake_by_ref(self: &Arc<Self>) {
        self.0.store(true, Ordering::SeqCst);
    }
}

struct Noop;
impl Wake for Noop {
    fn wake(self: Arc<Self>) {}
}

/// Run a future on a fresh current-thread runtime with paused time and a pinned `select!` RNG. The
/// future runs unconstrained by tokio's own coop budget (it is polled once for the whole case).
pub fn block_on_paused<F: Future>(seed: u64, fut: F) -> F::Output {
    let mut bytes = [0u8; 32];
    for (i, c) in bytes.chunks_mut(8).enumerate() {
        c.copy_from_slice(
            &(seed.wrapping_add(i as u64).wrapping_mul(0x9E3779B97F4A7C15)).to_le_bytes(),
        );
    }
    let rt = tokio::runtime::Builder::new_current_thread()
        .enable_time()
        .start_paused(true)
        .rng_seed(tokio::runtime::RngSeed::from_bytes(&bytes))
        .build()
        .expect("runtime");
    rt.block_on(tokio::task::unconstrained(fut))
}

/// Harness-side channel operation under a large swimos coop budget (the budget is a thread local
/// shared with the system under test; the system's `RunWithBudget` resets it on every poll).
fn harness_op<T>(mut f: impl FnMut(&mut Context<'_>) -> Poll<T>) -> Poll<T> {
    let waker = Waker::from(Arc::new(Noop));
    let mut cx = Context::from_waker(&waker);
    let fut = std::future::poll_fn(|cx| f(cx)).with_budget(NonZeroUsize::new(1 << 30).unwrap());
    let mut fut = std::pin::pin!(fut);
    fut.as_mut().poll(&mut cx)
}

fn nz(n: usize) -> NonZeroUsize {
    NonZeroUsize::new(n.max(1)).unwrap()
}

#[derive(Clone)]
pub struct Clock(Rc<Cell<u64>>);
impl Clock {
    pub fn new() -> Self {
        Clock(Rc::new(Cell::new(1)))
    }
    pub fn tick(&self) -> u64 {
        let v = self.0.get();
        self.0.set(v + 1);
        v
    }
    pub fn now(&self) -> u64 {
        self.0.get()
    }
}

/// Writing half owned by the harness: an outbox that is written in pieces of at most n bytes.
struct Pipe {
    w: Option<ByteWriter>,
    outbox: BytesMut,
    /// (absolute offset of the last byte of an item, tag of the item)
    marks: VecDeque<(u64, usize)>,
    written: u64,
    queued: u64,
    closed_by_peer: bool,
}

impl Pipe {
    fn new(w: ByteWriter) -> Self {
        Pipe {
            w: Some(w),
            outbox: BytesMut::new(),
            marks: VecDeque::new(),
            written: 0,
            queued: 0,
            closed_by_peer: false,
        }
    }
    fn queue(&mut self, bytes: &[u8], tag: usize) {
        self.outbox.extend_from_slice(bytes);
        self.queued += bytes.len() as u64;
        self.marks.push_back((self.queued, tag));
    }
    /// Write at most `max` bytes; `done(tag)` for every item whose last byte was written.
    fn pump(&mut self, max: usize, mut done: impl FnMut(usize)) -> usize {
        let mut written = 0;
        while written < max && !self.outbox.is_empty() {
            let Some(w) = self.w.as_mut() else { break };
            let n = (max - written).min(self.outbox.len());
            let chunk = &self.outbox[..n];
            match harness_op(|cx| Pin::new(&mut *w).poll_write(cx, chunk)) {
                Poll::Ready(Ok(0)) => break,
                Poll::Ready(Ok(k)) => {
                    let _ = self.outbox.split_to(k);
                    written += k;
                    self.written += k as u64;
                    while let Some((mark, tag)) = self.marks.front().copied() {
                        if mark <= self.written {
                            self.marks.pop_front();
                            done(tag);
                        } else {
                            break;
                        }
                    }
                }
                Poll::Ready(Err(_)) => {
                    self.closed_by_peer = true;
                    self.w = None;
                    break;
                }
                Poll::Pending => break,
            }
        }
        written
    }
    fn close(&mut self) {
        self.w = None;
        self.outbox.clear();
        self.marks.clear();
    }
    fn is_open(&self) -> bool {
        self.w.is_some()
    }
}

struct Source {
    r: Option<ByteReader>,
    inbox: BytesMut,
    eof: bool,
}

impl Source {
    fn new(r: ByteReader) -> Self {
        Source {
            r: Some(r),
            inbox: BytesMut::new(),
            eof: false,
        }
    }
    /// Read at most `max` bytes into the inbox. Returns the number read.
    fn read(&mut self, max: usize) -> usize {
        let mut total = 0;
        while total < max {
            let Some(r) = self.r.as_mut() else { break };
            let want = (max - total).min(4096);
            let mut tmp = vec![0u8; want];
            let mut rb = ReadBuf::new(&mut tmp);
            match harness_op(|cx| Pin::new(&mut *r).poll_read(cx, &mut rb)) {
                Poll::Ready(Ok(())) => {
                    let n = rb.filled().len();
                    if n == 0 {
                        self.eof = true;
                        self.r = None;
                        break;
                    }
                    self.inbox.extend_from_slice(rb.filled());
                    total += n;
                }
                Poll::Ready(Err(_)) => {
                    self.eof = true;
                    self.r = None;
                    break;
                }
                Poll::Pending => break,
            }
        }
        total
    }
    fn close(&mut self) {
        self.r = None;
    }
}

// ---------------------------------------------------------------------------------------------
// protocol content

#[derive(Clone, Copy, Debug, PartialEq, Eq, Serialize, Deserialize)]
pub enum Kind {
    Value,
    Map,
}

impl Kind {
    pub fn name(&self) -> &'static str {
        match self {
            Kind::Value => "value",
            Kind::Map => "map",
        }
    }
}

/// Recon spellings of the map keys and the key each denotes. Spellings of one key are equal under
/// `compare_recon_values` (and hash alike); spellings of different keys are not (checked by `selftest`).
pub const KEYS: [(&str, u8); 8] = [
    ("a", 0),
    ("\"a\"", 0),
    ("b", 1),
    ("\"b\"", 1),
    ("c", 2),
    ("1", 3),
    ("\"d e\"", 4),
    ("@k{x:1}", 5),
];
pub const NKEYS: u8 = 6;

pub fn canon_spelling(key: u8) -> &'static str {
    KEYS.iter().find(|(_, k)| *k == key).map(|(s, _)| *s).unwrap_or("?")
}

pub fn key_of_spelling(bytes: &[u8]) -> Option<u8> {
    let s = std::str::from_utf8(bytes).ok()?.trim();
    KEYS.iter().find(|(sp, _)| *sp == s).map(|(_, k)| *k)
}

/// Content of a write (a consumer's command or a spontaneous change of the remote lane).
#[derive(Clone, Debug, PartialEq, Eq, Serialize, Deserialize)]
pub enum W {
    /// value lane: body is the decimal id (unique per case); `pad` > 0 makes it a long body
    /// (`v<id>xxx…`) so that the runtime's `FramedWrite` towards the socket passes its 8 KiB
    /// back-pressure boundary and a *write* (not only a flush) can be pending
    Val {
        id: u32,
        #[serde(default)]
        pad: u16,
    },
    /// value lane: the empty body (Recon for extant / None / unit)
    Empty,
    /// map lane: update, key = KEYS[k].0 as spelled, value = decimal id (unique per case) or the
    /// long form when `pad` > 0
    Upd {
        k: u8,
        id: u32,
        #[serde(default)]
        pad: u16,
    },
    Rem { k: u8 },
    Clr,
}

/// Normalised content of an event or command.
#[derive(Clone, Debug, PartialEq, Eq, Hash, Serialize, Deserialize)]
pub enum Ev {
    Val(Vec<u8>),
    Upd(u8, Vec<u8>),
    Rem(u8),
    Clr,
    /// undecodable / unknown content (never produced by the harness itself)
    Bad(Vec<u8>),
}

fn short(b: &[u8]) -> String {
    if b.len() > 24 {
        format!("{}…[{} bytes]", String::from_utf8_lossy(&b[..12]), b.len())
    } else {
        String::from_utf8_lossy(b).to_string()
    }
}

impl Ev {
    pub fn show(&self) -> String {
        match self {
            Ev::Val(b) => format!("{:?}", short(b)),
            Ev::Upd(k, v) => format!("upd({},{})", canon_spelling(*k), short(v)),
            Ev::Rem(k) => format!("rem({})", canon_spelling(*k)),
            Ev::Clr => "clear".to_string(),
            Ev::Bad(b) => format!("BAD({:?})", String::from_utf8_lossy(b)),
        }
    }
    /// Does this operation affect `key`? (clear affects every key)
    pub fn affects(&self, key: u8) -> bool {
        match self {
            Ev::Upd(k, _) | Ev::Rem(k) => *k == key,
            Ev::Clr => true,
            _ => false,
        }
    }
    pub fn key(&self) -> Option<u8> {
        match self {
            Ev::Upd(k, _) | Ev::Rem(k) => Some(*k),
            _ => None,
        }
    }
}

/// Body of a write: the decimal id, or `v<id>` followed by `pad` filler characters.
pub fn body_of(id: u32, pad: u16) -> Vec<u8> {
    if pad == 0 {
        id.to_string().into_bytes()
    } else {
        let mut b = format!("v{}", id).into_bytes();
        b.resize(b.len() + pad as usize, b'x');
        b
    }
}

impl W {
    pub fn is_big(&self) -> bool {
        matches!(self, W::Val { pad, .. } | W::Upd { pad, .. } if *pad > 0)
    }

    pub fn ev(&self) -> Ev {
        match self {
            W::Val { id, pad } => Ev::Val(body_of(*id, *pad)),
            W::Empty => Ev::Val(vec![]),
            W::Upd { k, id, pad } => Ev::Upd(KEYS[*k as usize % KEYS.len()].1, body_of(*id, *pad)),
            W::Rem { k } => Ev::Rem(KEYS[*k as usize % KEYS.len()].1),
            W::Clr => Ev::Clr,
        }
    }
    fn spelled_key(&self) -> &'static str {
        match self {
            W::Upd { k, .. } | W::Rem { k } => KEYS[*k as usize % KEYS.len()].0,
            _ => "",
        }
    }
    /// Encoding on the consumer -> runtime channel (`DownlinkOperationDecoder` /
    /// `RawMapOperationDecoder` are what the runtime reads it with).
    fn encode_operation(&self, dst: &mut BytesMut) {
        match self {
            W::Val { .. } | W::Empty => {
                let Ev::Val(body) = self.ev() else { unreachable!() };
                dst.put_u64(body.len() as u64);
                dst.put_slice(&body);
            }
            W::Upd { id, pad, .. } => {
                let op: MapOperation<&[u8], Vec<u8>> = MapOperation::Update {
                    key: self.spelled_key().as_bytes(),
                    value: body_of(*id, *pad),
                };
                RawMapOperationEncoder.encode(op, dst).expect("encode");
            }
            W::Rem { .. } => {
                let op: MapOperation<&[u8], Vec<u8>> = MapOperation::Remove {
                    key: self.spelled_key().as_bytes(),
                };
                RawMapOperationEncoder.encode(op, dst).expect("encode");
            }
            W::Clr => {
                let op: MapOperation<&[u8], Vec<u8>> = MapOperation::Clear;
                RawMapOperationEncoder.encode(op, dst).expect("encode");
            }
        }
    }
}

/// Recon body of an event envelope as a lane would emit it.
fn event_body(ev: &Ev) -> Vec<u8> {
    match ev {
        Ev::Val(b) => b.clone(),
        Ev::Upd(k, v) => {
            let mut out = format!("@update(key:{}) ", canon_spelling(*k)).into_bytes();
            out.extend_from_slice(v);
            out
        }
        Ev::Rem(k) => format!("@remove(key:{})", canon_spelling(*k)).into_bytes(),
        Ev::Clr => b"@clear".to_vec(),
        Ev::Bad(b) => b.clone(),
    }
}

/// State of the lane / of a consumer's replica.
#[derive(Clone, Debug, PartialEq, Eq)]
pub enum State {
    Val(Option<Vec<u8>>),
    Map(BTreeMap<u8, Vec<u8>>),
}

impl State {
    pub fn empty(kind: Kind) -> State {
        match kind {
            Kind::Value => State::Val(None),
            Kind::Map => State::Map(BTreeMap::new()),
        }
    }
    pub fn apply(&mut self, ev: &Ev) {
        match (self, ev) {
            (State::Val(v), Ev::Val(b)) => *v = Some(b.clone()),
            (State::Map(m), Ev::Upd(k, v)) => {
                m.insert(*k, v.clone());
            }
            (State::Map(m), Ev::Rem(k)) => {
                m.remove(k);
            }
            (State::Map(m), Ev::Clr) => m.clear(),
            _ => {}
        }
    }
    pub fn show(&self) -> String {
        match self {
            State::Val(None) => "<none>".into(),
            State::Val(Some(b)) => format!("{:?}", short(b)),
            State::Map(m) => {
                let items: Vec<String> = m
                    .iter()
                    .map(|(k, v)| format!("{}:{}", canon_spelling(*k), short(v)))
                    .collect();
                format!("{{{}}}", items.join(","))
            }
        }
    }
}

/// Content of a command envelope body as the lane understands it (map: the Recon the runtime's
/// `MapOperationReconEncoder` produces).
pub fn decode_command(kind: Kind, body: Bytes) -> Ev {
    match kind {
        Kind::Value => Ev::Val(body.to_vec()),
        Kind::Map => match extract_header(&body) {
            Ok(MapMessage::Update { key, value }) => match key_of_spelling(&key) {
                Some(k) => match std::str::from_utf8(&value) {
                    Ok(v) => Ev::Upd(k, v.trim().as_bytes().to_vec()),
                    Err(_) => Ev::Bad(body.to_vec()),
                },
                None => Ev::Bad(body.to_vec()),
            },
            Ok(MapMessage::Remove { key }) => match key_of_spelling(&key) {
                Some(k) => Ev::Rem(k),
                None => Ev::Bad(body.to_vec()),
            },
            Ok(MapMessage::Clear) => Ev::Clr,
            _ => Ev::Bad(body.to_vec()),
        },
    }
}

// ---------------------------------------------------------------------------------------------
// remote lane model

#[derive(Clone, Debug, PartialEq, Eq)]
pub enum EmKind {
    Linked,
    Event(Ev),
    /// `req_seq`: when the sync request it answers was read by the remote
    Synced { req_seq: u64 },
    Unlinked,
}

#[derive(Clone, Debug)]
pub struct Emission {
    /// the instant of the emission (appended to the lane's output)
    pub seq: u64,
    pub kind: EmKind,
    /// when its last byte entered the runtime's input channel
    pub pumped: Option<u64>,
    /// the lane's state right after this emission
    pub state_after: State,
}

#[derive(Clone, Debug, PartialEq, Eq)]
pub enum Req {
    Link,
    Sync,
    Unlink,
    Command(Ev),
}

pub struct RemoteLane {
    kind: Kind,
    input: Source,
    output: Pipe,
    clock: Clock,
    pub state: State,
    pub linked: bool,
    /// the lane sent `unlinked` (it never links again in a case)
    pub unlinked: bool,
    /// answer `link` with `unlinked` (the lane refuses the link)
    pub refuse: bool,
    pub emitted: Vec<Emission>,
    /// frames read from the runtime: (seq when complete, request)
    pub received: Vec<(u64, Req)>,
    /// the harness dropped the remote's channel halves at this instant
    pub closed: Option<u64>,
    /// only the remote's reader of the runtime's output was dropped (the outgoing half of the connection failed)
    pub closed_reader: Option<u64>,
    /// only the remote's writer towards the runtime was dropped (the incoming half failed)
    pub closed_writer: Option<u64>,
    pub decode_error: Option<String>,
    identity: Uuid,
    node: String,
    lane: String,
}

impl RemoteLane {
    fn emit(&mut self, kind: EmKind) {
        let path = RelativeAddress::new(self.node.as_str(), self.lane.as_str());
        let body;
        let msg: ResponseMessage<&str, &[u8], &[u8]> = match &kind {
            EmKind::Linked => ResponseMessage::linked(self.identity, path),
            EmKind::Synced { .. } => ResponseMessage::synced(self.identity, path),
            EmKind::Unlinked => ResponseMessage::unlinked(self.identity, path, None),
            EmKind::Event(ev) => {
                body = event_body(ev);
                ResponseMessage::event(self.identity, path, body.as_slice())
            }
        };
        let mut buf = BytesMut::new();
        RawResponseMessageEncoder.encode(msg, &mut buf).expect("encode");
        let idx = self.emitted.len();
        if self.output.is_open() {
            self.output.queue(&buf, idx);
        }
        let seq = self.clock.tick();
        self.emitted.push(Emission {
            seq,
            kind,
            pumped: None,
            state_after: self.state.clone(),
        });
    }

    /// A change of the lane's state (by a command or spontaneous); linked lanes broadcast it.
    fn change(&mut self, ev: &Ev) {
        self.state.apply(ev);
        if self.linked {
            self.emit(EmKind::Event(ev.clone()));
        }
    }

    fn respond(&mut self, req: &Req, seq: u64) {
        if self.closed.is_some() {
            return;
        }
        match req {
            Req::Link => {
                if self.unlinked {
                    // gone
                } else if self.refuse {
                    self.unlinked = true;
                    self.emit(EmKind::Unlinked);
                } else if !self.linked {
                    self.linked = true;
                    self.emit(EmKind::Linked);
                } else {
                    self.emit(EmKind::Linked);
                }
            }
            Req::Sync => {
                if self.unlinked {
                    return;
                }
                if !self.linked {
                    // a lane links a remote that syncs without a link
                    self.linked = true;
                    self.emit(EmKind::Linked);
                }
                match self.state.clone() {
                    State::Val(Some(v)) => self.emit(EmKind::Event(Ev::Val(v))),
                    State::Val(None) => {}
                    State::Map(m) => {
                        for (k, v) in m {
                            self.emit(EmKind::Event(Ev::Upd(k, v)));
                        }
                    }
                }
                self.emit(EmKind::Synced { req_seq: seq });
            }
            Req::Unlink => {
                if self.linked {
                    self.linked = false;
                    self.unlinked = true;
                    self.emit(EmKind::Unlinked);
                }
            }
            Req::Command(ev) => match (self.kind, ev) {
                (Kind::Value, Ev::Val(_)) | (Kind::Map, Ev::Upd(..)) | (Kind::Map, Ev::Clr) => {
                    self.change(ev)
                }
                (Kind::Map, Ev::Rem(k)) => {
                    // a map lane only reports the removal of an entry that exists
                    let present = matches!(&self.state, State::Map(m) if m.contains_key(k));
                    if present {
                        self.change(ev)
                    }
                }
                _ => {}
            },
        }
    }

    fn decode_command(&self, body: Bytes) -> Ev {
        decode_command(self.kind, body)
    }

    /// Read at most n bytes of what the runtime wrote; answer every complete frame at once.
    pub fn read(&mut self, n: usize) -> usize {
        let got = self.input.read(n);
        if self.decode_error.is_some() {
            return got;
        }
        loop {
            match RawRequestMessageDecoder.decode(&mut self.input.inbox) {
                Ok(Some(msg)) => {
                    let req = match msg.envelope {
                        Operation::Link => Req::Link,
                        Operation::Sync => Req::Sync,
                        Operation::Unlink => Req::Unlink,
                        Operation::Command(body) => Req::Command(self.decode_command(body)),
                    };
                    if msg.path.node.as_str() != self.node || msg.path.lane.as_str() != self.lane {
                        self.decode_error = Some(format!(
                            "frame addressed to {}/{}",
                            msg.path.node.as_str(),
                            msg.path.lane.as_str()
                        ));
                    }
                    let seq = self.clock.tick();
                    self.received.push((seq, req.clone()));
                    self.respond(&req, seq);
                }
                Ok(None) => break,
                Err(e) => {
                    self.decode_error = Some(format!("{:?}", e));
                    break;
                }
            }
        }
        got
    }

    /// Read whole frames: at most `k` further frames, never a byte of the one after (the bytes
    /// needed are computed from the frame header), stopping early when nothing more is available.
    pub fn read_frames(&mut self, k: usize) -> usize {
        const HEADER: usize = 32;
        let mut total = 0;
        let target = self.received.len() + k;
        while self.received.len() < target && self.decode_error.is_none() {
            let have = self.input.inbox.len();
            let need = if have < HEADER {
                HEADER - have
            } else {
                let h = &self.input.inbox[..HEADER];
                let node_len = u32::from_be_bytes(h[16..20].try_into().unwrap()) as usize;
                let lane_len = u32::from_be_bytes(h[20..24].try_into().unwrap()) as usize;
                let body_len = (u64::from_be_bytes(h[24..32].try_into().unwrap()) & !(0b111 << 61)) as usize;
                (HEADER + node_len + lane_len + body_len).saturating_sub(have)
            };
            // `read` decodes every complete frame, so an incomplete one is all the inbox can hold
            let got = self.read(need.max(1));
            total += got;
            if got == 0 {
                break;
            }
        }
        total
    }

    pub fn pump(&mut self, n: usize) -> usize {
        let clock = self.clock.clone();
        let emitted = &mut self.emitted;
        self.output.pump(n, |idx| {
            emitted[idx].pumped = Some(clock.tick());
        })
    }

    pub fn spontaneous(&mut self, w: &W) {
        if self.closed.is_some() {
            return;
        }
        let ev = w.ev();
        let ok = matches!(
            (self.kind, &ev),
            (Kind::Value, Ev::Val(_)) | (Kind::Map, Ev::Upd(..)) | (Kind::Map, Ev::Rem(_)) | (Kind::Map, Ev::Clr)
        );
        if !ok {
            return;
        }
        if let Ev::Rem(k) = &ev {
            let present = matches!(&self.state, State::Map(m) if m.contains_key(k));
            if !present {
                return;
            }
        }
        self.change(&ev);
    }

    /// The lane closes the link (or, before it is linked, will refuse it).
    pub fn unlink(&mut self) {
        if self.closed.is_some() || self.unlinked {
            return;
        }
        if self.linked {
            self.linked = false;
            self.unlinked = true;
            self.emit(EmKind::Unlinked);
        } else {
            self.refuse = true;
        }
    }

    /// The connection goes away: both halves dropped, unwritten output lost.
    pub fn close(&mut self) {
        if self.closed.is_none() {
            self.closed = Some(self.clock.tick());
            self.input.close();
            self.output.close();
        }
    }

    /// Only the outgoing half of the connection fails: the remote stops reading, events still flow.
    pub fn close_reader(&mut self) {
        if self.closed.is_none() && self.closed_reader.is_none() {
            self.closed_reader = Some(self.clock.tick());
            self.input.close();
        }
    }

    /// Only the incoming half fails: the runtime sees the end of its input.
    pub fn close_writer(&mut self) {
        if self.closed.is_none() && self.closed_writer.is_none() {
            self.closed_writer = Some(self.clock.tick());
            self.output.close();
        }
    }

    /// The runtime closed its output in the middle of a frame.
    pub fn truncated_input(&self) -> Option<usize> {
        if self.input.eof && !self.input.inbox.is_empty() {
            Some(self.input.inbox.len())
        } else {
            None
        }
    }

    pub fn outbox_len(&self) -> usize {
        self.output.outbox.len()
    }

    /// the runtime dropped its output (EOF on the remote's input)
    pub fn input_eof(&self) -> bool {
        self.input.eof
    }
}

// ---------------------------------------------------------------------------------------------
// consumers

#[derive(Clone, Debug, PartialEq, Eq)]
pub enum Note {
    Linked,
    Synced,
    Event(Ev),
    Unlinked,
}

#[derive(Clone, Debug)]
pub struct Sent {
    pub queued: u64,
    /// when the last byte of the operation entered the channel to the runtime
    pub written: Option<u64>,
    pub w: W,
}

pub struct Consumer {
    kind: Kind,
    pub sync: bool,
    pub keep: bool,
    input: Source,
    output: Pipe,
    clock: Clock,
    pub attach_seq: u64,
    pub frames: Vec<(u64, Note)>,
    pub sent: Vec<Sent>,
    pub dropped: Option<u64>,
    /// only the notification reader was dropped (the consumer goes on writing commands)
    pub reader_dropped: Option<u64>,
    /// only the command writer was dropped (the consumer goes on listening)
    pub writer_dropped: Option<u64>,
    /// latest read attempt that found nothing while no byte had ever arrived: up to that instant the
    /// runtime had written nothing at all to this consumer
    pub last_empty_read: Option<u64>,
    pub eof: Option<u64>,
    pub decode_error: Option<String>,
}

impl Consumer {
    /// The consumer closes its command channel but keeps listening (an event-only subscriber).
    pub fn drop_writer(&mut self) {
        if self.dropped.is_none() && self.writer_dropped.is_none() {
            self.writer_dropped = Some(self.clock.tick());
            self.output.close();
        }
    }

    /// The consumer stops listening but keeps its command channel.
    pub fn drop_reader(&mut self) {
        if self.dropped.is_none() && self.reader_dropped.is_none() {
            self.reader_dropped = Some(self.clock.tick());
            self.input.close();
        }
    }

    pub fn write(&mut self, w: &W) {
        if self.dropped.is_some() || !self.output.is_open() {
            return;
        }
        let mut buf = BytesMut::new();
        w.encode_operation(&mut buf);
        let idx = self.sent.len();
        self.output.queue(&buf, idx);
        self.sent.push(Sent {
            queued: self.clock.tick(),
            written: None,
            w: w.clone(),
        });
    }

    pub fn pump(&mut self, n: usize) -> usize {
        let clock = self.clock.clone();
        let sent = &mut self.sent;
        self.output.pump(n, |idx| sent[idx].written = Some(clock.tick()))
    }

    pub fn read(&mut self, n: usize) -> usize {
        if self.dropped.is_some() || self.reader_dropped.is_some() {
            return 0;
        }
        let got = self.input.read(n);
        if got == 0 && !self.input.eof && self.frames.is_empty() && self.input.inbox.is_empty() {
            self.last_empty_read = Some(self.clock.tick());
        }
        self.decode();
        if self.input.eof && self.eof.is_none() {
            self.eof = Some(self.clock.tick());
        }
        got
    }

    fn decode(&mut self) {
        if self.decode_error.is_some() {
            return;
        }
        loop {
            let src = &mut self.input.inbox;
            if src.is_empty() {
                break;
            }
            let note = match src[0] {
                1 => {
                    src.advance(1);
                    Note::Linked
                }
                2 => {
                    src.advance(1);
                    Note::Synced
                }
                4 => {
                    src.advance(1);
                    Note::Unlinked
                }
                3 => {
                    if src.len() < 9 {
                        break;
                    }
                    let len = (&src[1..9]).get_u64() as usize;
                    if src.len() < 9 + len {
                        break;
                    }
                    src.advance(9);
                    let body = src.split_to(len);
                    Note::Event(decode_event(self.kind, body))
                }
                t => {
                    self.decode_error = Some(format!("bad notification tag {}", t));
                    break;
                }
            };
            let seq = self.clock.tick();
            self.frames.push((seq, note));
        }
    }

    /// The consumer goes away (both halves dropped).
    pub fn drop_now(&mut self) {
        if self.dropped.is_none() {
            self.dropped = Some(self.clock.tick());
            self.input.close();
            self.output.close();
        }
    }

    pub fn outbox_len(&self) -> usize {
        self.output.outbox.len()
    }
}

fn decode_event(kind: Kind, mut body: BytesMut) -> Ev {
    match kind {
        Kind::Value => Ev::Val(body.to_vec()),
        Kind::Map => {
            let raw = body.to_vec();
            match RawMapMessageDecoder::default().decode(&mut body) {
                Ok(Some(MapMessage::Update { key, value })) if body.is_empty() => {
                    match (key_of_spelling(&key), std::str::from_utf8(&value)) {
                        (Some(k), Ok(v)) => Ev::Upd(k, v.trim().as_bytes().to_vec()),
                        _ => Ev::Bad(raw),
                    }
                }
                Ok(Some(MapMessage::Remove { key })) if body.is_empty() => match key_of_spelling(&key) {
                    Some(k) => Ev::Rem(k),
                    None => Ev::Bad(raw),
                },
                Ok(Some(MapMessage::Clear)) if body.is_empty() => Ev::Clr,
                _ => Ev::Bad(raw),
            }
        }
    }
}

// ---------------------------------------------------------------------------------------------
// the system under test

#[derive(Clone, Debug, Serialize, Deserialize)]
pub struct Params {
    pub kind: Kind,
    /// seeds tokio's `select!` branch order
    pub seed: u64,
    /// swimos coop budget the runtime future runs under
    pub budget: usize,
    pub attachment_queue: usize,
    /// capacity of the runtime -> remote byte channel
    pub to_remote_cap: usize,
    /// capacity of the remote -> runtime byte channel
    pub from_remote_cap: usize,
    pub empty_timeout_ms: u64,
    /// initial content of the lane: value id (None = "0") / map entries (key, id)
    pub init: Vec<(u8, u32)>,
}

pub struct Rt {
    sys: Option<LocalBoxFuture<'static, ()>>,
    flag: Arc<Flag>,
    waker: Waker,
    att_tx: Option<mpsc::Sender<AttachAction>>,
    pending_att: VecDeque<AttachAction>,
    stop_tx: Option<trigger::Sender>,
    pub clock: Clock,
    pub kind: Kind,
    pub remote: RemoteLane,
    pub consumers: Vec<Consumer>,
    /// when a poll of the runtime future returned Ready
    pub done: Option<u64>,
    /// when the harness fired the stop trigger
    pub stopped: Option<u64>,
    /// instants at which the runtime was polled until it was not woken any more
    pub idle_at: Vec<u64>,
    pub polls: u64,
    pub advanced_ms: u64,
    /// instants at which `settle` reached its fixpoint with the runtime still running
    pub settled_alive_at: Vec<u64>,
}

pub const NODE: &str = "/node";
pub const LANE: &str = "lane";

impl Rt {
    pub fn start(p: &Params) -> Rt {
        let clock = Clock::new();
        let identity = Uuid::from_u128(0xD0);
        let (att_tx, att_rx) = mpsc::channel(p.attachment_queue.max(1));
        let (stop_tx, stop_rx) = trigger::trigger();
        // runtime -> remote
        let (out_tx, out_rx) = byte_channel(nz(p.to_remote_cap));
        // remote -> runtime
        let (in_tx, in_rx) = byte_channel(nz(p.from_remote_cap));
        let config = DownlinkRuntimeConfig {
            empty_timeout: Duration::from_millis(p.empty_timeout_ms),
            attachment_queue_size: nz(p.attachment_queue),
            abort_on_bad_frames: true,
            remote_buffer_size: nz(p.to_remote_cap),
            downlink_buffer_size: nz(4096),
        };
        let address = IdentifiedAddress {
            identity,
            address: RelativeAddress::text(NODE, LANE),
        };
        let budget = nz(p.budget.max(2));
        let sys: LocalBoxFuture<'static, ()> = match p.kind {
            Kind::Value => ValueDownlinkRuntime::new(att_rx, (out_tx, in_rx), stop_rx, address, config)
                .run()
                .with_budget(budget)
                .boxed_local(),
            Kind::Map => MapDownlinkRuntime::new(
                att_rx,
                (out_tx, in_rx),
                stop_rx,
                address,
                config,
                ReportStrategy::new(AlwaysAbortStrategy).boxed(),
            )
            .run()
            .with_budget(budget)
            .boxed_local(),
        };
        let state = match p.kind {
            Kind::Value => State::Val(Some(
                p.init
                    .first()
                    .map(|(_, id)| id.to_string())
                    .unwrap_or_else(|| "0".to_string())
                    .into_bytes(),
            )),
            Kind::Map => State::Map(
                p.init
                    .iter()
                    .map(|(k, id)| (*k % NKEYS, id.to_string().into_bytes()))
                    .collect(),
            ),
        };
        let flag = Arc::new(Flag(AtomicBool::new(true)));
        let waker = Waker::from(flag.clone());
        let remote = RemoteLane {
            kind: p.kind,
            input: Source::new(out_rx),
            output: Pipe::new(in_tx),
            clock: clock.clone(),
            state,
            linked: false,
            unlinked: false,
            refuse: false,
            emitted: vec![],
            received: vec![],
            closed: None,
            closed_reader: None,
            closed_writer: None,
            decode_error: None,
            identity,
            node: NODE.to_string(),
            lane: LANE.to_string(),
        };
        Rt {
            sys: Some(sys),
            flag,
            waker,
            att_tx: Some(att_tx),
            pending_att: VecDeque::new(),
            stop_tx: Some(stop_tx),
            clock,
            kind: p.kind,
            remote,
            consumers: vec![],
            done: None,
            stopped: None,
            idle_at: vec![],
            polls: 0,
            advanced_ms: 0,
            settled_alive_at: vec![],
        }
    }

    pub fn is_done(&self) -> bool {
        self.sys.is_none()
    }

    fn is_woken(&self) -> bool {
        self.flag.0.load(Ordering::SeqCst)
    }

    fn flush_attachments(&mut self) {
        while let Some(req) = self.pending_att.pop_front() {
            let Some(tx) = self.att_tx.as_ref() else {
                self.pending_att.clear();
                return;
            };
            match tx.try_send(req) {
                Ok(()) => {
                    self.flag.0.store(true, Ordering::SeqCst);
                }
                Err(mpsc::error::TrySendError::Full(req)) => {
                    self.pending_att.push_front(req);
                    break;
                }
                Err(mpsc::error::TrySendError::Closed(_)) => {
                    self.att_tx = None;
                    self.pending_att.clear();
                    break;
                }
            }
        }
    }

    /// Poll the runtime at most `max` times, stopping as soon as it is not woken.
    pub fn poll(&mut self, max: usize) -> usize {
        let mut n = 0;
        while n < max {
            self.flush_attachments();
            let Some(sys) = self.sys.as_mut() else { break };
            if !self.flag.0.swap(false, Ordering::SeqCst) {
                self.idle_at.push(self.clock.tick());
                break;
            }
            let mut cx = Context::from_waker(&self.waker);
            n += 1;
            self.polls += 1;
            if let Poll::Ready(()) = sys.as_mut().poll(&mut cx) {
                self.sys = None;
                self.done = Some(self.clock.tick());
                // everything the runtime owned is dropped now
                self.att_tx = None;
                self.pending_att.clear();
                break;
            }
        }
        n
    }

    pub fn attach(&mut self, sync: bool, keep: bool, in_cap: usize, out_cap: usize) {
        // notifications: runtime -> consumer
        let (n_tx, n_rx) = byte_channel(nz(in_cap));
        // operations: consumer -> runtime
        let (o_tx, o_rx) = byte_channel(nz(out_cap));
        let mut options = DownlinkOptions::empty();
        if sync {
            options |= DownlinkOptions::SYNC;
        }
        if keep {
            options |= DownlinkOptions::KEEP_LINKED;
        }
        let attach_seq = self.clock.tick();
        if self.att_tx.is_some() {
            self.pending_att
                .push_back(AttachAction::new((n_tx, o_rx), options));
            self.flush_attachments();
        }
        // when the runtime has gone the request is dropped: the consumer sees its channels close
        self.consumers.push(Consumer {
            kind: self.kind,
            sync,
            keep,
            input: Source::new(n_rx),
            output: Pipe::new(o_tx),
            clock: self.clock.clone(),
            attach_seq,
            frames: vec![],
            sent: vec![],
            dropped: None,
            reader_dropped: None,
            writer_dropped: None,
            last_empty_read: None,
            eof: None,
            decode_error: None,
        });
    }

    pub fn stop(&mut self) {
        if let Some(tx) = self.stop_tx.take() {
            self.stopped = Some(self.clock.tick());
            tx.trigger();
        }
    }

    pub async fn advance(&mut self, ms: u64) {
        self.advanced_ms += ms;
        tokio::time::advance(Duration::from_millis(ms)).await;
    }

    /// Everything is delivered and read until nothing moves any more.
    pub fn settle(&mut self) -> usize {
        let mut rounds = 0;
        loop {
            rounds += 1;
            let mut progress = 0usize;
            for c in self.consumers.iter_mut() {
                progress += c.pump(usize::MAX);
            }
            progress += self.remote.pump(usize::MAX);
            progress += self.poll(10_000);
            progress += self.remote.read(usize::MAX);
            progress += self.remote.pump(usize::MAX);
            for c in self.consumers.iter_mut() {
                progress += c.read(usize::MAX);
            }
            if progress == 0 && !(self.sys.is_some() && self.is_woken()) {
                if self.sys.is_some() {
                    self.settled_alive_at.push(self.clock.tick());
                }
                break;
            }
            if rounds > 100_000 {
                panic!("settle did not reach a fixpoint in 100000 rounds (livelock)");
            }
        }
        rounds
    }
}
