//! `rocks-threads`: several agents of one plane register new names concurrently (real threads, as
//! agents of one plane do on the multi-threaded runtime: all node stores share one key store), the
//! database is closed and reopened, and more new names are registered. The oracle does not depend on the
//! schedule: ids are injective over all (uri, name) ever registered, stable across reopen, and every
//! item reads back its own value.
use crate::c13::{open_rocks, poll_once, Scratch};
use bytes::BytesMut;
use proptest::prelude::*;
use serde::{Deserialize, Serialize};
use std::collections::BTreeMap;
use std::sync::Barrier;
use std::task::Poll;
use swimos_api::persistence::{NodePersistence, PlanePersistence};
use vcommon::Verdict;

#[derive(Clone, Debug, Serialize, Deserialize)]
pub struct ThreadCase {
    /// 1-4 agent uris; thread t works on agent t % uris.
    pub uris: Vec<String>,
    pub threads: u8,
    /// New names registered by each thread in each round.
    pub names: u8,
    /// Rounds of (open, concurrent registration from a barrier, check, close).
    pub rounds: u8,
    /// Stem of the generated names (adversarial pool); the rest makes them distinct.
    pub stem: String,
}

pub fn arb_thread_case() -> impl Strategy<Value = ThreadCase> {
    (
        proptest::collection::vec(proptest::sample::select(crate::model::uri_pool()), 1..=4),
        prop_oneof![2 => 2u8..=8, 3 => 8u8..=16],
        1u8..=3,
        2u8..=8,
        proptest::sample::select(crate::model::name_pool()),
    )
        .prop_map(|(mut uris, threads, names, rounds, stem)| {
            uris.dedup();
            let mut seen = vec![];
            uris.retain(|u| {
                if seen.contains(u) {
                    false
                } else {
                    seen.push(u.clone());
                    true
                }
            });
            let stem = if stem.len() > 20 { "n".to_string() } else { stem };
            ThreadCase { uris, threads, names, rounds, stem }
        })
}

struct Reg {
    agent: usize,
    name: String,
    id: String,
    value: Vec<u8>,
}

pub fn check_threads(case: &ThreadCase) -> Verdict {
    let fp = vcommon::fnv1a(format!("threads {:?}", case).as_bytes());
    crate::kill::sticky(fp, run_threads(case), "the thread schedule")
}

fn run_threads(case: &ThreadCase) -> Verdict {
    let mut v = Verdict::new();
    let scratch = Scratch::new();
    let dir = scratch.0.clone();
    let mut uris: Vec<String> = vec![];
    for u in &case.uris {
        if !uris.contains(u) {
            uris.push(u.clone());
        }
    }
    if uris.is_empty() {
        uris.push("/a".to_string());
    }
    let threads = case.threads.max(1) as usize;
    let mut regs: Vec<Reg> = vec![];
    // one extra round at the end registers from a single thread after the last reopen
    for round in 0..=case.rounds as usize {
        let plane = match open_rocks(&dir) {
            Ok(p) => p,
            Err(e) => {
                v.fail("rocks-threads:error:open", format!("round {}: open failed: {:?}", round, e));
                return v;
            }
        };
        // 1. everything registered in earlier rounds: same id, own value
        let mut nodes = vec![];
        for u in &uris {
            let mut fut = plane.node_store(u);
            match poll_once(&mut fut) {
                Poll::Ready(Ok(n)) => nodes.push(n),
                other => {
                    v.fail(
                        "rocks-threads:error:node_store",
                        format!("round {}: node_store({:?}) -> ready={} ", round, u, matches!(other, Poll::Ready(_))),
                    );
                    return v;
                }
            }
        }
        for r in &regs {
            match nodes[r.agent].id_for(&r.name) {
                Ok(id) => {
                    let id = format!("{:?}", id);
                    if id != r.id {
                        v.fail(
                            "id-unstable:rocks-threads/reopen",
                            format!("round {}: id of {:?} of agent {:?} changed from {} to {} across reopen", round, r.name, uris[r.agent], r.id, id),
                        );
                    }
                }
                Err(e) => {
                    v.fail("rocks-threads:error:id_for", format!("{:?}", e));
                    return v;
                }
            }
        }
        check_values(&mut v, &regs, &uris, &plane, "after reopen", round);
        drop(nodes);
        if !v.failures.is_empty() {
            return v;
        }
        // 2. concurrent registration of new names
        let workers = if round == case.rounds as usize { 1 } else { threads };
        let barrier = Barrier::new(workers);
        let results: Vec<Result<Vec<Reg>, String>> = std::thread::scope(|scope| {
            let handles: Vec<_> = (0..workers)
                .map(|t| {
                    let plane = plane.clone();
                    let uris = &uris;
                    let barrier = &barrier;
                    let stem = &case.stem;
                    let names = case.names.max(1) as usize;
                    scope.spawn(move || -> Result<Vec<Reg>, String> {
                        let agent = t % uris.len();
                        let mut fut = plane.node_store(&uris[agent]);
                        let node = match poll_once(&mut fut) {
                            Poll::Ready(Ok(n)) => Some(n),
                            _ => None,
                        };
                        barrier.wait();
                        let mut node = node.ok_or_else(|| "node_store did not resolve".to_string())?;
                        let mut out = vec![];
                        for k in 0..names {
                            let name = format!("{}#{}.{}.{}", stem, round, t, k);
                            let id = node.id_for(&name).map_err(|e| format!("id_for: {:?}", e))?;
                            let value = format!("{}|{}", uris[agent], name).into_bytes();
                            node.put_value(id, &value).map_err(|e| format!("put_value: {:?}", e))?;
                            out.push(Reg { agent, name, id: format!("{:?}", id), value });
                        }
                        Ok(out)
                    })
                })
                .collect();
            handles.into_iter().map(|h| h.join().unwrap_or_else(|_| Err("thread panicked".to_string()))).collect()
        });
        for r in results {
            match r {
                Ok(rs) => regs.extend(rs),
                Err(e) => {
                    v.fail("rocks-threads:error:register", format!("round {}: {}", round, e));
                    return v;
                }
            }
        }
        // 3. ids injective over everything registered so far
        let mut by_id: BTreeMap<&str, &Reg> = BTreeMap::new();
        for r in &regs {
            if let Some(prev) = by_id.insert(r.id.as_str(), r) {
                v.fail(
                    "id-collision:rocks-threads",
                    format!(
                        "round {}: {:?} of agent {:?} and {:?} of agent {:?} were both assigned id {}",
                        round, prev.name, uris[prev.agent], r.name, uris[r.agent], r.id
                    ),
                );
                break;
            }
        }
        check_values(&mut v, &regs, &uris, &plane, "after concurrent registration", round);
        drop(plane);
        if !v.failures.is_empty() {
            return v;
        }
    }
    v.class(if threads >= 8 { "threads>=8" } else { "threads<8" });
    v.class_if(uris.len() >= 2, "agents>=2");
    v.class_if(uris.len() == 1, "all-threads-one-agent");
    v.class_if(regs.len() >= 100, "names>=100");
    if threads >= 2 && case.rounds >= 1 {
        v.nontrivial();
    }
    v
}

fn check_values<P: PlanePersistence>(v: &mut Verdict, regs: &[Reg], uris: &[String], plane: &P, phase: &str, round: usize) {
    let mut nodes = vec![];
    for u in uris {
        let mut fut = plane.node_store(u);
        match poll_once(&mut fut) {
            Poll::Ready(Ok(n)) => nodes.push(n),
            _ => {
                v.fail("rocks-threads:error:node_store", format!("round {}: node_store({:?}) failed", round, u));
                return;
            }
        }
    }
    for r in regs {
        let node = &nodes[r.agent];
        let res = node.id_for(&r.name).and_then(|id| {
            let mut buf = BytesMut::new();
            node.get_value(id, &mut buf).map(|n| n.map(|_| buf.to_vec()))
        });
        match res {
            Ok(got) => {
                if got.as_deref() != Some(r.value.as_slice()) {
                    v.fail(
                        "rocks-threads:get_value",
                        format!(
                            "round {} {}: value item {:?} of agent {:?} holds {:?} but {:?} was written to it",
                            round,
                            phase,
                            r.name,
                            uris[r.agent],
                            got.map(|g| String::from_utf8_lossy(&g).to_string()),
                            String::from_utf8_lossy(&r.value)
                        ),
                    );
                    return;
                }
            }
            Err(e) => {
                v.fail("rocks-threads:error:get_value", format!("{:?}", e));
                return;
            }
        }
    }
}
