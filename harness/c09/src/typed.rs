//! Typed battery for C09: built-in serialisable types and a set of derived `Form` types that between
//! them use every derive attribute (tag, name, attr, header, header_body, body, skip, newtype, generic,
//! enums with unit / tuple / struct variants, nesting).
use num_bigint::{BigInt, BigUint};
use proptest::prelude::*;
use serde::{Deserialize, Serialize};
use std::collections::HashMap;
use std::fmt::Debug;
use std::str::FromStr;
use std::sync::Arc;
use std::time::Duration;
use swimos_form::read::RecognizerReadable;
use swimos_form::write::StructuralWritable;
use swimos_form::Form;
use swimos_model::{Blob, Text};
use vgen::*;

#[derive(Form, Debug, Clone, PartialEq)]
pub struct Plain {
    pub a: i32,
    pub b: String,
    pub c: Option<i64>,
    pub d: Vec<u32>,
}

#[derive(Form, Debug, Clone, PartialEq)]
#[form(tag = "renamed")]
pub struct Tagged {
    #[form(name = "first")]
    pub a: f64,
    #[form(name = "second field")]
    pub b: bool,
    pub big: BigInt,
}

#[derive(Form, Debug, Clone, PartialEq)]
pub struct UnitS;

#[derive(Form, Debug, Clone, PartialEq)]
pub struct TupleS(pub i32, pub String);

#[derive(Form, Debug, Clone, PartialEq)]
#[form(newtype)]
pub struct NewT(pub String);

#[derive(Form, Debug, Clone, PartialEq)]
pub struct WithAttr {
    #[form(attr)]
    pub at: String,
    #[form(attr)]
    pub at2: Option<i32>,
    pub x: i32,
}

#[derive(Form, Debug, Clone, PartialEq)]
pub struct WithHeader {
    #[form(header)]
    pub h: i32,
    #[form(header)]
    pub h2: String,
    pub x: bool,
}

#[derive(Form, Debug, Clone, PartialEq)]
pub struct WithHeaderBody {
    #[form(header_body)]
    pub hb: String,
    #[form(header)]
    pub h: u32,
    pub x: i64,
}

#[derive(Form, Debug, Clone, PartialEq)]
pub struct WithBody {
    #[form(header)]
    pub h: u64,
    #[form(body)]
    pub body: Vec<String>,
}

#[derive(Form, Debug, Clone, PartialEq)]
pub struct WithBodyScalar {
    #[form(header_body)]
    pub hb: i32,
    #[form(body)]
    pub body: String,
}

#[derive(Form, Debug, Clone, PartialEq)]
pub struct WithBodyI64 {
    #[form(header_body)]
    pub hb: String,
    #[form(body)]
    pub body: i64,
}

#[derive(Form, Debug, Clone, PartialEq)]
#[form(tag = "num")]
pub struct WithBodyNum<T> {
    #[form(attr)]
    pub unit: Option<String>,
    #[form(body)]
    pub body: T,
}

#[derive(Form, Debug, Clone, PartialEq)]
pub struct Skipped {
    pub a: i32,
    #[form(skip)]
    pub s: i32,
    pub t: Text,
}

#[derive(Form, Debug, Clone, PartialEq)]
pub struct Generic<T> {
    pub inner: T,
    #[form(attr)]
    pub tag: T,
}

#[derive(Form, Debug, Clone, PartialEq)]
pub enum Shape {
    Dot,
    #[form(tag = "c")]
    Circle {
        r: f64,
    },
    Pair(i32, #[form(header_body)] String),
    Labelled {
        #[form(header)]
        label: String,
        #[form(body)]
        inner: Plain,
    },
}

#[derive(Form, Debug, Clone, PartialEq)]
pub struct Outer {
    pub inner: Plain,
    pub shapes: Vec<Shape>,
    pub map: HashMap<String, i32>,
    pub blob: Blob,
    #[form(attr)]
    pub unit: UnitS,
}

/// Serialisable description of one typed instance.
#[derive(Clone, Debug, Serialize, Deserialize)]
pub enum Typed {
    Unit,
    I32(i32),
    I64(i64),
    U32(u32),
    U64(u64),
    Usize(u32),
    /// f64 bits (always finite)
    F64(u64),
    Bool(bool),
    Str(String),
    Text(String),
    ArcStr(String),
    BigInt(String),
    BigUint(String),
    Bytes(Vec<u8>),
    Blob(Vec<u8>),
    BoxBytes(Vec<u8>),
    OptI32(Option<i32>),
    OptStr(Option<String>),
    VecI32(Vec<i32>),
    VecStr(Vec<String>),
    VecVec(Vec<Vec<i64>>),
    VecF64(Vec<u64>),
    MapStrI32(Vec<(String, i32)>),
    MapI32Str(Vec<(i32, String)>),
    Duration(u64, u32),
    Plain(i32, String, Option<i64>, Vec<u32>),
    Tagged(u64, bool, String),
    UnitS,
    TupleS(i32, String),
    NewT(String),
    WithAttr(String, Option<i32>, i32),
    WithHeader(i32, String, bool),
    WithHeaderBody(String, u32, i64),
    WithBody(u64, Vec<String>),
    WithBodyScalar(i32, String),
    WithBodyI64(String, i64),
    /// kind selector, optional attribute, numeric payload (i32 / u32 / u64 / f64 bits / bool / bigint / blob)
    WithBodyNum(u8, Option<String>, u64),
    Skipped(i32, String),
    GenericI32(i32, i32),
    GenericStr(String, String),
    ShapeDot,
    ShapeCircle(u64),
    ShapePair(i32, String),
    ShapeLabelled(String, i32, String, Option<i64>, Vec<u32>),
    Outer(i32, String, Vec<(u8, String, u64)>, Vec<(String, i32)>, Vec<u8>),
}

fn fin(bits: u64) -> f64 {
    let x = f64::from_bits(bits);
    if x.is_finite() {
        x
    } else {
        0.25
    }
}

fn shape_of(k: u8, s: &str, bits: u64) -> Shape {
    match k % 4 {
        0 => Shape::Dot,
        1 => Shape::Circle { r: fin(bits) },
        2 => Shape::Pair(bits as i32, s.to_string()),
        _ => Shape::Labelled {
            label: s.to_string(),
            inner: Plain {
                a: (bits >> 7) as i32,
                b: s.to_string(),
                c: if bits & 1 == 0 { None } else { Some(bits as i64) },
                d: vec![bits as u32],
            },
        },
    }
}

/// The visitor receives the concrete typed value.
pub trait Visit {
    fn visit<T>(&mut self, name: &'static str, value: &T)
    where
        T: StructuralWritable + RecognizerReadable + PartialEq + Debug;
}

impl Typed {
    pub fn dispatch<Vis: Visit>(&self, vis: &mut Vis) {
        match self {
            Typed::Unit => vis.visit("unit", &()),
            Typed::I32(n) => vis.visit("i32", n),
            Typed::I64(n) => vis.visit("i64", n),
            Typed::U32(n) => vis.visit("u32", n),
            Typed::U64(n) => vis.visit("u64", n),
            Typed::Usize(n) => vis.visit("usize", &(*n as usize)),
            Typed::F64(b) => vis.visit("f64", &fin(*b)),
            Typed::Bool(p) => vis.visit("bool", p),
            Typed::Str(s) => vis.visit("String", s),
            Typed::Text(s) => vis.visit("Text", &Text::new(s)),
            Typed::ArcStr(s) => vis.visit("Arc<String>", &Arc::new(s.clone())),
            Typed::BigInt(s) => vis.visit("BigInt", &BigInt::from_str(s).unwrap()),
            Typed::BigUint(s) => vis.visit("BigUint", &BigUint::from_str(s).unwrap()),
            Typed::Bytes(b) => vis.visit("Vec<u8>", b),
            Typed::Blob(b) => vis.visit("Blob", &Blob::from_vec(b.clone())),
            Typed::BoxBytes(b) => vis.visit("Box<[u8]>", &b.clone().into_boxed_slice()),
            Typed::OptI32(o) => vis.visit("Option<i32>", o),
            Typed::OptStr(o) => vis.visit("Option<String>", o),
            Typed::VecI32(v) => vis.visit("Vec<i32>", v),
            Typed::VecStr(v) => vis.visit("Vec<String>", v),
            Typed::VecVec(v) => vis.visit("Vec<Vec<i64>>", v),
            Typed::VecF64(v) => vis.visit("Vec<f64>", &v.iter().map(|b| fin(*b)).collect::<Vec<f64>>()),
            Typed::MapStrI32(m) => vis.visit(
                "HashMap<String,i32>",
                &m.iter().cloned().collect::<HashMap<String, i32>>(),
            ),
            Typed::MapI32Str(m) => vis.visit(
                "HashMap<i32,String>",
                &m.iter().cloned().collect::<HashMap<i32, String>>(),
            ),
            Typed::Duration(s, n) => vis.visit("Duration", &Duration::new(*s % (1 << 40), *n % 1_000_000_000)),
            Typed::Plain(a, b, c, d) => vis.visit(
                "Plain",
                &Plain {
                    a: *a,
                    b: b.clone(),
                    c: *c,
                    d: d.clone(),
                },
            ),
            Typed::Tagged(a, b, big) => vis.visit(
                "Tagged",
                &Tagged {
                    a: fin(*a),
                    b: *b,
                    big: BigInt::from_str(big).unwrap(),
                },
            ),
            Typed::UnitS => vis.visit("UnitS", &UnitS),
            Typed::TupleS(a, b) => vis.visit("TupleS", &TupleS(*a, b.clone())),
            Typed::NewT(s) => vis.visit("NewT", &NewT(s.clone())),
            Typed::WithAttr(at, at2, x) => vis.visit(
                "WithAttr",
                &WithAttr {
                    at: at.clone(),
                    at2: *at2,
                    x: *x,
                },
            ),
            Typed::WithHeader(h, h2, x) => vis.visit(
                "WithHeader",
                &WithHeader {
                    h: *h,
                    h2: h2.clone(),
                    x: *x,
                },
            ),
            Typed::WithHeaderBody(hb, h, x) => vis.visit(
                "WithHeaderBody",
                &WithHeaderBody {
                    hb: hb.clone(),
                    h: *h,
                    x: *x,
                },
            ),
            Typed::WithBody(h, body) => vis.visit(
                "WithBody",
                &WithBody {
                    h: *h,
                    body: body.clone(),
                },
            ),
            Typed::WithBodyScalar(hb, body) => vis.visit(
                "WithBodyScalar",
                &WithBodyScalar {
                    hb: *hb,
                    body: body.clone(),
                },
            ),
            Typed::WithBodyI64(hb, body) => vis.visit(
                "WithBodyI64",
                &WithBodyI64 {
                    hb: hb.clone(),
                    body: *body,
                },
            ),
            Typed::WithBodyNum(k, unit, n) => {
                let unit = unit.clone();
                match k % 8 {
                    0 => vis.visit("WithBodyNum<i32>", &WithBodyNum { unit, body: *n as i32 }),
                    1 => vis.visit("WithBodyNum<u32>", &WithBodyNum { unit, body: *n as u32 }),
                    2 => vis.visit("WithBodyNum<u64>", &WithBodyNum { unit, body: *n }),
                    3 => vis.visit("WithBodyNum<f64>", &WithBodyNum { unit, body: fin(*n) }),
                    4 => vis.visit("WithBodyNum<bool>", &WithBodyNum { unit, body: *n & 1 == 1 }),
                    5 => vis.visit(
                        "WithBodyNum<BigInt>",
                        &WithBodyNum {
                            unit,
                            body: -(BigInt::from(*n) << 40usize),
                        },
                    ),
                    6 => vis.visit("WithBodyNum<i64>", &WithBodyNum { unit, body: *n as i64 }),
                    _ => vis.visit(
                        "WithBodyNum<Blob>",
                        &WithBodyNum {
                            unit,
                            body: Blob::from_vec(n.to_le_bytes()[..(*n % 9) as usize].to_vec()),
                        },
                    ),
                }
            }
            Typed::Skipped(a, t) => vis.visit(
                "Skipped",
                &Skipped {
                    a: *a,
                    s: 0,
                    t: Text::new(t),
                },
            ),
            Typed::GenericI32(a, b) => vis.visit("Generic<i32>", &Generic { inner: *a, tag: *b }),
            Typed::GenericStr(a, b) => vis.visit(
                "Generic<String>",
                &Generic {
                    inner: a.clone(),
                    tag: b.clone(),
                },
            ),
            Typed::ShapeDot => vis.visit("Shape::Dot", &Shape::Dot),
            Typed::ShapeCircle(r) => vis.visit("Shape::Circle", &Shape::Circle { r: fin(*r) }),
            Typed::ShapePair(a, b) => vis.visit("Shape::Pair", &Shape::Pair(*a, b.clone())),
            Typed::ShapeLabelled(l, a, b, c, d) => vis.visit(
                "Shape::Labelled",
                &Shape::Labelled {
                    label: l.clone(),
                    inner: Plain {
                        a: *a,
                        b: b.clone(),
                        c: *c,
                        d: d.clone(),
                    },
                },
            ),
            Typed::Outer(a, b, shapes, map, blob) => vis.visit(
                "Outer",
                &Outer {
                    inner: Plain {
                        a: *a,
                        b: b.clone(),
                        c: Some(*a as i64),
                        d: vec![],
                    },
                    shapes: shapes.iter().map(|(k, s, bits)| shape_of(*k, s, *bits)).collect(),
                    map: map.iter().cloned().collect(),
                    blob: Blob::from_vec(blob.clone()),
                    unit: UnitS,
                },
            ),
        }
    }
}

fn a_i32() -> BoxedStrategy<i32> {
    prop_oneof![any::<i32>(), -3i32..4, proptest::sample::select(vec![i32::MIN, i32::MAX])].boxed()
}
fn a_i64() -> BoxedStrategy<i64> {
    prop_oneof![
        any::<i64>(),
        -3i64..4,
        proptest::sample::select(vec![i64::MIN, i64::MAX, i32::MAX as i64 + 1, i32::MIN as i64 - 1, u32::MAX as i64 + 1])
    ]
    .boxed()
}
fn a_u32() -> BoxedStrategy<u32> {
    prop_oneof![any::<u32>(), 0u32..4, Just(u32::MAX), Just(i32::MAX as u32 + 1)].boxed()
}
fn a_u64() -> BoxedStrategy<u64> {
    prop_oneof![any::<u64>(), 0u64..4, Just(u64::MAX), Just(i64::MAX as u64 + 1), Just(u32::MAX as u64 + 1)].boxed()
}
fn a_f64() -> BoxedStrategy<u64> {
    arb_finite_f64().prop_map(|x| x.to_bits()).boxed()
}
fn a_big() -> BoxedStrategy<String> {
    prop_oneof![
        proptest::sample::select(boundary_bigs()).prop_map(|b| b.to_string()),
        (any::<i128>(), any::<u8>()).prop_map(|(n, sh)| (BigInt::from(n) << (sh % 70) as usize).to_string()),
        (-3i32..4).prop_map(|n| n.to_string()),
    ]
    .boxed()
}
fn a_bigu() -> BoxedStrategy<String> {
    a_big().prop_map(|s| s.trim_start_matches('-').to_string()).boxed()
}
fn a_bytes() -> BoxedStrategy<Vec<u8>> {
    prop_oneof![
        Just(vec![]),
        proptest::collection::vec(any::<u8>(), 0..5),
        proptest::collection::vec(any::<u8>(), 0..40),
    ]
    .boxed()
}
fn a_strs() -> BoxedStrategy<Vec<String>> {
    proptest::collection::vec(arb_text(), 0..4).boxed()
}

pub fn arb_typed() -> BoxedStrategy<Typed> {
    let t = arb_text;
    let scalars = prop_oneof![
        Just(Typed::Unit),
        a_i32().prop_map(Typed::I32),
        a_i64().prop_map(Typed::I64),
        a_u32().prop_map(Typed::U32),
        a_u64().prop_map(Typed::U64),
        a_u32().prop_map(Typed::Usize),
        a_f64().prop_map(Typed::F64),
        a_f64().prop_map(Typed::F64),
        any::<bool>().prop_map(Typed::Bool),
        t().prop_map(Typed::Str),
        t().prop_map(Typed::Str),
        t().prop_map(Typed::Text),
        t().prop_map(Typed::ArcStr),
        a_big().prop_map(Typed::BigInt),
        a_bigu().prop_map(Typed::BigUint),
        a_bytes().prop_map(Typed::Bytes),
        a_bytes().prop_map(Typed::Blob),
        a_bytes().prop_map(Typed::BoxBytes),
    ];
    let containers = prop_oneof![
        proptest::option::of(a_i32()).prop_map(Typed::OptI32),
        proptest::option::of(t()).prop_map(Typed::OptStr),
        proptest::collection::vec(a_i32(), 0..5).prop_map(Typed::VecI32),
        a_strs().prop_map(Typed::VecStr),
        proptest::collection::vec(proptest::collection::vec(a_i64(), 0..3), 0..4).prop_map(Typed::VecVec),
        proptest::collection::vec(a_f64(), 0..4).prop_map(Typed::VecF64),
        proptest::collection::vec((t(), a_i32()), 0..4).prop_map(Typed::MapStrI32),
        proptest::collection::vec((a_i32(), t()), 0..4).prop_map(Typed::MapI32Str),
        (any::<u64>(), any::<u32>()).prop_map(|(s, n)| Typed::Duration(s, n)),
    ];
    let derived1 = prop_oneof![
        (a_i32(), t(), proptest::option::of(a_i64()), proptest::collection::vec(a_u32(), 0..4))
            .prop_map(|(a, b, c, d)| Typed::Plain(a, b, c, d)),
        (a_f64(), any::<bool>(), a_big()).prop_map(|(a, b, c)| Typed::Tagged(a, b, c)),
        Just(Typed::UnitS),
        (a_i32(), t()).prop_map(|(a, b)| Typed::TupleS(a, b)),
        t().prop_map(Typed::NewT),
        (t(), proptest::option::of(a_i32()), a_i32()).prop_map(|(a, b, c)| Typed::WithAttr(a, b, c)),
        (a_i32(), t(), any::<bool>()).prop_map(|(a, b, c)| Typed::WithHeader(a, b, c)),
        (t(), a_u32(), a_i64()).prop_map(|(a, b, c)| Typed::WithHeaderBody(a, b, c)),
        (a_u64(), a_strs()).prop_map(|(a, b)| Typed::WithBody(a, b)),
        (a_i32(), t()).prop_map(|(a, b)| Typed::WithBodyScalar(a, b)),
        (t(), a_i64()).prop_map(|(a, b)| Typed::WithBodyI64(a, b)),
        (any::<u8>(), proptest::option::of(t()), prop_oneof![any::<u64>(), a_f64(), 0u64..4]).prop_map(|(k, u, n)| Typed::WithBodyNum(k, u, n)),
    ];
    let derived2 = prop_oneof![
        (a_i32(), t()).prop_map(|(a, b)| Typed::Skipped(a, b)),
        (a_i32(), a_i32()).prop_map(|(a, b)| Typed::GenericI32(a, b)),
        (t(), t()).prop_map(|(a, b)| Typed::GenericStr(a, b)),
        Just(Typed::ShapeDot),
        a_f64().prop_map(Typed::ShapeCircle),
        (a_i32(), t()).prop_map(|(a, b)| Typed::ShapePair(a, b)),
        (t(), a_i32(), t(), proptest::option::of(a_i64()), proptest::collection::vec(a_u32(), 0..3))
            .prop_map(|(l, a, b, c, d)| Typed::ShapeLabelled(l, a, b, c, d)),
        (
            a_i32(),
            t(),
            proptest::collection::vec((any::<u8>(), t(), any::<u64>()), 0..4),
            proptest::collection::vec((t(), a_i32()), 0..3),
            a_bytes()
        )
            .prop_map(|(a, b, s, m, bl)| Typed::Outer(a, b, s, m, bl)),
    ];
    prop_oneof![4 => scalars, 2 => containers, 3 => derived1, 3 => derived2].boxed()
}
