// The C10 codec families (= decoders exported by the repository), shared by the `codec_stream` target and the
// `gen_corpus` example (included with `include!`). Same table, same order as /verif/harness/c10/src/fams.rs.
// The position in this list is the family selector byte of a `codec_stream` input: append only.

/// Bytes of a `codec_stream` input before the stream: `[family][chunk size 0][chunk size 1][chunk size 2]`.
#[allow(dead_code)]
pub const HEADER_LEN: usize = 4;

#[allow(dead_code)]
pub const FAMILIES: [&str; 29] = [
    "len-bytes",            // 0  WithLengthBytesCodec                      raw
    "len-recon",            // 1  WithLenRecognizerDecoder<Value>
    "lane-req-value-raw",   // 2  RawValueLaneRequestDecoder                raw
    "lane-req-value",       // 3  ValueLaneRequestDecoder<Value>
    "lane-req-map-raw",     // 4  RawMapLaneRequestDecoder                  raw
    "lane-req-map",         // 5  MapLaneRequestDecoder<Value, Value>
    "lane-resp-value-raw",  // 6  RawValueLaneResponseDecoder               raw
    "lane-resp-value",      // 7  ValueLaneResponseDecoder<Value>
    "lane-resp-map-raw",    // 8  RawMapLaneResponseDecoder                 raw
    "lane-resp-map",        // 9  MapLaneResponseDecoder<Value, Value>
    "map-msg-raw",          // 10 RawMapMessageDecoder                      raw
    "map-msg",              // 11 MapMessageDecoder<Value, Value>
    "map-op-raw",           // 12 RawMapOperationDecoder                    raw
    "map-op",               // 13 MapOperationDecoder<Value, Value>
    "store-init-value-raw", // 14 RawValueStoreInitDecoder                  raw
    "store-init-value",     // 15 ValueStoreInitDecoder<Value>
    "store-init-map-raw",   // 16 RawMapStoreInitDecoder                    raw
    "store-init-map",       // 17 MapStoreInitDecoder<Value, Value>
    "store-initialized",    // 18 StoreInitializedCodec                     raw
    "store-resp-value-raw", // 19 RawValueStoreResponseDecoder              raw
    "store-resp-map-raw",   // 20 RawMapStoreResponseDecoder                raw
    "dl-notif-value",       // 21 ValueNotificationDecoder<Value>
    "dl-notif-map",         // 22 MapNotificationDecoder<Value, Value>
    "dl-op",                // 23 DownlinkOperationDecoder                  raw
    "command-raw",          // 24 RawCommandMessageDecoder<BytesStr>        raw
    "command",              // 25 CommandMessageDecoder<String, Value>
    "routed-req-raw",       // 26 RawRequestMessageDecoder                  raw
    "routed-req",           // 27 RequestMessageDecoder<Value, _>
    "routed-resp-raw",      // 28 RawResponseMessageDecoder                 raw
];

/// Read sizes from the three chunking bytes: byte `b` = `b + 1` bytes per read, 255 = everything that is left.
/// The three sizes are used cyclically: `[0,0,0]` one byte per read, `[k-1,255,_]` a single split after `k`
/// bytes, `[255,_,_]` the whole stream in one read.
#[allow(dead_code)]
pub fn read_sizes(c: &[u8]) -> [usize; 3] {
    let f = |b: u8| if b == 255 { usize::MAX } else { b as usize + 1 };
    [f(c[0]), f(c[1]), f(c[2])]
}
