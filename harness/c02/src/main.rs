//! C02 Map lanes: every subscriber's replica converges to the lane's map.
//!
//! Sub-checks
//! * `map-replica`: real `AgentModel` with map lanes m0 (HashMap<i32,i64>), m1 (BTreeMap<String,i64>), mt (transient)
//!   inside the real agent runtime; 1-5 harness remotes with byte channels down to 1 byte; mutations by command
//!   envelopes from several remotes (update / remove / clear / take / drop, keys spelled in several Recon forms) and
//!   by handlers (control lane programs, cascade m0 -> mt); the op list owns the schedule. Oracle: rules (1)-(3) of
//!   `maporacle::check_map_lane` for every (remote, lane) + the lane's final map read back by a probe remote.
//! * `single-writer-take-drop`: as above but one remote issues all mutations of a lane, so the order in which the
//!   lane executes them is known; a reference map ordered by the Recon order of the keys predicts the exact sequence
//!   of lifecycle events (take / drop remove exactly the designated entries, on both backings), and the replicas of all
//!   observers obey (1)-(3).
//! * `queue-small-scope` / `queue-random`: the runtime's per-remote coalescing queue (`MapBackpressure`, hooked) under
//!   every push/pop sequence to depth 6 (quick) / 7 (thorough) over a 9-op alphabet with textually different but
//!   Recon-equal keys, and longer random sequences over a wider key pool incl. invalid UTF-8.

use bytes::BytesMut;
use maporacle::*;
use proptest::prelude::*;
use serde::{Deserialize, Serialize};
use std::collections::BTreeMap;
use swimos_agent_protocol::MapOperation;
use swimos_model::Value;
use swimos_recon::parser::parse_recognize;
use swimos_runtime::verif_hooks::MapBackpressure;
use vcommon::{Ctx, Verdict};
use vsim::agent::{Act, AgentFlags, Ev};
use vsim::{arb_cap, arb_sched_op, FrameKind, Op, SimParams};

const LANES: [&str; 4] = ["m0", "m1", "mt", "ctl"];

#[derive(Clone, Debug, Serialize, Deserialize)]
struct Case {
    params: SimParams,
    flags: AgentFlags,
    programs: Vec<Vec<Act>>,
    ops: Vec<Op>,
}

fn arb_params() -> impl Strategy<Value = SimParams> {
    (
        any::<u64>(),
        prop_oneof![Just(1usize), Just(2), Just(4), Just(16)],
        arb_cap(),
        // a small lane output buffer backs up the lane's own event queue (first coalescing layer)
        prop_oneof![3 => 8usize..48, 1 => arb_cap()],
        // budget 1 is degenerate (RunWithBudget(1) can never complete a channel operation)
        prop_oneof![Just(2usize), Just(3), Just(8), Just(64)],
    )
        .prop_map(|(seed, attachment_queue, lane_in_buf, lane_out_buf, budget)| SimParams {
            seed,
            attachment_queue,
            lane_in_buf: lane_in_buf.max(8),
            lane_out_buf: lane_out_buf.max(8),
            budget,
            ..SimParams::default()
        })
}

/// Generated op before values are made unique and command bodies rendered.
#[derive(Clone, Debug)]
enum GOp {
    Plain(Op),
    Map { r: u16, lane: u8, cmd: MapCmd },
}

fn arb_map_cmd(nkeys: usize, heavy_take_drop: bool) -> impl Strategy<Value = MapCmd> {
    let td = if heavy_take_drop { 4 } else { 1 };
    prop_oneof![
        10 => (0..nkeys, any::<u16>()).prop_map(|(key, spelling)| MapCmd::Update { key, spelling, v: 0 }),
        4 => (0..nkeys, any::<u16>()).prop_map(|(key, spelling)| MapCmd::Remove { key, spelling }),
        1 => Just(MapCmd::Clear),
        td => prop_oneof![4 => 0u64..5, 1 => Just(100u64)].prop_map(MapCmd::Take),
        td => prop_oneof![4 => 0u64..5, 1 => Just(100u64)].prop_map(MapCmd::Drop),
    ]
}

fn arb_gop(nprogs: usize, nkeys: usize) -> impl Strategy<Value = GOp> {
    prop_oneof![
        2 => arb_attach().prop_map(GOp::Plain),
        4 => (any::<u16>(), 0u8..3).prop_map(|(r, lane)| GOp::Plain(Op::Link { r, lane })),
        3 => (any::<u16>(), 0u8..3).prop_map(|(r, lane)| GOp::Plain(Op::Sync { r, lane })),
        1 => (any::<u16>(), 0u8..3).prop_map(|(r, lane)| GOp::Plain(Op::Unlink { r, lane })),
        14 => (any::<u16>(), 0u8..3, arb_map_cmd(nkeys, false)).prop_map(|(r, lane, cmd)| GOp::Map { r, lane, cmd }),
        3 => (any::<u16>(), 0..nprogs.max(1)).prop_map(|(r, p)| GOp::Plain(Op::Cmd { r, lane: 3, body: p.to_string() })),
        14 => arb_sched_op().prop_map(GOp::Plain),
        1 => any::<u16>().prop_map(|r| GOp::Plain(Op::Drop { r })),
    ]
}

fn arb_act(nkeys: usize) -> impl Strategy<Value = Act> {
    prop_oneof![
        6 => (0u8..3, 0..nkeys).prop_map(|(map, k)| Act::Upd { map, k: act_key(map as usize, k), v: 0 }),
        3 => (0u8..3, 0..nkeys).prop_map(|(map, k)| Act::Rem { map, k: act_key(map as usize, k) }),
        1 => (0u8..3).prop_map(|map| Act::Clr { map }),
    ]
}

/// Make values globally unique and render command bodies.
fn finish(programs: &mut [Vec<Act>], gops: Vec<GOp>) -> Vec<Op> {
    let mut next = 1i64;
    for p in programs.iter_mut() {
        for a in p.iter_mut() {
            if let Act::Upd { v, .. } = a {
                *v = 1_000_000 + next;
                next += 1;
            }
        }
    }
    let mut all = vec![Op::Attach { in_cap: 64, out_cap: 16 }];
    for g in gops {
        match g {
            GOp::Plain(op) => all.push(op),
            GOp::Map { r, lane, mut cmd } => {
                if let MapCmd::Update { v, .. } = &mut cmd {
                    *v = next;
                    next += 1;
                }
                all.push(Op::Cmd { r, lane, body: render_cmd(lane as usize, &cmd) });
            }
        }
    }
    all
}

fn arb_case(max_ops: usize) -> impl Strategy<Value = Case> {
    (arb_params(), any::<bool>(), 1usize..=6)
        .prop_flat_map(move |(params, cascade, nkeys)| {
            let progs = proptest::collection::vec(proptest::collection::vec(arb_act(nkeys), 1..6), 0..4);
            (Just(params), Just(cascade), Just(nkeys), progs)
        })
        .prop_flat_map(move |(params, cascade, nkeys, programs)| {
            let n = programs.len();
            (
                Just(params),
                Just(cascade),
                Just(programs),
                proptest::collection::vec(arb_gop(n, nkeys), 1..max_ops),
            )
        })
        .prop_map(|(params, cascade, mut programs, gops)| {
            let ops = finish(&mut programs, gops);
            Case {
                params,
                flags: AgentFlags {
                    cascade_value: false,
                    cascade_map: cascade,
                    ..Default::default()
                },
                programs,
                ops,
            }
        })
}

struct Summary {
    coalesced: bool,
    clear_skipped: bool,
    quiescence_checked: bool,
    quiescence_full: bool,
    events: usize,
}

/// Rules (1)-(3) for every (remote, lane) + probe; shared by both simulation sub-checks.
fn check_obs(v: &mut Verdict, obs: &Obs) -> (Summary, Vec<Vec<(u64, LaneEv)>>) {
    if std::env::var("VERIF_DUMP").is_ok() {
        dump(obs);
    }
    if let Some(Err(e)) = &obs.result {
        v.fail("agent-failed", format!("the agent task ended with an error: {}", e));
    }
    let mut sum = Summary {
        coalesced: false,
        clear_skipped: false,
        quiescence_checked: false,
        quiescence_full: false,
        events: 0,
    };
    let mut per_lane = vec![];
    for li in 0..3 {
        let events = lane_events(&obs.trace, li);
        let final_map = fold(&events);
        sum.events += events.len();
        // The oracle's notion of "the lane's map" (fold of the lifecycle trace) is cross-checked against the
        // lane itself: a probe remote that syncs with the quiescent lane must receive exactly that map.
        if let Some(p) = &obs.probe {
            let mut probe_map: BTreeMap<MKey, i64> = BTreeMap::new();
            let mut synced = false;
            for f in p.frames.iter().filter(|f| f.lane == MAP_LANES[li]) {
                match &f.kind {
                    FrameKind::Event(b) => {
                        if let Ok(ev) = parse_event(li, b) {
                            apply_ev(&mut probe_map, &ev);
                        }
                    }
                    FrameKind::Synced => synced = true,
                    _ => {}
                }
            }
            if synced && probe_map != final_map {
                v.fail(
                    "probe-mismatch",
                    format!(
                        "lane {}: a remote that synced with the quiescent lane received {:?} but the lifecycle trace folds to {:?}; history {:?}",
                        MAP_LANES[li], probe_map, final_map, events
                    ),
                );
            }
        }
        for (ri, rem) in obs.remotes.iter().enumerate() {
            let o = check_map_lane(v, ri, li, rem, &events, &final_map, !obs.stopped, &obs.quiescent_marks);
            sum.coalesced |= o.coalesced;
            sum.clear_skipped |= o.clear_skipped;
            sum.quiescence_checked |= o.quiescence_checked;
            sum.quiescence_full |= o.quiescence_full;
        }
        per_lane.push(events);
    }
    (sum, per_lane)
}

fn check(case: &Case) -> Verdict {
    let obs = run_case(&case.params, &case.flags, &case.programs, &case.ops, &LANES, &MAP_LANES);
    let mut v = Verdict::new();
    let (sum, per_lane) = check_obs(&mut v, &obs);
    if sum.coalesced || sum.clear_skipped {
        v.nontrivial();
    }
    v.class_if(sum.coalesced, "state-skipped(replaced-in-place)");
    v.class_if(sum.clear_skipped, "state-skipped(by-clear)");
    v.class_if(sum.quiescence_checked, "quiescence-compared");
    v.class_if(sum.quiescence_full, "quiescence-full-map");
    v.class_if(sum.events >= 5, "mutations>=5");
    v.class_if(obs.remotes.len() >= 2, "remotes>=2");
    v.class_if(case.flags.cascade_map, "cascade");
    v.class_if(obs.stopped, "agent-stopped");
    v.class_if(obs.trace.iter().any(|(_, e)| matches!(e, Ev::ProgBegin { .. })), "handler-mutations");
    v.class_if(per_lane[1].len() >= 2, "m1(BTreeMap)-mutations>=2");
    v.class_if(per_lane.iter().any(|l| l.iter().any(|(_, e)| matches!(e, LaneEv::Clr))), "has-clear");
    v.class_if(case.ops.iter().any(|o| matches!(o, Op::Cmd { body, .. } if body.starts_with("@take") || body.starts_with("@drop"))), "has-take/drop");
    v
}

// ---------------------------------------------------------------------------------------------------
// single writer: the order of execution is the order of sending, so a reference map predicts the trace

#[derive(Clone, Debug, Serialize, Deserialize)]
enum SOp {
    Plain(Op),
    /// Mutation of map lane `lane` (0..3) by remote 0.
    Map { lane: u8, cmd: MapCmd },
}

#[derive(Clone, Debug, Serialize, Deserialize)]
struct SwCase {
    params: SimParams,
    ops: Vec<SOp>,
}

fn arb_sop(nkeys: usize) -> impl Strategy<Value = SOp> {
    prop_oneof![
        2 => arb_attach().prop_map(SOp::Plain),
        4 => (any::<u16>(), 0u8..3).prop_map(|(r, lane)| SOp::Plain(Op::Link { r, lane })),
        3 => (any::<u16>(), 0u8..3).prop_map(|(r, lane)| SOp::Plain(Op::Sync { r, lane })),
        1 => (any::<u16>(), 0u8..3).prop_map(|(r, lane)| SOp::Plain(Op::Unlink { r, lane })),
        18 => (0u8..3, arb_map_cmd(nkeys, true)).prop_map(|(lane, cmd)| SOp::Map { lane, cmd }),
        12 => arb_sched_op().prop_map(SOp::Plain),
    ]
}

fn arb_sw_case(max_ops: usize) -> impl Strategy<Value = SwCase> {
    (arb_params(), 2usize..=6)
        .prop_flat_map(move |(params, nkeys)| (Just(params), proptest::collection::vec(arb_sop(nkeys), 1..max_ops)))
        .prop_map(|(params, mut ops)| {
            let mut next = 1i64;
            for o in ops.iter_mut() {
                if let SOp::Map { cmd: MapCmd::Update { v, .. }, .. } = o {
                    *v = next;
                    next += 1;
                }
            }
            SwCase { params, ops }
        })
}

/// What the lane must do for one command, by the documentation of `MapMessage`: update inserts, remove
/// removes an existing entry, clear empties, `Take(n)` "retain only the first n entries ... the ordering used to
/// determine 'first' is the Recon order of the keys", `Drop(n)` "remove the first n entries".
fn model_apply(model: &mut BTreeMap<MKey, i64>, li: usize, cmd: &MapCmd) -> Vec<LaneEv> {
    let ordered = |m: &BTreeMap<MKey, i64>| {
        let mut ks: Vec<MKey> = m.keys().cloned().collect();
        ks.sort_by(|a, b| a.value().cmp(&b.value()));
        ks
    };
    let mut evs = vec![];
    match cmd {
        MapCmd::Update { key, v, .. } => evs.push(LaneEv::Upd(key_of(li, *key), *v)),
        MapCmd::Remove { key, .. } => {
            let k = key_of(li, *key);
            if model.contains_key(&k) {
                evs.push(LaneEv::Rem(k));
            }
        }
        MapCmd::Clear => evs.push(LaneEv::Clr),
        MapCmd::Take(n) => {
            for k in ordered(model).into_iter().skip(*n as usize) {
                evs.push(LaneEv::Rem(k));
            }
        }
        MapCmd::Drop(n) => {
            for k in ordered(model).into_iter().take(*n as usize) {
                evs.push(LaneEv::Rem(k));
            }
        }
    }
    for e in &evs {
        apply_ev(model, e);
    }
    evs
}

fn check_sw(case: &SwCase) -> Verdict {
    let ops: Vec<Op> = std::iter::once(Op::Attach { in_cap: 64, out_cap: 16 })
        .chain(case.ops.iter().map(|o| match o {
            SOp::Plain(op) => op.clone(),
            SOp::Map { lane, cmd } => Op::Cmd { r: 0, lane: *lane, body: render_cmd(*lane as usize, cmd) },
        }))
        .collect();
    let obs = run_case(&case.params, &AgentFlags::default(), &[], &ops, &LANES, &MAP_LANES);
    let mut v = Verdict::new();
    let (sum, per_lane) = check_obs(&mut v, &obs);
    let complete = !obs.stopped && obs.remotes[0].connected;
    let mut took = false;
    let mut took_partial = false;
    for li in 0..3 {
        let lane = MAP_LANES[li];
        let backing = if li == 1 { "BTreeMap<String>" } else { "HashMap<i32>" };
        let observed: Vec<LaneEv> = per_lane[li].iter().map(|(_, e)| e.clone()).collect();
        let mut model: BTreeMap<MKey, i64> = BTreeMap::new();
        let mut pos = 0usize;
        let mut broken = false;
        for (n, cmd) in case
            .ops
            .iter()
            .filter_map(|o| match o {
                SOp::Map { lane, cmd } if *lane as usize == li => Some(cmd),
                _ => None,
            })
            .enumerate()
        {
            let before = model.clone();
            let mut expect = model_apply(&mut model, li, cmd);
            if pos + expect.len() > observed.len() {
                if complete {
                    v.fail(
                        "lane-op-not-executed",
                        format!(
                            "lane {}: command #{} {:?} on map {:?} should produce {:?} but the lane's trace ends with {:?} (agent quiescent, everything delivered)",
                            lane, n, cmd, before, expect, &observed[pos.min(observed.len())..]
                        ),
                    );
                }
                broken = true;
                break;
            }
            let mut got: Vec<LaneEv> = observed[pos..pos + expect.len()].to_vec();
            pos += expect.len();
            // the order in which take / drop remove the designated entries is not part of the property
            expect.sort();
            got.sort();
            let is_td = matches!(cmd, MapCmd::Take(_) | MapCmd::Drop(_));
            if is_td && !expect.is_empty() {
                took = true;
                if expect.len() < before.len() {
                    took_partial = true;
                }
            }
            if expect != got {
                let sig = match cmd {
                    MapCmd::Take(_) => format!("take:wrong-entries-removed:{}", backing),
                    MapCmd::Drop(_) => format!("drop:wrong-entries-removed:{}", backing),
                    _ => "lane-op-mismatch".to_string(),
                };
                v.fail(
                    sig,
                    format!(
                        "lane {}: command #{} {:?} on map {:?} (keys in Recon order) must produce {:?} but the lane produced {:?}",
                        lane, n, cmd, before, expect, got
                    ),
                );
                broken = true;
                break;
            }
        }
        if !broken && pos < observed.len() {
            v.fail(
                "lane-extra-events",
                format!("lane {}: after all commands the lane's trace has further events {:?}", lane, &observed[pos..]),
            );
        }
    }
    if took_partial && (sum.quiescence_checked) {
        v.nontrivial();
    }
    v.class_if(took, "take/drop-removed-entries");
    v.class_if(took_partial, "take/drop-removed-a-proper-subset");
    v.class_if(sum.coalesced, "state-skipped(replaced-in-place)");
    v.class_if(sum.clear_skipped, "state-skipped(by-clear)");
    v.class_if(sum.quiescence_checked, "quiescence-compared");
    v.class_if(sum.quiescence_full, "quiescence-full-map");
    v.class_if(obs.remotes.len() >= 2, "remotes>=2");
    v.class_if(obs.stopped, "agent-stopped");
    v
}

// ---------------------------------------------------------------------------------------------------
// small scope: the runtime's coalescing queue

/// Key spellings; spellings of one class are equal as Recon values.
const SMALL_KEYS: [&str; 5] = ["a", "\"a\"", "{1,2}", "{1;2}", " {1, 2}"];

#[derive(Clone, Debug, PartialEq, Eq, Serialize, Deserialize)]
enum QOp {
    Upd(String),
    Rem(String),
    Clear,
    Pop,
    /// update / remove whose key is not UTF-8: must be refused and leave the queue unchanged
    BadUpd,
    BadRem,
}

/// The 9-op alphabet of the exhaustive tier.
fn small_op(i: u8) -> QOp {
    match i {
        0 => QOp::Upd(SMALL_KEYS[0].into()),
        1 => QOp::Upd(SMALL_KEYS[1].into()),
        2 => QOp::Rem(SMALL_KEYS[0].into()),
        3 => QOp::Rem(SMALL_KEYS[1].into()),
        4 => QOp::Upd(SMALL_KEYS[2].into()),
        5 => QOp::Upd(SMALL_KEYS[3].into()),
        6 => QOp::Rem(SMALL_KEYS[4].into()),
        7 => QOp::Clear,
        _ => QOp::Pop,
    }
}

#[derive(Clone, Debug, Serialize, Deserialize)]
struct QCase {
    ops: Vec<QOp>,
}

fn parse_key(text: &[u8]) -> Option<Value> {
    // all keys come from two small pools: parse each spelling once
    static CACHE: std::sync::OnceLock<std::collections::HashMap<Vec<u8>, Value>> = std::sync::OnceLock::new();
    let cache = CACHE.get_or_init(|| {
        SMALL_KEYS
            .iter()
            .chain(POOL.iter())
            .filter_map(|k| parse_recognize::<Value>(*k, false).ok().map(|v| (k.as_bytes().to_vec(), v)))
            .collect()
    });
    if let Some(v) = cache.get(text) {
        return Some(v.clone());
    }
    let s = std::str::from_utf8(text).ok()?;
    parse_recognize::<Value>(s, false).ok()
}

fn model_set(m: &mut Vec<(Value, Option<i64>)>, k: Value, s: Option<i64>) {
    if let Some(e) = m.iter_mut().find(|(k2, _)| *k2 == k) {
        e.1 = s;
    } else {
        m.push((k, s));
    }
}

fn model_norm(m: &[(Value, Option<i64>)]) -> Vec<(String, i64)> {
    let mut out: Vec<(String, i64)> = m
        .iter()
        .filter_map(|(k, s)| s.map(|v| (format!("{:?}", k), v)))
        .collect();
    out.sort();
    out
}

fn apply_pop(
    v: &mut Verdict,
    case: &QCase,
    pushed: &[(Value, i64)],
    popped: MapOperation<bytes::Bytes, BytesMut>,
    replica: &mut Vec<(Value, Option<i64>)>,
    drained: &mut Vec<Option<Value>>,
) {
    match popped {
        MapOperation::Update { key, value } => {
            let Some(k) = parse_key(key.as_ref()) else {
                v.fail("queue:popped-key-unparseable", format!("popped key {:?}", key));
                return;
            };
            let val: Option<i64> = std::str::from_utf8(value.as_ref()).ok().and_then(|s| s.parse().ok());
            let Some(val) = val else {
                v.fail("queue:popped-value-invented", format!("popped value {:?} was never pushed", value));
                return;
            };
            if !pushed.iter().any(|(k2, v2)| *k2 == k && *v2 == val) {
                v.fail("queue:popped-entry-invented", format!("popped update {:?} -> {} was never pushed; ops {:?}", k, val, case.ops));
            }
            model_set(replica, k.clone(), Some(val));
            drained.push(Some(k));
        }
        MapOperation::Remove { key } => {
            let Some(k) = parse_key(key.as_ref()) else {
                v.fail("queue:popped-key-unparseable", format!("popped key {:?}", key));
                return;
            };
            model_set(replica, k.clone(), None);
            drained.push(Some(k));
        }
        MapOperation::Clear => {
            for e in replica.iter_mut() {
                e.1 = None;
            }
            drained.push(None);
        }
    }
}

fn check_queue(case: &QCase) -> Verdict {
    let mut v = Verdict::new();
    let mut q = MapBackpressure::default();
    // both replicas start from the same non-empty map so that removes and clears are visible
    let mut init: Vec<(Value, Option<i64>)> = vec![];
    for op in &case.ops {
        if let QOp::Upd(k) | QOp::Rem(k) = op {
            if let Some(kv) = parse_key(k.as_bytes()) {
                if !init.iter().any(|(k2, _)| *k2 == kv) {
                    let n = init.len() as i64;
                    init.push((kv, Some(-1 - n)));
                }
            }
        }
    }
    let mut direct = init.clone();
    let mut replica = init;
    // reference content of the queue: distinct keys (by parsed value) in queue order, or a leading clear
    let mut queued: Vec<Option<Value>> = vec![];
    let mut pushed: Vec<(Value, i64)> = vec![];
    let mut replaced = false;
    let mut clear_discarded = false;
    let mut next = 1i64;
    let mut sink = vec![];
    for op in &case.ops {
        match op {
            QOp::Upd(k) => {
                let val = next;
                next += 1;
                let r = q.push(MapOperation::Update {
                    key: BytesMut::from(k.as_bytes()),
                    value: BytesMut::from(val.to_string().as_bytes()),
                });
                if let Err(e) = r {
                    v.fail("queue:valid-key-refused", format!("push of update with key {:?} failed: {}", k, e));
                    continue;
                }
                let kv = parse_key(k.as_bytes()).expect("generated keys are valid Recon");
                pushed.push((kv.clone(), val));
                model_set(&mut direct, kv.clone(), Some(val));
                if queued.iter().any(|e| e.as_ref() == Some(&kv)) {
                    replaced = true;
                } else {
                    queued.push(Some(kv));
                }
            }
            QOp::Rem(k) => {
                let r = q.push(MapOperation::Remove { key: BytesMut::from(k.as_bytes()) });
                if let Err(e) = r {
                    v.fail("queue:valid-key-refused", format!("push of remove with key {:?} failed: {}", k, e));
                    continue;
                }
                let kv = parse_key(k.as_bytes()).expect("generated keys are valid Recon");
                model_set(&mut direct, kv.clone(), None);
                if queued.iter().any(|e| e.as_ref() == Some(&kv)) {
                    replaced = true;
                } else {
                    queued.push(Some(kv));
                }
            }
            QOp::Clear => {
                let _ = q.push(MapOperation::Clear);
                for e in direct.iter_mut() {
                    e.1 = None;
                }
                if !queued.is_empty() {
                    clear_discarded = true;
                }
                queued.clear();
                queued.push(None);
            }
            QOp::Pop => {
                let got = q.pop();
                if got.is_some() != !queued.is_empty() {
                    v.fail(
                        "queue:pop-emptiness",
                        format!("pop returned {:?} but {} distinct entries should be queued; ops {:?}", got, queued.len(), case.ops),
                    );
                }
                if !queued.is_empty() {
                    queued.remove(0);
                }
                if let Some(p) = got {
                    apply_pop(&mut v, case, &pushed, p, &mut replica, &mut sink);
                }
            }
            QOp::BadUpd => {
                let r = q.push(MapOperation::Update {
                    key: BytesMut::from(&[0xffu8, 0xfe, b'a'][..]),
                    value: BytesMut::from(&b"0"[..]),
                });
                if r.is_ok() {
                    v.fail("queue:invalid-utf8-key-accepted", "an update whose key is not UTF-8 was accepted".to_string());
                }
            }
            QOp::BadRem => {
                let r = q.push(MapOperation::Remove { key: BytesMut::from(&[b'a', 0xc3u8][..]) });
                if r.is_ok() {
                    v.fail("queue:invalid-utf8-key-accepted", "a remove whose key is not UTF-8 was accepted".to_string());
                }
            }
        }
    }
    // drain: what is queued now
    let mut drained: Vec<Option<Value>> = vec![];
    let mut guard = 0;
    while let Some(p) = q.pop() {
        apply_pop(&mut v, case, &pushed, p, &mut replica, &mut drained);
        guard += 1;
        if guard > 10_000 {
            v.fail("queue:drain-does-not-terminate", "more than 10000 entries popped".to_string());
            break;
        }
    }
    for i in 0..drained.len() {
        for j in (i + 1)..drained.len() {
            if drained[i] == drained[j] {
                v.fail(
                    "queue:two-entries-with-equal-keys",
                    format!("the queue held two entries for {:?} (positions {} and {}) after ops {:?}", drained[i], i, j, case.ops),
                );
            }
        }
    }
    if drained.len() != queued.len() {
        v.fail(
            "queue:entry-count",
            format!("{} entries drained but {} distinct keys/clear were pending; ops {:?}", drained.len(), queued.len(), case.ops),
        );
    }
    if model_norm(&direct) != model_norm(&replica) {
        v.fail(
            "queue:replica-diverged",
            format!(
                "applying the popped operations gives {:?} but applying the pushed operations directly gives {:?}; ops {:?}",
                model_norm(&replica), model_norm(&direct), case.ops
            ),
        );
    }
    if replaced || clear_discarded {
        v.nontrivial();
    }
    v.class_if(replaced, "replaced-in-place");
    v.class_if(clear_discarded, "clear-discarded-queued-ops");
    v
}

/// Sequences of length 1..=depth over the 9-op alphabet, smallest first, split over the workers.
fn enumerate_small(depth: u32, worker: usize, workers: usize) -> impl Iterator<Item = QCase> {
    (1..=depth).flat_map(move |d| {
        let total = 9u64.pow(d);
        (0..total)
            .filter(move |i| (*i as usize) % workers == worker)
            .map(move |mut i| {
                let mut ops = Vec::with_capacity(d as usize);
                for _ in 0..d {
                    ops.push(small_op((i % 9) as u8));
                    i /= 9;
                }
                QCase { ops }
            })
    })
}

const POOL: [&str; 19] = [
    "1", " 1", "1 ", "a", "\"a\"", "\"\\u0061\"", "{1,2}", "{1;2}", "{ 1, 2 }", "@a(1)", "@a( 1 )", "\"x y\"", "\"x\\u0020y\"",
    "2", "b", "{a:1}", "{ a : 1 }", "\"\"", "{}",
];

fn arb_qcase(max: usize) -> impl Strategy<Value = QCase> {
    let key = (0usize..POOL.len()).prop_map(|i| POOL[i].to_string());
    let op = prop_oneof![
        8 => key.clone().prop_map(QOp::Upd),
        4 => key.prop_map(QOp::Rem),
        1 => Just(QOp::Clear),
        6 => Just(QOp::Pop),
        1 => Just(QOp::BadUpd),
        1 => Just(QOp::BadRem),
    ];
    proptest::collection::vec(op, 1..max).prop_map(|ops| QCase { ops })
}

fn main() {
    let args: Vec<String> = std::env::args().skip(1).collect();
    let mut ctx = Ctx::new("C02", &args);
    ctx.rule(
        "map-replica / single-writer-take-drop: op lists (attach/link/sync/unlink, update/remove/clear/take/drop command envelopes with keys \
         in several Recon spellings, control-lane programs that mutate the maps from handlers, cascade m0->mt, remote disconnect + schedule ops: \
         remote writes <=n bytes, reads <=n bytes, poll system <=k, settle, advance) over map lanes m0 (HashMap<i32>), m1 (BTreeMap<String>), mt \
         (transient), 1-6 colliding keys, 1-5 remotes with channel capacities 1..4096 bytes, generated lane buffer sizes / coop budget / select seed. \
         Non-trivial (map-replica) = some remote, inside one link session, skipped at least one state of a key's history (an operation was replaced \
         in place in a queue or discarded by a clear); (single-writer) = a take/drop removed a proper non-empty subset of the entries and some \
         replica was compared with the lane at quiescence; (queue-*) = a push hit a key that was already queued (Recon-equal) or a clear discarded \
         queued operations. Distinct by the Debug form of the case.",
    );
    ctx.assume("the agent-side lifecycle trace (on_update/on_remove/on_clear) is the ground truth for the states a map lane held; its fold is cross-checked against a probe remote that syncs with the quiescent lane in every case");
    ctx.assume("single-threaded harness-owned schedule; op-level interleavings of agent task vs remotes");
    ctx.assume("queue-*: keys are identified by equality of the parsed Recon value (swimos_recon parser + Value::eq)");
    let n = ctx.pick(300_000, 8_000_000);
    let max_ops = ctx.pick(60, 200);
    ctx.prop("map-replica", n, move || arb_case(max_ops), check);
    let n = ctx.pick(100_000, 3_000_000);
    ctx.prop("single-writer-take-drop", n, move || arb_sw_case(max_ops), check_sw);
    let depth = ctx.pick(6, 7);
    ctx.enumerate("queue-small-scope", move |w, ws| enumerate_small(depth, w, ws), check_queue);
    let n = ctx.pick(300_000, 10_000_000);
    let qmax = ctx.pick(40, 120);
    ctx.prop("queue-random", n, move || arb_qcase(qmax), check_queue);
    ctx.finish();
}
