//! C10 Binary frames decode to what was encoded under any fragmentation.
mod child;
mod fams;
mod model;
mod oracle;

fn main() {
    let args: Vec<String> = std::env::args().skip(1).collect();
    let fams = fams::families();
    if args.iter().any(|a| a == "--child") {
        child::child_main(&fams);
    }
    let mut ctx = vcommon::Ctx::new("C10", &args);
    ctx.rule(
        "Per decoder family (sub-checks frag:<family> and mut:<family>): streams of 1-8 generated messages encoded \
         back to back with the repository's encoders (raw and Recon-printing encoders mixed where both write the \
         same wire format). frag: the stream is fed whole, at EVERY single split point, one byte per read and with \
         a random multi-split (reads of 1-12 bytes) through append / decode-until-None / decode_eof; non-trivial = \
         the stream has a multi-byte header field (length, id, tag word) so that splits fall inside it. mut: one \
         mutation of the valid stream (invalid tag, other valid tag, length field := 0 / len-k / len+k / 2^32 / \
         2^32+len / 2^61-1 / 2^61 / 2^62 / 2^63 / u64::MAX-k / random, id byte, body byte, truncation, random byte, \
         insert, delete) fed whole, with random reads and one byte per read, in a child process; non-trivial = the \
         mutated byte belongs to a tag, flags or length field. Distinct by Debug form of the case.",
    );
    ctx.assume("Typed (Recon-bodied) decoders are compared with a one-shot parse (swimos_recon::parser::parse_recognize) of the body text, so Recon print/parse fidelity (C09) is trusted here");
    ctx.assume("The wire layout model in the harness (field offsets used to aim mutations and to name invalid tags) is self-checked against every encoded frame");
    ctx.assume("Unlinked(Some(empty)) and Unlinked(None) are one message on the wire (both are written as body length 0)");
    ctx.assume("After the first Err the stream is over (FramedRead semantics); nothing is asserted about later calls");
    let only_group = std::env::var("C10_GROUP").ok();
    for fam in &fams {
        if let Some(g) = &only_group {
            if g != fam.group {
                continue;
            }
        }
        // 1-byte frames only: nothing to split, a handful of cases covers it.
        let tiny = fam.name == "store-initialized";
        let frag_cases = if tiny { ctx.pick(200, 2_000) } else { ctx.pick(1_600, 64_000) };
        let mut_cases = if tiny { ctx.pick(400, 4_000) } else { ctx.pick(6_000, 240_000) };
        ctx.prop(
            &format!("frag:{}", fam.name),
            frag_cases,
            || oracle::arb_frag(fam),
            |c| oracle::check_frag(fam, c),
        );
        ctx.prop(
            &format!("mut:{}", fam.name),
            mut_cases,
            || oracle::arb_mut(fam),
            |c| child::run_mut(fam, c),
        );
    }
    ctx.finish();
}
