#!/bin/bash
# tools/run_seeded.sh <slot> <seed-dir-name>...   e.g. tools/run_seeded.sh s1 C04-1 C04-2
# Runs the check of the seeded change's property against the patched scratch worktree; appends to /verif/seeded/RESULTS.txt
SLOT=${1:?slot}; shift
for name in "$@"; do
  ID=${name%%-*}
  d=/verif/seeded/$name
  s=$(date +%s)
  log=$(/verif/tools/mutant.sh "$SLOT" "$ID" "$d/patch.diff" quick 2>&1)
  rc=$?
  e=$(( $(date +%s) - s ))
  sigs=$(echo "$log" | grep -o "violation sig=[^ ]*" | sort -u | tr '\n' ' ')
  case $rc in 1) st=DETECTED;; 0) st=MISSED;; *) st="INCONCLUSIVE($rc)";; esac
  echo "$name check=$ID rc=$rc $st ${e}s $sigs" | tee -a /verif/seeded/RESULTS.txt
  echo "$log" | tail -30 > "$d/check_output.txt"
done
