//! Second sub-check: the same session grammar on the real `SimAgent` (real lanes: value, map, supply,
//! command) inside the real runtime. Lane output is whatever the real lanes produce, so the body laws
//! are stated against the agent-side trace.

use proptest::prelude::*;
use serde::{Deserialize, Serialize};
use std::sync::atomic::AtomicU64;
use std::sync::Arc;
use vcommon::{pick_index, Verdict};
use vsim::agent::{make_agent, Act, AgentFlags, Ev, Key, Shared};
use vsim::{apply_op, arb_cap, arb_nbytes, arb_sched_op, arb_small_cap, block_on_paused, Frame, FrameKind, Op, Req, Sim, SimParams};

/// Lanes addressed by the ops; the last two do not exist.
const LANES: [&str; 8] = ["v0", "v1", "m0", "sup", "cmd", "ctl", "ghost", "v00"];
const NREAL: usize = 6;
const LANE_NOT_FOUND: &[u8] = b"@laneNotFound";

#[derive(Clone, Debug, Serialize, Deserialize)]
pub struct Case {
    pub params: SimParams,
    pub programs: Vec<Vec<Act>>,
    pub ops: Vec<Op>,
    /// end the case with the stop trigger (otherwise the agent is left running)
    pub stop_at_end: bool,
}

fn arb_act() -> impl Strategy<Value = Act> {
    prop_oneof![
        3 => (0u8..2).prop_map(|lane| Act::SetV { lane, v: 0 }),
        3 => (0i32..4).prop_map(|k| Act::Upd { map: 0, k, v: 0 }),
        1 => (0i32..4).prop_map(|k| Act::Rem { map: 0, k }),
        1 => Just(Act::Clr { map: 0 }),
        5 => Just(Act::Supply { v: 0 }),
    ]
}

fn arb_lane() -> impl Strategy<Value = u8> {
    prop_oneof![10 => 0u8..NREAL as u8, 1 => NREAL as u8..LANES.len() as u8]
}

fn arb_op() -> impl Strategy<Value = Op> {
    prop_oneof![
        2 => (arb_small_cap(), arb_small_cap()).prop_map(|(in_cap, out_cap)| Op::Attach { in_cap, out_cap }),
        6 => (any::<u16>(), arb_lane()).prop_map(|(r, lane)| Op::Link { r, lane }),
        5 => (any::<u16>(), arb_lane()).prop_map(|(r, lane)| Op::Sync { r, lane }),
        4 => (any::<u16>(), arb_lane()).prop_map(|(r, lane)| Op::Unlink { r, lane }),
        5 => (any::<u16>(), 0u8..2).prop_map(|(r, lane)| Op::Cmd { r, lane, body: String::new() }),
        3 => (any::<u16>(), 0i32..4).prop_map(|(r, k)| Op::Cmd { r, lane: 2, body: format!("@update(key:{}) #", k) }),
        1 => (any::<u16>(), 0i32..4).prop_map(|(r, k)| Op::Cmd { r, lane: 2, body: format!("@remove(key:{})", k) }),
        1 => any::<u16>().prop_map(|r| Op::Cmd { r, lane: 2, body: "@clear".to_string() }),
        2 => any::<u16>().prop_map(|r| Op::Cmd { r, lane: 4, body: String::new() }),
        2 => (any::<u16>(), 0usize..MALFORMED_MAP.len()).prop_map(|(r, i)| Op::Cmd { r, lane: 2, body: MALFORMED_MAP[i].to_string() }),
        // the program is chosen by index later ("P<n>" is resolved against the number of programs)
        5 => (any::<u16>(), any::<u16>()).prop_map(|(r, p)| Op::Cmd { r, lane: 5, body: format!("P{}", p) }),
        1 => any::<u16>().prop_map(|r| Op::Cmd { r, lane: 6, body: "1".to_string() }),
        24 => arb_sched_op(),
        6 => (any::<u16>(), arb_nbytes()).prop_map(|(r, n)| Op::Read { r, n }),
    ]
}

/// Not map messages: rejected by the runtime (`BadEnvelope`), nothing may be sent for them.
const MALFORMED_MAP: [&str; 9] = ["garbage", "", "5", "@unknown(key:1) 2", "@update(key:", "@update", "{a:1}", "@remove", "@update(key:1"];
/// Forwarded by the runtime but not decodable by the lane: the agent task fails (user-code error) and
/// the agent stops, which must close every link like any other stop. (lane index, body)
const ILL_TYPED: [(u8, &str); 7] = [
    (0, "not_a_number"),
    (1, "@@@"),
    (4, "\"text\""),
    (5, "x"),
    (2, "@update(key:notint) 5"),
    (2, "@update(key:1) text"),
    (2, "@remove(key:{a:1})"),
];

fn well_formed_command(lane: &str, text: &str) -> bool {
    let int = |s: &str| s.trim().parse::<i64>().is_ok();
    match lane {
        "v0" | "v1" | "cmd" | "ctl" => int(text),
        "m0" => {
            if MALFORMED_MAP.contains(&text) || text == "@clear" {
                true // rejected before the lane sees it / valid
            } else if let Some(rest) = text.strip_prefix("@remove(key:") {
                rest.strip_suffix(')').map(int).unwrap_or(false)
            } else if let Some(rest) = text.strip_prefix("@update(key:") {
                rest.split_once(") ").map(|(k, v)| int(k) && int(v)).unwrap_or(false)
            } else {
                false
            }
        }
        _ => true,
    }
}

fn arb_fault() -> impl Strategy<Value = Op> {
    prop_oneof![
        1 => (any::<u16>(), 0usize..ILL_TYPED.len()).prop_map(|(r, i)| Op::Cmd { r, lane: ILL_TYPED[i].0, body: ILL_TYPED[i].1.to_string() }),
        2 => Just(Op::Stop),
        2 => Just(Op::Advance { ms: 400 }),
        2 => any::<u16>().prop_map(|r| Op::Drop { r }),
    ]
}

pub const T_VOTE: u64 = 300;

fn arb_request() -> impl Strategy<Value = Op> {
    prop_oneof![
        5 => (any::<u16>(), arb_lane()).prop_map(|(r, lane)| Op::Link { r, lane }),
        2 => (any::<u16>(), arb_lane()).prop_map(|(r, lane)| Op::Sync { r, lane }),
        2 => (any::<u16>(), arb_lane()).prop_map(|(r, lane)| Op::Unlink { r, lane }),
        1 => any::<u16>().prop_map(|r| Op::Cmd { r, lane: 6, body: "1".to_string() }),
    ]
}

fn arb_pump_all() -> impl Strategy<Value = Op> {
    (any::<u16>(), prop_oneof![3 => Just(usize::MAX), 1 => 1usize..40]).prop_map(|(r, n)| Op::Pump { r, n })
}

fn arb_small_poll() -> impl Strategy<Value = Op> {
    (1usize..4).prop_map(|k| Op::Poll { k })
}

fn arb_request_step() -> impl Strategy<Value = Vec<Op>> {
    (arb_request(), proptest::option::weighted(0.7, arb_pump_all()), proptest::option::weighted(0.6, arb_small_poll())).prop_map(|(rq, pump, poll)| {
        let mut v = vec![rq];
        v.extend(pump);
        v.extend(poll);
        v
    })
}

fn arb_attach_small() -> impl Strategy<Value = Op> {
    (arb_small_cap(), arb_small_cap()).prop_map(|(in_cap, out_cap)| Op::Attach { in_cap: in_cap.max(40), out_cap })
}

/// "Stop-vote window" (see raw.rs): quiet for about the inactivity timeout with read-only traffic
/// (attachments, commands for a lane that does not exist) so that only some tasks have voted, then
/// attachments and requests with few polls around a terminator. The agent is ended from the inside by a
/// control-lane program consisting of `Stop` (command body "STOP" is replaced by its index).
fn arb_window() -> impl Strategy<Value = Vec<Op>> {
    let read_only = prop_oneof![
        2 => arb_attach_small().prop_map(|a| vec![a]),
        3 => (any::<u16>(), arb_small_poll()).prop_map(|(r, p)| vec![Op::Cmd { r, lane: 6, body: "1".to_string() }, Op::Pump { r, n: usize::MAX }, p]),
        1 => Just(vec![]),
    ];
    let terminator = prop_oneof![
        6 => any::<u16>().prop_map(|r| vec![Op::Cmd { r, lane: 5, body: "STOP".to_string() }, Op::Pump { r, n: usize::MAX }]),
        1 => Just(vec![Op::Stop]),
        2 => (any::<u16>(), 0u8..2).prop_map(|(r, lane)| vec![Op::Cmd { r, lane, body: String::new() }, Op::Pump { r, n: usize::MAX }]),
        2 => prop_oneof![Just(T_VOTE - 1), Just(T_VOTE), Just(T_VOTE + 1)].prop_map(|ms| vec![Op::Advance { ms }]),
        1 => Just(vec![]),
    ];
    let after = prop_oneof![
        3 => arb_request_step(),
        2 => arb_pump_all().prop_map(|p| vec![p]),
        3 => arb_small_poll().prop_map(|p| vec![p]),
        1 => arb_attach_small().prop_map(|a| vec![a]),
    ];
    (
        (0u64..T_VOTE, read_only, prop_oneof![Just(-1i64), Just(0), Just(1), Just(50), Just(150)], any::<bool>(), 1usize..6),
        proptest::collection::vec(arb_attach_small(), 0..3),
        proptest::collection::vec(arb_request_step(), 1..4),
        proptest::option::weighted(0.5, arb_small_poll()),
        terminator,
        proptest::collection::vec(after, 0..5),
    )
        .prop_map(|((a, read_only, d, split, k1), attaches, requests, poll_before_end, terminator, after)| {
            let mut v = vec![Op::Settle, Op::Advance { ms: a }];
            v.extend(read_only);
            let b = (T_VOTE as i64 - a as i64 + d).max(1) as u64;
            if split && b > 2 {
                v.push(Op::Advance { ms: b / 2 });
                v.push(Op::Poll { k: 1 });
                v.push(Op::Advance { ms: b - b / 2 });
            } else {
                v.push(Op::Advance { ms: b });
            }
            v.push(Op::Poll { k: k1 });
            v.extend(attaches);
            for r in requests {
                v.extend(r);
            }
            v.extend(poll_before_end);
            v.extend(terminator);
            for a in after {
                v.extend(a);
            }
            v
        })
}

pub fn arb_case(max_ops: usize) -> impl Strategy<Value = Case> {
    let progs = proptest::collection::vec(proptest::collection::vec(arb_act(), 1..6), 1..4);
    let head = (
        any::<u64>(),
        prop_oneof![Just(1usize), Just(2), Just(16)],
        arb_cap(),
        arb_cap(),
        prop_oneof![Just(2usize), Just(3), Just(8), Just(64)],
        prop_oneof![1 => Just(300u64), 3 => Just(10_000_000u64)],
        prop_oneof![1 => Just(200u64), 2 => Just(30_000u64)],
        progs,
        any::<bool>(),
    )
        .prop_map(|t| t);
    (
        head,
        proptest::collection::vec(arb_op(), 1..max_ops),
        proptest::collection::vec((any::<u16>(), arb_fault()), 0..2),
        proptest::option::weighted(0.3, (arb_window(), prop_oneof![3 => Just(1usize), 2 => Just(2), 1 => Just(4)], 1usize..4)),
    )
        .prop_map(|((seed, mut aq, lin, lout, budget, mut inactive, prune, mut programs, stop_at_end), mut ops, faults, window)| {
            // no prop_flat_map: proptest's flat-map shrinking can spin for minutes without running a case
            let nprogs = programs.len().max(1);
            for op in ops.iter_mut() {
                if let Op::Cmd { lane: 5, body, .. } = op {
                    if let Some(p) = body.strip_prefix('P').and_then(|x| x.parse::<u16>().ok()) {
                        *body = pick_index(p, nprogs).to_string();
                    }
                }
            }
            for (pos, f) in faults {
                let at = pick_index(pos, ops.len() + 1);
                ops.insert(at, f);
            }
            if let Some((w, queue, keep)) = window {
                inactive = T_VOTE;
                aq = queue;
                ops.truncate(ops.len().min(keep * 8));
                ops.retain(|o| !matches!(o, Op::Stop | Op::Advance { .. }));
                programs.push(vec![Act::Stop]);
                let stop_idx = (programs.len() - 1).to_string();
                ops.extend(w.into_iter().map(|o| match o {
                    Op::Cmd { r, lane, body } if body == "STOP" => Op::Cmd { r, lane, body: stop_idx.clone() },
                    o => o,
                }));
            }
            let mut next = 1i64;
            for p in programs.iter_mut() {
                for a in p.iter_mut() {
                    match a {
                        Act::SetV { v, .. } | Act::Upd { v, .. } | Act::Supply { v } => {
                            *v = 1_000_000 + next;
                            next += 1;
                        }
                        _ => {}
                    }
                }
            }
            for op in ops.iter_mut() {
                if let Op::Cmd { lane, body, .. } = op {
                    if *lane < 2 || *lane == 4 {
                        *body = next.to_string();
                        next += 1;
                    } else if *lane == 2 && body.ends_with('#') {
                        body.pop();
                        body.push_str(&next.to_string());
                        next += 1;
                    }
                }
            }
            let mut all = vec![Op::Attach { in_cap: 64, out_cap: 16 }];
            all.extend(ops);
            Case {
                params: SimParams {
                    seed,
                    attachment_queue: aq,
                    lane_in_buf: lin.max(8),
                    lane_out_buf: lout.max(8),
                    budget,
                    inactive_timeout_ms: inactive,
                    prune_remote_delay_ms: prune,
                    shutdown_timeout_ms: 1_000_000_000,
                    ..SimParams::default()
                },
                programs,
                ops: all,
                stop_at_end,
            }
        })
}

struct Wake {
    remote: usize,
    seq: u64,
    written: u64,
}

struct RemoteObs {
    frames: Vec<Frame>,
    sent: Vec<(String, Req, u64, Option<u64>)>,
    dropped: bool,
    reason: Option<String>,
    frames_at_checkpoint: usize,
    sent_at_checkpoint: usize,
    reason_at_checkpoint: bool,
    decode_error: Option<String>,
}

struct Obs {
    remotes: Vec<RemoteObs>,
    trace: Vec<(u64, Ev)>,
    wakes: Vec<Wake>,
    done_at_checkpoint: bool,
    done_at_end: bool,
    result: Option<Result<(), String>>,
    livelock: bool,
    /// stop-vote model (see raw.rs)
    req_while_vote: bool,
    coord_while_write_voted: bool,
}

/// `Sim::settle` with a budget: a system that keeps waking itself (never becomes idle) is reported
/// instead of spinning until the watchdog fires.
fn settle_bounded(sim: &mut Sim) -> bool {
    let start = sim.polls;
    loop {
        let mut progress = 0usize;
        for r in sim.remotes.iter_mut() {
            progress += r.pump(usize::MAX);
        }
        progress += sim.poll(10_000);
        for r in sim.remotes.iter_mut() {
            progress += r.read(usize::MAX);
        }
        if progress == 0 && (sim.is_done() || !sim.is_woken()) {
            return true;
        }
        if sim.polls - start > 300_000 {
            return false;
        }
    }
}

fn execute(case: &Case) -> Obs {
    block_on_paused(case.params.seed, async {
        let clock = Arc::new(AtomicU64::new(1));
        let shared = Shared::new(clock.clone(), case.programs.clone(), AgentFlags::default());
        let agent = make_agent(shared.clone());
        let mut sim = Sim::start(&agent, &case.params, clock, None);
        sim.run_until_idle();
        let mut wakes = vec![];
        let mut dropped: Vec<bool> = vec![];
        let mut livelock = false;
        let t_vote = case.params.inactive_timeout_ms;
        let (mut now_ms, mut last_write_act, mut last_read_act) = (0u64, 0u64, 0u64);
        let (mut write_voted, mut read_voted, mut http_voted) = (false, false, false);
        let mut seen_written: Vec<usize> = vec![];
        let (mut req_while_vote, mut coord_while_write_voted) = (false, false);
        for op in &case.ops {
            match op {
                Op::Read { r, n } if !sim.remotes.is_empty() => {
                    // poll to idle first: a read that wakes an idle system found the writer parked
                    sim.poll(10_000);
                    let idx = pick_index(*r, sim.remotes.len());
                    let idle = !sim.is_woken() && !sim.is_done();
                    let before = sim.remotes[idx].bytes_read;
                    let cap = sim.remotes[idx].out_cap as u64;
                    let got = sim.remotes[idx].read(*n);
                    if idle && got > 0 && sim.is_woken() {
                        wakes.push(Wake {
                            remote: idx,
                            seq: sim.now(),
                            written: before + cap,
                        });
                    }
                }
                Op::Drop { r } if !sim.remotes.is_empty() => {
                    let idx = pick_index(*r, sim.remotes.len());
                    dropped.resize(sim.remotes.len(), false);
                    dropped[idx] = true;
                    sim.remotes[idx].disconnect();
                }
                Op::Settle => {
                    livelock |= !settle_bounded(&mut sim);
                }
                op => apply_op(&mut sim, &LANES, op).await,
            }
            if livelock {
                break;
            }
            // ---- stop-vote model (op granularity)
            if let Op::Advance { ms } = op {
                now_ms += ms;
            }
            if matches!(op, Op::Attach { .. }) {
                last_read_act = now_ms;
                read_voted = false;
            }
            seen_written.resize(sim.remotes.len(), 0);
            for (ri, r) in sim.remotes.iter().enumerate() {
                let written = r.sent.iter().filter(|s| s.3.is_some()).count();
                for s in r.sent.iter().filter(|s| s.3.is_some()).skip(seen_written[ri]) {
                    let ghost = LANES[NREAL..].contains(&s.0.as_str());
                    // makes the write task schedule a write
                    let coord = match s.1 {
                        Req::Link | Req::Unlink => true,
                        Req::Sync => ghost,
                        Req::Command(_) => false,
                    };
                    // reaches the write task at all (a real lane answers syncs and commands with events)
                    let write_act = coord || !ghost;
                    let running = !sim.is_done();
                    let votes = [write_voted, read_voted, http_voted].iter().filter(|x| **x).count();
                    if running && votes >= 1 && votes < 3 {
                        req_while_vote = true;
                    }
                    if running && coord && write_voted {
                        coord_while_write_voted = true;
                    }
                    last_read_act = now_ms;
                    read_voted = false;
                    if write_act {
                        last_write_act = now_ms;
                        write_voted = false;
                    }
                }
                seen_written[ri] = written;
            }
            if matches!(op, Op::Poll { .. } | Op::Settle | Op::Read { .. }) && !sim.is_done() {
                if !sim.remotes.is_empty() && now_ms - last_write_act >= t_vote {
                    write_voted = true;
                }
                if now_ms - last_read_act >= t_vote {
                    read_voted = true;
                }
                if now_ms >= t_vote {
                    http_voted = true;
                }
            }
        }
        livelock |= !settle_bounded(&mut sim);
        let done_at_checkpoint = sim.is_done();
        let mut at_cp = vec![];
        for r in sim.remotes.iter_mut() {
            let fired = r.disconnection_reason().is_some();
            at_cp.push((r.frames.len(), r.sent.len(), fired));
        }
        if case.stop_at_end {
            sim.stop();
            livelock |= !settle_bounded(&mut sim);
        }
        dropped.resize(sim.remotes.len(), false);
        let done_at_end = sim.is_done();
        Obs {
            remotes: sim
                .remotes
                .iter_mut()
                .enumerate()
                .map(|(i, r)| RemoteObs {
                    frames: r.frames.clone(),
                    sent: r.sent.clone(),
                    dropped: dropped[i],
                    reason: r.disconnection_reason().map(|x| format!("{:?}", x)),
                    frames_at_checkpoint: at_cp[i].0,
                    sent_at_checkpoint: at_cp[i].1,
                    reason_at_checkpoint: at_cp[i].2,
                    decode_error: r.decode_error.clone(),
                })
                .collect(),
            trace: shared.trace(),
            wakes,
            done_at_checkpoint,
            done_at_end,
            result: sim.result.clone(),
            livelock,
            req_while_vote,
            coord_while_write_voted,
        }
    })
}

fn frame_len(f: &Frame) -> u64 {
    let body = match &f.kind {
        FrameKind::Event(b) => b.len(),
        FrameKind::Unlinked(Some(b)) => b.len(),
        _ => 0,
    };
    (32 + f.node.len() + f.lane.len() + body) as u64
}

fn key_text(k: &Key) -> String {
    match k {
        Key::I(i) => i.to_string(),
        Key::S(s) => s.clone(),
    }
}

pub fn check(case: &Case) -> Verdict {
    let obs = execute(case);
    let mut v = Verdict::new();
    if std::env::var("VERIF_DUMP").is_ok() {
        for (i, r) in obs.remotes.iter().enumerate() {
            eprintln!("remote {} dropped={} reason={:?} sent {:?}", i, r.dropped, r.reason, r.sent);
            for (k, f) in r.frames.iter().enumerate() {
                eprintln!("  frame{} {} {} {:?} {:?}{}", k, f.seq, f.lane, f.kind, f.body_str(), if k + 1 == r.frames_at_checkpoint { "  <-- checkpoint" } else { "" });
            }
        }
        eprintln!("trace {:?}", obs.trace);
        eprintln!("done_cp {} done_end {} result {:?}", obs.done_at_checkpoint, obs.done_at_end, obs.result);
    }
    if obs.livelock {
        v.fail("sim:livelock:system-never-idle", "the agent kept waking itself for 300000 polls without any input: the harness gave up waiting for quiescence");
        return v;
    }
    let ill_typed = obs.remotes.iter().any(|r| {
        r.sent.iter().any(|(lane, req, _, w)| match req {
            Req::Command(body) if w.is_some() => !well_formed_command(lane, &String::from_utf8_lossy(body)),
            _ => false,
        })
    });
    v.class_if(ill_typed, "ill-typed-command-delivered");
    v.class_if(
        obs.remotes.iter().any(|r| r.sent.iter().any(|(lane, req, _, _)| lane == "m0" && matches!(req, Req::Command(b) if MALFORMED_MAP.contains(&String::from_utf8_lossy(b).as_ref())))),
        "malformed-map-command",
    );
    if let Some(Err(e)) = &obs.result {
        // a command the lane cannot decode fails the agent task by design
        if !ill_typed {
            v.fail("sim:agent-task-error", format!("the agent task ended with an error: {}", e));
        }
    }
    // what the lanes produced, from the agent-side trace
    let mut value_hist: Vec<Vec<(u64, i64)>> = vec![vec![(0, 0)], vec![(0, 0)]];
    let mut map_updates: Vec<(u64, String, i64)> = vec![];
    let mut map_removes: Vec<(u64, String)> = vec![];
    let mut map_clears: Vec<u64> = vec![];
    let mut supplies: Vec<(u64, i64)> = vec![];
    let mut commands: Vec<(u64, i64)> = vec![];
    let mut progs: Vec<(u64, i32)> = vec![];
    for (s, ev) in &obs.trace {
        match ev {
            Ev::Value { lane, v } if (*lane as usize) < 2 => value_hist[*lane as usize].push((*s, *v)),
            Ev::Update { map: 0, k, v, .. } => map_updates.push((*s, key_text(k), *v)),
            Ev::Remove { map: 0, k, .. } => map_removes.push((*s, key_text(k))),
            Ev::Clear { map: 0, .. } => map_clears.push(*s),
            Ev::Command { v } => commands.push((*s, *v)),
            Ev::ProgBegin { idx } => {
                progs.push((*s, *idx));
                if let Some(p) = case.programs.get((*idx).max(0) as usize) {
                    for a in p {
                        if let Act::Supply { v } = a {
                            supplies.push((*s, *v));
                        }
                    }
                }
            }
            _ => {}
        }
    }

    let mut any_extra = false;
    let mut coalesced = false;
    let mut sessions_total = 0u64;
    let mut any_ghost = false;
    let mut stop_closed = false;
    for (ri, r) in obs.remotes.iter().enumerate() {
        if let Some(e) = &r.decode_error {
            v.fail("sim:remote-decode-error", format!("remote {}: {}", ri, e));
        }
        let alive_at_cp = !r.dropped && !r.reason_at_checkpoint;
        for f in &r.frames {
            if f.node != "/node" {
                v.fail("sim:wrong-node", format!("remote {} got a frame with node {:?}", ri, f.node));
            }
            if !LANES.contains(&f.lane.as_str()) {
                v.fail("sim:frame-for-unnamed-lane", format!("remote {} got a frame for lane {:?}", ri, f.lane));
            }
        }
        for (li, name) in LANES[..NREAL].iter().enumerate() {
            let link_reqs: Vec<u64> = r.sent.iter().filter(|(l, q, _, _)| l == name && *q == Req::Link).map(|s| s.2).collect();
            let sync_reqs: Vec<u64> = r.sent.iter().filter(|(l, q, _, _)| l == name && *q == Req::Sync).map(|s| s.2).collect();
            let before = |xs: &[u64], s: u64| xs.iter().filter(|x| **x < s).count() as u64;
            let mut open = false;
            let (mut linked, mut extra, mut explicit_openers, mut synced, mut sessions) = (0u64, 0u64, 0u64, 0u64, 0u64);
            let mut last_idx: Option<usize> = None;
            let mut seen = 0;
            for f in r.frames.iter().filter(|f| f.lane == *name) {
                seen += 1;
                let ctx = || format!("remote {} lane {} frame #{} {:?}", ri, name, seen, f);
                match &f.kind {
                    FrameKind::Linked => {
                        linked += 1;
                        // a sync request can link implicitly (once per targeted response; a map sync
                        // has up to 5 of them here)
                        if linked > before(&link_reqs, f.seq) + 6 * before(&sync_reqs, f.seq) {
                            v.fail("sim:linked-without-cause", format!("{}: more linked frames than link / sync requests can explain", ctx()));
                        }
                        if open {
                            extra += 1;
                            any_extra = true;
                        } else {
                            open = true;
                            sessions += 1;
                            if before(&sync_reqs, f.seq) == 0 {
                                explicit_openers += 1;
                            }
                        }
                        if extra + explicit_openers > before(&link_reqs, f.seq) {
                            v.fail(
                                "sim:extra-linked-unrequested",
                                format!("{}: {} linked inside open sessions + {} necessarily explicit sessions but only {} link requests", ctx(), extra, explicit_openers, before(&link_reqs, f.seq)),
                            );
                        }
                    }
                    FrameKind::Unlinked(_) => {
                        if !open {
                            v.fail("sim:unlinked-outside-session", format!("{}: unlinked although no link is open", ctx()));
                        }
                        open = false;
                        last_idx = None;
                    }
                    FrameKind::Synced => {
                        if !open {
                            v.fail("sim:synced-outside-session", format!("{}: synced while no link is open", ctx()));
                        }
                        synced += 1;
                        if synced > before(&sync_reqs, f.seq) {
                            v.fail("sim:synced-without-request", format!("{}: synced #{} but only {} sync requests before it", ctx(), synced, before(&sync_reqs, f.seq)));
                        }
                    }
                    FrameKind::Event(body) => {
                        if !open {
                            v.fail("sim:event-outside-session", format!("{}: event while no link is open", ctx()));
                        }
                        let text = String::from_utf8_lossy(body).to_string();
                        let num = text.trim().parse::<i64>().ok();
                        match li {
                            0 | 1 => {
                                let hist = &value_hist[li];
                                let cands: Vec<usize> = hist.iter().enumerate().filter(|(_, (s, x))| Some(*x) == num && *s < f.seq).map(|(i, _)| i).collect();
                                if cands.is_empty() {
                                    v.fail("sim:value:event-fabricated", format!("{}: body {:?} is not a value the lane held before the frame was read (history {:?})", ctx(), text, hist));
                                } else {
                                    let pick = match last_idx {
                                        Some(prev) => cands.iter().copied().find(|i| *i >= prev),
                                        None => Some(cands[0]),
                                    };
                                    match pick {
                                        None => v.fail("sim:value:reordered", format!("{}: value {:?} precedes the previous event's value in the lane's history {:?}", ctx(), text, hist)),
                                        Some(i) => {
                                            if let Some(prev) = last_idx {
                                                if i > prev + 1 {
                                                    coalesced = true;
                                                }
                                            }
                                            last_idx = Some(i);
                                        }
                                    }
                                }
                            }
                            2 => {
                                let ok = if text == "@clear" {
                                    map_clears.iter().any(|s| *s < f.seq)
                                } else if let Some(rest) = text.strip_prefix("@remove(key:") {
                                    let k = rest.trim_end_matches(')');
                                    map_removes.iter().any(|(s, kk)| *s < f.seq && kk == k)
                                } else if let Some(rest) = text.strip_prefix("@update(key:") {
                                    match rest.split_once(") ") {
                                        Some((k, val)) => map_updates.iter().any(|(s, kk, vv)| *s < f.seq && kk == k && Some(*vv) == val.trim().parse::<i64>().ok()),
                                        None => false,
                                    }
                                } else {
                                    false
                                };
                                if !ok {
                                    v.fail("sim:map:event-fabricated", format!("{}: body {:?} is not an operation the map lane performed before the frame was read", ctx(), text));
                                }
                            }
                            3 => {
                                // supply: exact FIFO (strictly increasing position, consecutive inside a session)
                                let cands: Vec<usize> = supplies.iter().enumerate().filter(|(_, (s, x))| Some(*x) == num && *s < f.seq).map(|(i, _)| i).collect();
                                if cands.is_empty() {
                                    v.fail("sim:supply:event-fabricated", format!("{}: body {:?} was never supplied before the frame was read", ctx(), text));
                                } else {
                                    // values are unique per program act but a program can run several
                                    // times: earliest occurrence after the previous one
                                    let pick = match last_idx {
                                        Some(prev) => cands.iter().copied().find(|i| *i > prev),
                                        None => Some(cands[0]),
                                    };
                                    match pick {
                                        None => v.fail("sim:supply:duplicate-or-reordered", format!("{}: value {:?} was already delivered in this session or precedes the previous one (supplied {:?})", ctx(), text, supplies)),
                                        Some(i) => last_idx = Some(i),
                                    }
                                }
                            }
                            4 => {
                                if !commands.iter().any(|(s, x)| Some(*x) == num && *s < f.seq) {
                                    v.fail("sim:command:event-fabricated", format!("{}: body {:?} is not a command the lane received", ctx(), text));
                                }
                            }
                            _ => {
                                if !progs.iter().any(|(s, x)| Some(*x as i64) == num && *s < f.seq) {
                                    v.fail("sim:command:event-fabricated", format!("{}: body {:?} is not a command the control lane received", ctx(), text));
                                }
                            }
                        }
                    }
                }
            }
            sessions_total += sessions;
            let served_to_the_end = matches!(r.reason.as_deref(), Some("Ok(AgentStoppedExternally)") | Some("Ok(AgentTimedOut)"));
            if obs.done_at_end && !r.dropped && served_to_the_end {
                if sessions > 0 {
                    stop_closed = true;
                }
                if open {
                    v.fail(
                        "sim:open-link-after-agent-stop",
                        format!("remote {} lane {}: the agent has stopped but the link was never closed with unlinked; frames {:?}", ri, name, r.frames.iter().filter(|f| f.lane == *name).map(|f| &f.kind).collect::<Vec<_>>()),
                    );
                }
            }
        }
        for g in &LANES[NREAL..] {
            let frames: Vec<(usize, &Frame)> = r.frames.iter().enumerate().filter(|(_, f)| f.lane == *g).collect();
            let reqs: Vec<&(String, Req, u64, Option<u64>)> = r.sent.iter().filter(|(l, q, _, _)| l == g && !matches!(q, Req::Command(_))).collect();
            if !reqs.is_empty() {
                any_ghost = true;
            }
            for (k, (_, f)) in frames.iter().enumerate() {
                if f.kind != FrameKind::Unlinked(Some(LANE_NOT_FOUND.to_vec())) {
                    v.fail("sim:ghost:wrong-frame", format!("remote {}: frame for the non-existent lane {} is not unlinked @laneNotFound: {:?}", ri, g, f));
                }
                match reqs.get(k) {
                    None => v.fail("sim:ghost:more-answers-than-requests", format!("remote {}: {} lane-not-found frames for {} but {} link/sync/unlink requests", ri, frames.len(), g, reqs.len())),
                    Some(req) => {
                        if f.seq < req.2 {
                            v.fail("sim:ghost:answer-before-request", format!("remote {}: lane-not-found #{} for {} precedes request #{}", ri, k + 1, g, k + 1));
                        }
                    }
                }
            }
            if alive_at_cp && !obs.done_at_checkpoint {
                let must = r.sent[..r.sent_at_checkpoint].iter().filter(|(l, q, _, w)| l == g && matches!(q, Req::Link | Req::Sync) && w.is_some()).count();
                let got = frames.iter().filter(|(i, _)| *i < r.frames_at_checkpoint).count();
                if got < must {
                    v.fail("sim:ghost:missing-lane-not-found", format!("remote {}: {} link/sync requests for the non-existent lane {} were delivered but only {} answers arrived by quiescence", ri, must, g, got));
                }
            }
        }
    }
    let mut nt = false;
    for w in &obs.wakes {
        let r = &obs.remotes[w.remote];
        let mut off = 0u64;
        let (mut specials_written, mut synced_written) = (0u64, 0u64);
        for f in &r.frames {
            if off >= w.written {
                break;
            }
            match &f.kind {
                FrameKind::Linked => specials_written += 1,
                FrameKind::Unlinked(_) if LANES[NREAL..].contains(&f.lane.as_str()) => specials_written += 1,
                FrameKind::Synced => synced_written += 1,
                _ => {}
            }
            off += frame_len(f);
        }
        let specials_caused = r
            .sent
            .iter()
            .filter(|(l, q, _, wr)| {
                wr.map(|x| x < w.seq).unwrap_or(false)
                    && ((LANES[..NREAL].contains(&l.as_str()) && *q == Req::Link) || (LANES[NREAL..].contains(&l.as_str()) && !matches!(q, Req::Command(_))))
            })
            .count() as u64;
        // value, map and supply lanes answer every sync with a synced marker as soon as they run
        let synced_caused = r
            .sent
            .iter()
            .filter(|(l, q, _, wr)| wr.map(|x| x < w.seq).unwrap_or(false) && *q == Req::Sync && ["v0", "v1", "m0", "sup"].contains(&l.as_str()))
            .count() as u64;
        if specials_caused > specials_written || synced_caused > synced_written {
            nt = true;
        }
    }
    if nt {
        v.nontrivial();
    }
    v.class_if(nt, "special-or-synced-queued-behind-busy-writer");
    v.class_if(!obs.wakes.is_empty(), "writer-parked-observed");
    v.class_if(obs.req_while_vote, "request-while-stop-vote-outstanding(model)");
    v.class_if(obs.coord_while_write_voted, "write-scheduled-while-write-task-voted(model)");
    v.class_if(
        obs.coord_while_write_voted && obs.remotes.iter().any(|r| r.reason.as_deref() == Some("Ok(AgentTimedOut)")),
        "write-scheduled-in-vote-window-and-stop-was-unanimous",
    );
    v.class_if(obs.trace.iter().any(|(_, e)| matches!(e, Ev::Stop)), "agent-ran-on_stop");
    v.class_if(any_extra, "repeated-link");
    v.class_if(coalesced, "value-coalesced");
    v.class_if(any_ghost, "unknown-lane-request");
    v.class_if(stop_closed, "agent-stop-with-sessions");
    v.class_if(sessions_total >= 3, "sessions>=3");
    v.class_if(obs.remotes.iter().any(|r| r.dropped), "remote-dropped");
    v.class_if(obs.remotes.iter().any(|r| r.reason.as_deref() == Some("Ok(RemoteTimedOut)")), "remote-pruned");
    v.class_if(obs.remotes.iter().any(|r| r.reason.as_deref() == Some("Ok(AgentTimedOut)")), "agent-timed-out");
    v
}
