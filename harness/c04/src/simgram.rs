//! Second sub-check: the same session grammar on the real `SimAgent` (real lanes: value, map, supply,
//! command) inside the real runtime. Lane output is whatever the real lanes produce, so the body laws
//! are stated against the agent-side trace.

use proptest::prelude::*;
use serde::{Deserialize, Serialize};
use std::sync::atomic::AtomicU64;
use std::sync::Arc;
use vcommon::{pick_index, Verdict};
use vsim::agent::{make_agent, Act, AgentFlags, Ev, Key, Shared};
use vsim::{apply_op, arb_cap, arb_nbytes, arb_sched_op, arb_small_cap, block_on_paused, Frame, FrameKind, Op, Req, Sim, SimParams};

/// Lanes addressed by the ops; the last two do not exist.
const LANES: [&str; 8] = ["v0", "v1", "m0", "sup", "cmd", "ctl", "ghost", "v00"];
const NREAL: usize = 6;
const LANE_NOT_FOUND: &[u8] = b"@laneNotFound";

#[derive(Clone, Debug, Serialize, Deserialize)]
pub struct Case {
    pub params: SimParams,
    pub programs: Vec<Vec<Act>>,
    pub ops: Vec<Op>,
    /// end the case with the stop trigger (otherwise the agent is left running)
    pub stop_at_end: bool,
}

fn arb_act() -> impl Strategy<Value = Act> {
    prop_oneof![
        3 => (0u8..2).prop_map(|lane| Act::SetV { lane, v: 0 }),
        3 => (0i32..4).prop_map(|k| Act::Upd { map: 0, k, v: 0 }),
        1 => (0i32..4).prop_map(|k| Act::Rem { map: 0, k }),
        1 => Just(Act::Clr { map: 0 }),
        5 => Just(Act::Supply { v: 0 }),
    ]
}

fn arb_lane() -> impl Strategy<Value = u8> {
    prop_oneof![10 => 0u8..NREAL as u8, 1 => NREAL as u8..LANES.len() as u8]
}

fn arb_op(nprogs: usize) -> impl Strategy<Value = Op> {
    prop_oneof![
        2 => (arb_small_cap(), arb_small_cap()).prop_map(|(in_cap, out_cap)| Op::Attach { in_cap, out_cap }),
        6 => (any::<u16>(), arb_lane()).prop_map(|(r, lane)| Op::Link { r, lane }),
        5 => (any::<u16>(), arb_lane()).prop_map(|(r, lane)| Op::Sync { r, lane }),
        4 => (any::<u16>(), arb_lane()).prop_map(|(r, lane)| Op::Unlink { r, lane }),
        5 => (any::<u16>(), 0u8..2).prop_map(|(r, lane)| Op::Cmd { r, lane, body: String::new() }),
        3 => (any::<u16>(), 0i32..4).prop_map(|(r, k)| Op::Cmd { r, lane: 2, body: format!("@update(key:{}) #", k) }),
        1 => (any::<u16>(), 0i32..4).prop_map(|(r, k)| Op::Cmd { r, lane: 2, body: format!("@remove(key:{})", k) }),
        1 => any::<u16>().prop_map(|r| Op::Cmd { r, lane: 2, body: "@clear".to_string() }),
        2 => any::<u16>().prop_map(|r| Op::Cmd { r, lane: 4, body: String::new() }),
        5 => (any::<u16>(), 0..nprogs.max(1)).prop_map(|(r, p)| Op::Cmd { r, lane: 5, body: p.to_string() }),
        1 => any::<u16>().prop_map(|r| Op::Cmd { r, lane: 6, body: "1".to_string() }),
        24 => arb_sched_op(),
        6 => (any::<u16>(), arb_nbytes()).prop_map(|(r, n)| Op::Read { r, n }),
    ]
}

fn arb_fault() -> impl Strategy<Value = Op> {
    prop_oneof![
        2 => Just(Op::Stop),
        2 => Just(Op::Advance { ms: 400 }),
        2 => any::<u16>().prop_map(|r| Op::Drop { r }),
    ]
}

pub fn arb_case(max_ops: usize) -> impl Strategy<Value = Case> {
    let progs = proptest::collection::vec(proptest::collection::vec(arb_act(), 1..6), 1..4);
    (
        any::<u64>(),
        prop_oneof![Just(1usize), Just(2), Just(16)],
        arb_cap(),
        arb_cap(),
        prop_oneof![Just(2usize), Just(3), Just(8), Just(64)],
        prop_oneof![1 => Just(300u64), 3 => Just(10_000_000u64)],
        prop_oneof![1 => Just(200u64), 2 => Just(30_000u64)],
        progs,
        any::<bool>(),
    )
        .prop_flat_map(move |(seed, aq, lin, lout, budget, inactive, prune, programs, stop_at_end)| {
            let n = programs.len();
            (
                Just((seed, aq, lin, lout, budget, inactive, prune, programs, stop_at_end)),
                proptest::collection::vec(arb_op(n), 1..max_ops),
                proptest::collection::vec((any::<u16>(), arb_fault()), 0..2),
            )
        })
        .prop_map(|((seed, aq, lin, lout, budget, inactive, prune, mut programs, stop_at_end), mut ops, faults)| {
            for (pos, f) in faults {
                let at = pick_index(pos, ops.len() + 1);
                ops.insert(at, f);
            }
            let mut next = 1i64;
            for p in programs.iter_mut() {
                for a in p.iter_mut() {
                    match a {
                        Act::SetV { v, .. } | Act::Upd { v, .. } | Act::Supply { v } => {
                            *v = 1_000_000 + next;
                            next += 1;
                        }
                        _ => {}
                    }
                }
            }
            for op in ops.iter_mut() {
                if let Op::Cmd { lane, body, .. } = op {
                    if *lane < 2 || *lane == 4 {
                        *body = next.to_string();
                        next += 1;
                    } else if *lane == 2 && body.ends_with('#') {
                        body.pop();
                        body.push_str(&next.to_string());
                        next += 1;
                    }
                }
            }
            let mut all = vec![Op::Attach { in_cap: 64, out_cap: 16 }];
            all.extend(ops);
            Case {
                params: SimParams {
                    seed,
                    attachment_queue: aq,
                    lane_in_buf: lin.max(8),
                    lane_out_buf: lout.max(8),
                    budget,
                    inactive_timeout_ms: inactive,
                    prune_remote_delay_ms: prune,
                    shutdown_timeout_ms: 1_000_000_000,
                    ..SimParams::default()
                },
                programs,
                ops: all,
                stop_at_end,
            }
        })
}

struct Wake {
    remote: usize,
    seq: u64,
    written: u64,
}

struct RemoteObs {
    frames: Vec<Frame>,
    sent: Vec<(String, Req, u64, Option<u64>)>,
    dropped: bool,
    reason: Option<String>,
    frames_at_checkpoint: usize,
    sent_at_checkpoint: usize,
    reason_at_checkpoint: bool,
    decode_error: Option<String>,
}

struct Obs {
    remotes: Vec<RemoteObs>,
    trace: Vec<(u64, Ev)>,
    wakes: Vec<Wake>,
    done_at_checkpoint: bool,
    done_at_end: bool,
    result: Option<Result<(), String>>,
}

fn execute(case: &Case) -> Obs {
    block_on_paused(case.params.seed, async {
        let clock = Arc::new(AtomicU64::new(1));
        let shared = Shared::new(clock.clone(), case.programs.clone(), AgentFlags::default());
        let agent = make_agent(shared.clone());
        let mut sim = Sim::start(&agent, &case.params, clock, None);
        sim.run_until_idle();
        let mut wakes = vec![];
        let mut dropped: Vec<bool> = vec![];
        for op in &case.ops {
            match op {
                Op::Read { r, n } if !sim.remotes.is_empty() => {
                    // poll to idle first: a read that wakes an idle system found the writer parked
                    sim.poll(10_000);
                    let idx = pick_index(*r, sim.remotes.len());
                    let idle = !sim.is_woken() && !sim.is_done();
                    let before = sim.remotes[idx].bytes_read;
                    let cap = sim.remotes[idx].out_cap as u64;
                    let got = sim.remotes[idx].read(*n);
                    if idle && got > 0 && sim.is_woken() {
                        wakes.push(Wake {
                            remote: idx,
                            seq: sim.now(),
                            written: before + cap,
                        });
                    }
                }
                Op::Drop { r } if !sim.remotes.is_empty() => {
                    let idx = pick_index(*r, sim.remotes.len());
                    dropped.resize(sim.remotes.len(), false);
                    dropped[idx] = true;
                    sim.remotes[idx].disconnect();
                }
                op => apply_op(&mut sim, &LANES, op).await,
            }
        }
        sim.settle();
        let done_at_checkpoint = sim.is_done();
        let mut at_cp = vec![];
        for r in sim.remotes.iter_mut() {
            let fired = r.disconnection_reason().is_some();
            at_cp.push((r.frames.len(), r.sent.len(), fired));
        }
        if case.stop_at_end {
            sim.stop();
            sim.settle();
        }
        dropped.resize(sim.remotes.len(), false);
        let done_at_end = sim.is_done();
        Obs {
            remotes: sim
                .remotes
                .iter_mut()
                .enumerate()
                .map(|(i, r)| RemoteObs {
                    frames: r.frames.clone(),
                    sent: r.sent.clone(),
                    dropped: dropped[i],
                    reason: r.disconnection_reason().map(|x| format!("{:?}", x)),
                    frames_at_checkpoint: at_cp[i].0,
                    sent_at_checkpoint: at_cp[i].1,
                    reason_at_checkpoint: at_cp[i].2,
                    decode_error: r.decode_error.clone(),
                })
                .collect(),
            trace: shared.trace(),
            wakes,
            done_at_checkpoint,
            done_at_end,
            result: sim.result.clone(),
        }
    })
}

fn frame_len(f: &Frame) -> u64 {
    let body = match &f.kind {
        FrameKind::Event(b) => b.len(),
        FrameKind::Unlinked(Some(b)) => b.len(),
        _ => 0,
    };
    (32 + f.node.len() + f.lane.len() + body) as u64
}

fn key_text(k: &Key) -> String {
    match k {
        Key::I(i) => i.to_string(),
        Key::S(s) => s.clone(),
    }
}

pub fn check(case: &Case) -> Verdict {
    let obs = execute(case);
    let mut v = Verdict::new();
    if std::env::var("VERIF_DUMP").is_ok() {
        for (i, r) in obs.remotes.iter().enumerate() {
            eprintln!("remote {} dropped={} reason={:?} sent {:?}", i, r.dropped, r.reason, r.sent);
            for (k, f) in r.frames.iter().enumerate() {
                eprintln!("  frame{} {} {} {:?} {:?}{}", k, f.seq, f.lane, f.kind, f.body_str(), if k + 1 == r.frames_at_checkpoint { "  <-- checkpoint" } else { "" });
            }
        }
        eprintln!("trace {:?}", obs.trace);
        eprintln!("done_cp {} done_end {} result {:?}", obs.done_at_checkpoint, obs.done_at_end, obs.result);
    }
    if let Some(Err(e)) = &obs.result {
        v.fail("sim:agent-task-error", format!("the agent task ended with an error: {}", e));
    }
    // what the lanes produced, from the agent-side trace
    let mut value_hist: Vec<Vec<(u64, i64)>> = vec![vec![(0, 0)], vec![(0, 0)]];
    let mut map_updates: Vec<(u64, String, i64)> = vec![];
    let mut map_removes: Vec<(u64, String)> = vec![];
    let mut map_clears: Vec<u64> = vec![];
    let mut supplies: Vec<(u64, i64)> = vec![];
    let mut commands: Vec<(u64, i64)> = vec![];
    let mut progs: Vec<(u64, i32)> = vec![];
    for (s, ev) in &obs.trace {
        match ev {
            Ev::Value { lane, v } if (*lane as usize) < 2 => value_hist[*lane as usize].push((*s, *v)),
            Ev::Update { map: 0, k, v, .. } => map_updates.push((*s, key_text(k), *v)),
            Ev::Remove { map: 0, k, .. } => map_removes.push((*s, key_text(k))),
            Ev::Clear { map: 0, .. } => map_clears.push(*s),
            Ev::Command { v } => commands.push((*s, *v)),
            Ev::ProgBegin { idx } => {
                progs.push((*s, *idx));
                if let Some(p) = case.programs.get((*idx).max(0) as usize) {
                    for a in p {
                        if let Act::Supply { v } = a {
                            supplies.push((*s, *v));
                        }
                    }
                }
            }
            _ => {}
        }
    }

    let mut any_extra = false;
    let mut coalesced = false;
    let mut sessions_total = 0u64;
    let mut any_ghost = false;
    let mut stop_closed = false;
    for (ri, r) in obs.remotes.iter().enumerate() {
        if let Some(e) = &r.decode_error {
            v.fail("sim:remote-decode-error", format!("remote {}: {}", ri, e));
        }
        let alive_at_cp = !r.dropped && !r.reason_at_checkpoint;
        for f in &r.frames {
            if f.node != "/node" {
                v.fail("sim:wrong-node", format!("remote {} got a frame with node {:?}", ri, f.node));
            }
            if !LANES.contains(&f.lane.as_str()) {
                v.fail("sim:frame-for-unnamed-lane", format!("remote {} got a frame for lane {:?}", ri, f.lane));
            }
        }
        for (li, name) in LANES[..NREAL].iter().enumerate() {
            let link_reqs: Vec<u64> = r.sent.iter().filter(|(l, q, _, _)| l == name && *q == Req::Link).map(|s| s.2).collect();
            let sync_reqs: Vec<u64> = r.sent.iter().filter(|(l, q, _, _)| l == name && *q == Req::Sync).map(|s| s.2).collect();
            let before = |xs: &[u64], s: u64| xs.iter().filter(|x| **x < s).count() as u64;
            let mut open = false;
            let (mut linked, mut extra, mut explicit_openers, mut synced, mut sessions) = (0u64, 0u64, 0u64, 0u64, 0u64);
            let mut last_idx: Option<usize> = None;
            let mut seen = 0;
            for f in r.frames.iter().filter(|f| f.lane == *name) {
                seen += 1;
                let ctx = || format!("remote {} lane {} frame #{} {:?}", ri, name, seen, f);
                match &f.kind {
                    FrameKind::Linked => {
                        linked += 1;
                        // a sync request can link implicitly (once per targeted response; a map sync
                        // has up to 5 of them here)
                        if linked > before(&link_reqs, f.seq) + 6 * before(&sync_reqs, f.seq) {
                            v.fail("sim:linked-without-cause", format!("{}: more linked frames than link / sync requests can explain", ctx()));
                        }
                        if open {
                            extra += 1;
                            any_extra = true;
                        } else {
                            open = true;
                            sessions += 1;
                            if before(&sync_reqs, f.seq) == 0 {
                                explicit_openers += 1;
                            }
                        }
                        if extra + explicit_openers > before(&link_reqs, f.seq) {
                            v.fail(
                                "sim:extra-linked-unrequested",
                                format!("{}: {} linked inside open sessions + {} necessarily explicit sessions but only {} link requests", ctx(), extra, explicit_openers, before(&link_reqs, f.seq)),
                            );
                        }
                    }
                    FrameKind::Unlinked(_) => {
                        if !open {
                            v.fail("sim:unlinked-outside-session", format!("{}: unlinked although no link is open", ctx()));
                        }
                        open = false;
                        last_idx = None;
                    }
                    FrameKind::Synced => {
                        if !open {
                            v.fail("sim:synced-outside-session", format!("{}: synced while no link is open", ctx()));
                        }
                        synced += 1;
                        if synced > before(&sync_reqs, f.seq) {
                            v.fail("sim:synced-without-request", format!("{}: synced #{} but only {} sync requests before it", ctx(), synced, before(&sync_reqs, f.seq)));
                        }
                    }
                    FrameKind::Event(body) => {
                        if !open {
                            v.fail("sim:event-outside-session", format!("{}: event while no link is open", ctx()));
                        }
                        let text = String::from_utf8_lossy(body).to_string();
                        let num = text.trim().parse::<i64>().ok();
                        match li {
                            0 | 1 => {
                                let hist = &value_hist[li];
                                let cands: Vec<usize> = hist.iter().enumerate().filter(|(_, (s, x))| Some(*x) == num && *s < f.seq).map(|(i, _)| i).collect();
                                if cands.is_empty() {
                                    v.fail("sim:value:event-fabricated", format!("{}: body {:?} is not a value the lane held before the frame was read (history {:?})", ctx(), text, hist));
                                } else {
                                    let pick = match last_idx {
                                        Some(prev) => cands.iter().copied().find(|i| *i >= prev),
                                        None => Some(cands[0]),
                                    };
                                    match pick {
                                        None => v.fail("sim:value:reordered", format!("{}: value {:?} precedes the previous event's value in the lane's history {:?}", ctx(), text, hist)),
                                        Some(i) => {
                                            if let Some(prev) = last_idx {
                                                if i > prev + 1 {
                                                    coalesced = true;
                                                }
                                            }
                                            last_idx = Some(i);
                                        }
                                    }
                                }
                            }
                            2 => {
                                let ok = if text == "@clear" {
                                    map_clears.iter().any(|s| *s < f.seq)
                                } else if let Some(rest) = text.strip_prefix("@remove(key:") {
                                    let k = rest.trim_end_matches(')');
                                    map_removes.iter().any(|(s, kk)| *s < f.seq && kk == k)
                                } else if let Some(rest) = text.strip_prefix("@update(key:") {
                                    match rest.split_once(") ") {
                                        Some((k, val)) => map_updates.iter().any(|(s, kk, vv)| *s < f.seq && kk == k && Some(*vv) == val.trim().parse::<i64>().ok()),
                                        None => false,
                                    }
                                } else {
                                    false
                                };
                                if !ok {
                                    v.fail("sim:map:event-fabricated", format!("{}: body {:?} is not an operation the map lane performed before the frame was read", ctx(), text));
                                }
                            }
                            3 => {
                                // supply: exact FIFO (strictly increasing position, consecutive inside a session)
                                let cands: Vec<usize> = supplies.iter().enumerate().filter(|(_, (s, x))| Some(*x) == num && *s < f.seq).map(|(i, _)| i).collect();
                                if cands.is_empty() {
                                    v.fail("sim:supply:event-fabricated", format!("{}: body {:?} was never supplied before the frame was read", ctx(), text));
                                } else {
                                    // values are unique per program act but a program can run several
                                    // times: earliest occurrence after the previous one
                                    let pick = match last_idx {
                                        Some(prev) => cands.iter().copied().find(|i| *i > prev),
                                        None => Some(cands[0]),
                                    };
                                    match pick {
                                        None => v.fail("sim:supply:duplicate-or-reordered", format!("{}: value {:?} was already delivered in this session or precedes the previous one (supplied {:?})", ctx(), text, supplies)),
                                        Some(i) => last_idx = Some(i),
                                    }
                                }
                            }
                            4 => {
                                if !commands.iter().any(|(s, x)| Some(*x) == num && *s < f.seq) {
                                    v.fail("sim:command:event-fabricated", format!("{}: body {:?} is not a command the lane received", ctx(), text));
                                }
                            }
                            _ => {
                                if !progs.iter().any(|(s, x)| Some(*x as i64) == num && *s < f.seq) {
                                    v.fail("sim:command:event-fabricated", format!("{}: body {:?} is not a command the control lane received", ctx(), text));
                                }
                            }
                        }
                    }
                }
            }
            sessions_total += sessions;
            let served_to_the_end = matches!(r.reason.as_deref(), Some("Ok(AgentStoppedExternally)") | Some("Ok(AgentTimedOut)"));
            if obs.done_at_end && !r.dropped && served_to_the_end {
                if sessions > 0 {
                    stop_closed = true;
                }
                if open {
                    v.fail(
                        "sim:open-link-after-agent-stop",
                        format!("remote {} lane {}: the agent has stopped but the link was never closed with unlinked; frames {:?}", ri, name, r.frames.iter().filter(|f| f.lane == *name).map(|f| &f.kind).collect::<Vec<_>>()),
                    );
                }
            }
        }
        for g in &LANES[NREAL..] {
            let frames: Vec<(usize, &Frame)> = r.frames.iter().enumerate().filter(|(_, f)| f.lane == *g).collect();
            let reqs: Vec<&(String, Req, u64, Option<u64>)> = r.sent.iter().filter(|(l, q, _, _)| l == g && !matches!(q, Req::Command(_))).collect();
            if !reqs.is_empty() {
                any_ghost = true;
            }
            for (k, (_, f)) in frames.iter().enumerate() {
                if f.kind != FrameKind::Unlinked(Some(LANE_NOT_FOUND.to_vec())) {
                    v.fail("sim:ghost:wrong-frame", format!("remote {}: frame for the non-existent lane {} is not unlinked @laneNotFound: {:?}", ri, g, f));
                }
                match reqs.get(k) {
                    None => v.fail("sim:ghost:more-answers-than-requests", format!("remote {}: {} lane-not-found frames for {} but {} link/sync/unlink requests", ri, frames.len(), g, reqs.len())),
                    Some(req) => {
                        if f.seq < req.2 {
                            v.fail("sim:ghost:answer-before-request", format!("remote {}: lane-not-found #{} for {} precedes request #{}", ri, k + 1, g, k + 1));
                        }
                    }
                }
            }
            if alive_at_cp && !obs.done_at_checkpoint {
                let must = r.sent[..r.sent_at_checkpoint].iter().filter(|(l, q, _, w)| l == g && matches!(q, Req::Link | Req::Sync) && w.is_some()).count();
                let got = frames.iter().filter(|(i, _)| *i < r.frames_at_checkpoint).count();
                if got < must {
                    v.fail("sim:ghost:missing-lane-not-found", format!("remote {}: {} link/sync requests for the non-existent lane {} were delivered but only {} answers arrived by quiescence", ri, must, g, got));
                }
            }
        }
    }
    let mut nt = false;
    for w in &obs.wakes {
        let r = &obs.remotes[w.remote];
        let mut off = 0u64;
        let (mut specials_written, mut synced_written) = (0u64, 0u64);
        for f in &r.frames {
            if off >= w.written {
                break;
            }
            match &f.kind {
                FrameKind::Linked => specials_written += 1,
                FrameKind::Unlinked(_) if LANES[NREAL..].contains(&f.lane.as_str()) => specials_written += 1,
                FrameKind::Synced => synced_written += 1,
                _ => {}
            }
            off += frame_len(f);
        }
        let specials_caused = r
            .sent
            .iter()
            .filter(|(l, q, _, wr)| {
                wr.map(|x| x < w.seq).unwrap_or(false)
                    && ((LANES[..NREAL].contains(&l.as_str()) && *q == Req::Link) || (LANES[NREAL..].contains(&l.as_str()) && !matches!(q, Req::Command(_))))
            })
            .count() as u64;
        // value, map and supply lanes answer every sync with a synced marker as soon as they run
        let synced_caused = r
            .sent
            .iter()
            .filter(|(l, q, _, wr)| wr.map(|x| x < w.seq).unwrap_or(false) && *q == Req::Sync && ["v0", "v1", "m0", "sup"].contains(&l.as_str()))
            .count() as u64;
        if specials_caused > specials_written || synced_caused > synced_written {
            nt = true;
        }
    }
    if nt {
        v.nontrivial();
    }
    v.class_if(nt, "special-or-synced-queued-behind-busy-writer");
    v.class_if(!obs.wakes.is_empty(), "writer-parked-observed");
    v.class_if(any_extra, "repeated-link");
    v.class_if(coalesced, "value-coalesced");
    v.class_if(any_ghost, "unknown-lane-request");
    v.class_if(stop_closed, "agent-stop-with-sessions");
    v.class_if(sessions_total >= 3, "sessions>=3");
    v.class_if(obs.remotes.iter().any(|r| r.dropped), "remote-dropped");
    v.class_if(obs.remotes.iter().any(|r| r.reason.as_deref() == Some("Ok(RemoteTimedOut)")), "remote-pruned");
    v.class_if(obs.remotes.iter().any(|r| r.reason.as_deref() == Some("Ok(AgentTimedOut)")), "agent-timed-out");
    v
}
