//! Sub-check (a): every item pushed to a supply lane is delivered exactly once, in push order, to
//! every remote linked at that time, however slow the remote is.

use proptest::prelude::*;
use serde::{Deserialize, Serialize};
use std::collections::HashMap;
use std::sync::atomic::AtomicU64;
use std::sync::Arc;
use std::time::Duration;
use vcommon::{pick_index, Verdict};
use vsim::agent::{make_agent, Act, AgentFlags, Ev, Shared};
use vsim::{arb_cap, arb_nbytes, arb_small_cap, block_on_paused, Frame, FrameKind, Req, Sim, SimParams};

const LANES: [&str; 2] = ["sup", "v0"];

#[derive(Clone, Debug, PartialEq, Eq, Serialize, Deserialize)]
pub enum SOp {
    Attach { in_cap: usize, out_cap: usize },
    /// lane 0 = sup, 1 = v0 (value lane sharing the remote's writer)
    Link { r: u16, lane: u8 },
    Sync { r: u16, lane: u8 },
    Unlink { r: u16, lane: u8 },
    /// Remote r asks the control lane to run a fresh program pushing n unique items to `sup`
    /// (setv > 0: the program also sets v0 before every setv-th item).
    Burst { r: u16, n: u16, setv: u8 },
    Pump { r: u16, n: usize },
    Read { r: u16, n: usize },
    Poll { k: usize },
    Settle,
    Advance { ms: u64 },
    Drop { r: u16 },
}

#[derive(Clone, Debug, Serialize, Deserialize)]
pub struct SCase {
    pub params: SimParams,
    pub ops: Vec<SOp>,
}

pub fn arb_params() -> impl Strategy<Value = SimParams> {
    (
        any::<u64>(),
        prop_oneof![Just(1usize), Just(2), Just(4), Just(16)],
        arb_cap(),
        arb_cap(),
        prop_oneof![Just(2usize), Just(3), Just(8), Just(64)],
    )
        .prop_map(|(seed, attachment_queue, lane_in_buf, lane_out_buf, budget)| SimParams {
            seed,
            attachment_queue,
            lane_in_buf: lane_in_buf.max(8),
            lane_out_buf: lane_out_buf.max(8),
            budget,
            inactive_timeout_ms: 3_600_000,
            prune_remote_delay_ms: 3_600_000,
            ..SimParams::default()
        })
}

fn arb_burst_len() -> impl Strategy<Value = u16> {
    prop_oneof![3 => 1u16..8, 4 => 8u16..60, 2 => 60u16..200, 1 => 200u16..=500]
}

fn arb_sop() -> impl Strategy<Value = SOp> {
    let lane = prop_oneof![5 => Just(0u8), 1 => Just(1u8)];
    prop_oneof![
        2 => (arb_small_cap(), arb_small_cap()).prop_map(|(in_cap, out_cap)| SOp::Attach { in_cap: in_cap.max(8), out_cap }),
        5 => (any::<u16>(), lane.clone()).prop_map(|(r, lane)| SOp::Link { r, lane }),
        1 => (any::<u16>(), lane.clone()).prop_map(|(r, lane)| SOp::Sync { r, lane }),
        2 => (any::<u16>(), lane).prop_map(|(r, lane)| SOp::Unlink { r, lane }),
        5 => (any::<u16>(), arb_burst_len(), prop_oneof![3 => Just(0u8), 1 => 1u8..6]).prop_map(|(r, n, setv)| SOp::Burst { r, n, setv }),
        5 => (any::<u16>(), arb_nbytes()).prop_map(|(r, n)| SOp::Pump { r, n }),
        3 => any::<u16>().prop_map(|r| SOp::Pump { r, n: usize::MAX }),
        6 => (any::<u16>(), arb_nbytes()).prop_map(|(r, n)| SOp::Read { r, n }),
        6 => (1usize..8).prop_map(|k| SOp::Poll { k }),
        4 => Just(SOp::Poll { k: 100_000 }),
        1 => Just(SOp::Settle),
        1 => (1u64..200).prop_map(|ms| SOp::Advance { ms }),
        1 => any::<u16>().prop_map(|r| SOp::Drop { r }),
    ]
}

pub fn arb_case(max_ops: usize) -> impl Strategy<Value = SCase> {
    (arb_params(), proptest::collection::vec(arb_sop(), 2..max_ops)).prop_map(|(params, ops)| {
        // every case starts with a remote that is linked to the supply lane and has read `linked`
        let mut all = vec![
            SOp::Attach { in_cap: 64, out_cap: 16 },
            SOp::Link { r: 0, lane: 0 },
            SOp::Settle,
        ];
        all.extend(ops);
        SCase { params, ops: all }
    })
}

fn programs_of(case: &SCase) -> Vec<Vec<Act>> {
    let mut programs = vec![];
    for op in &case.ops {
        if let SOp::Burst { n, setv, .. } = op {
            let k = programs.len() as i64;
            let mut prog = vec![];
            for i in 0..(*n as i64) {
                let v = (k + 1) * 1000 + i;
                if *setv > 0 && i % (*setv as i64) == 0 {
                    prog.push(Act::SetV { lane: 0, v });
                }
                prog.push(Act::Supply { v });
            }
            programs.push(prog);
        }
    }
    programs
}

struct RemoteObs {
    frames: Vec<Frame>,
    sent: Vec<(String, Req, u64, Option<u64>)>,
    out_cap: usize,
    dropped_at: Option<u64>,
    /// seq of every harness op in which this remote read at least one byte
    reads: Vec<u64>,
    decode_error: Option<String>,
}

struct Obs {
    remotes: Vec<RemoteObs>,
    trace: Vec<(u64, Ev)>,
    idle: Vec<u64>,
    result: Option<Result<(), String>>,
}

fn execute(case: &SCase) -> Obs {
    block_on_paused(case.params.seed, async {
        let clock = Arc::new(AtomicU64::new(1));
        let shared = Shared::new(clock.clone(), programs_of(case), AgentFlags::default());
        let agent = make_agent(shared.clone());
        let mut sim = Sim::start(&agent, &case.params, clock, None);
        sim.run_until_idle();
        let mut idle = vec![];
        let mut dropped: Vec<Option<u64>> = vec![];
        let mut reads: Vec<Vec<u64>> = vec![];
        let mut last_read: Vec<u64> = vec![];
        let mut next_prog = 0usize;
        let note_reads = |sim: &Sim, reads: &mut Vec<Vec<u64>>, last_read: &mut Vec<u64>| {
            for (i, r) in sim.remotes.iter().enumerate() {
                if r.bytes_read != last_read[i] {
                    last_read[i] = r.bytes_read;
                    reads[i].push(sim.tick());
                }
            }
        };
        for op in &case.ops {
            let nrem = sim.remotes.len();
            let ridx = |r: u16| pick_index(r, nrem);
            let lane_name = |l: u8| LANES[(l as usize) % LANES.len()];
            match op {
                SOp::Attach { in_cap, out_cap } => {
                    if nrem < 4 {
                        sim.attach(*in_cap, *out_cap);
                        dropped.push(None);
                        reads.push(vec![]);
                        last_read.push(0);
                    }
                }
                SOp::Link { r, lane } if nrem > 0 => sim.remotes[ridx(*r)].send(lane_name(*lane), Req::Link),
                SOp::Sync { r, lane } if nrem > 0 => sim.remotes[ridx(*r)].send(lane_name(*lane), Req::Sync),
                SOp::Unlink { r, lane } if nrem > 0 => sim.remotes[ridx(*r)].send(lane_name(*lane), Req::Unlink),
                SOp::Burst { r, .. } => {
                    // the program index is consumed even when there is no remote to send it
                    let body = next_prog.to_string().into_bytes();
                    next_prog += 1;
                    if nrem > 0 {
                        sim.remotes[ridx(*r)].send("ctl", Req::Command(body));
                    }
                }
                SOp::Pump { r, n } if nrem > 0 => {
                    sim.remotes[ridx(*r)].pump(*n);
                }
                SOp::Read { r, n } if nrem > 0 => {
                    sim.remotes[ridx(*r)].read(*n);
                }
                SOp::Poll { k } => {
                    sim.poll(*k);
                }
                SOp::Settle => {
                    crate::util::settle(&mut sim);
                }
                SOp::Advance { ms } => {
                    sim.advance(Duration::from_millis(*ms)).await;
                }
                SOp::Drop { r } if nrem > 1 => {
                    // the first remote is never dropped (it anchors the non-triviality rule)
                    let i = ridx(*r);
                    if i > 0 && dropped[i].is_none() {
                        sim.remotes[i].disconnect();
                        dropped[i] = Some(sim.tick());
                    }
                }
                _ => {}
            }
            note_reads(&sim, &mut reads, &mut last_read);
            if sim.is_done() || !sim.is_woken() {
                idle.push(sim.tick());
            }
        }
        crate::util::settle(&mut sim);
        note_reads(&sim, &mut reads, &mut last_read);
        idle.push(sim.tick());
        Obs {
            remotes: sim
                .remotes
                .iter()
                .enumerate()
                .map(|(i, r)| RemoteObs {
                    frames: r.frames.clone(),
                    sent: r.sent.clone(),
                    out_cap: r.out_cap,
                    dropped_at: dropped[i],
                    reads: reads[i].clone(),
                    decode_error: r.decode_error.clone(),
                })
                .collect(),
            trace: shared.trace(),
            idle,
            result: sim.result.clone(),
        }
    })
}

fn parse_i64(body: &[u8]) -> Option<i64> {
    std::str::from_utf8(body).ok()?.trim().parse().ok()
}

/// Link sessions of one remote on `sup` according to its own request sequence. Link and unlink
/// requests travel the same FIFO path (remote channel -> read task -> write task), so the k-th
/// session is opened by a known Link request and closed by a known Unlink request. A Sync takes
/// another path (through the lane) and links implicitly when it arrives while unlinked, so a remote
/// that syncs while unlinked, or unlinks after a sync, has no deterministic session structure.
struct ModelSessions {
    /// queued-seq of the Unlink request that closes each session (None = never closed)
    end_q: Vec<Option<u64>>,
    ambiguous: bool,
}

fn model_sessions(sent: &[(String, Req, u64, Option<u64>)]) -> ModelSessions {
    let mut linked = false;
    let mut sync_seen = false;
    let mut m = ModelSessions { end_q: vec![], ambiguous: false };
    for (lane, req, q, _) in sent {
        if lane != "sup" {
            continue;
        }
        match req {
            Req::Link => {
                if !linked {
                    linked = true;
                    m.end_q.push(None);
                }
            }
            Req::Unlink => {
                if sync_seen {
                    m.ambiguous = true;
                }
                if linked {
                    linked = false;
                    *m.end_q.last_mut().unwrap() = Some(*q);
                }
            }
            Req::Sync => {
                if !linked {
                    m.ambiguous = true;
                }
                sync_seen = true;
            }
            Req::Command(_) => {}
        }
    }
    m
}

pub fn check(case: &SCase) -> Verdict {
    let obs = execute(case);
    if std::env::var("VERIF_DUMP").is_ok() {
        for (i, r) in obs.remotes.iter().enumerate() {
            eprintln!("remote {} out_cap {} dropped {:?} sent: {:?}", i, r.out_cap, r.dropped_at, r.sent);
            for f in &r.frames {
                eprintln!("remote {} frame: {} {} {:?}", i, f.seq, f.lane, match &f.kind { FrameKind::Event(b) => format!("Event {}", String::from_utf8_lossy(b)), k => format!("{:?}", k) });
            }
        }
        eprintln!("trace: {:?}", obs.trace.iter().filter(|(_, e)| matches!(e, Ev::ProgBegin { .. } | Ev::ProgEnd { .. })).collect::<Vec<_>>());
        eprintln!("idle: {:?} result: {:?}", obs.idle, obs.result);
    }
    let mut v = Verdict::new();
    if let Some(Err(e)) = &obs.result {
        v.fail("agent-failed", format!("the agent task ended with an error: {}", e));
    } else if obs.result.is_some() {
        v.fail("harness:agent-stopped", "the agent stopped although nothing asked it to".to_string());
    }

    // the pushed sequence: programs in the order they ran
    let programs = programs_of(case);
    let mut pushed: Vec<i64> = vec![]; // global index -> value
    let mut prog_of: Vec<usize> = vec![]; // global index -> position in `runs`
    let mut runs: Vec<(i32, u64, u64)> = vec![]; // (program, begin seq, end seq)
    {
        let mut open: Option<(i32, u64)> = None;
        for (seq, ev) in &obs.trace {
            match ev {
                Ev::ProgBegin { idx } => open = Some((*idx, *seq)),
                Ev::ProgEnd { idx } => {
                    if let Some((i, b)) = open.take() {
                        if i == *idx {
                            runs.push((i, b, *seq));
                        }
                    }
                }
                _ => {}
            }
        }
    }
    {
        let mut seen = std::collections::HashSet::new();
        for (ri, (idx, _, _)) in runs.iter().enumerate() {
            if !seen.insert(*idx) {
                v.fail("program-ran-twice", format!("program {} ran twice (a ctl command was delivered twice)", idx));
                continue;
            }
            if let Some(p) = programs.get(*idx as usize) {
                for a in p {
                    if let Act::Supply { v: val } = a {
                        pushed.push(*val);
                        prog_of.push(ri);
                    }
                }
            }
        }
    }
    let index_of: HashMap<i64, usize> = pushed.iter().enumerate().map(|(i, x)| (*x, i)).collect();

    let mut nontrivial = false;
    let mut mid_burst_link = false;
    let mut unlink_mid_burst = false;
    let mut any_ambiguous = false;
    let mut relinked = false;
    for (ri, r) in obs.remotes.iter().enumerate() {
        if let Some(e) = &r.decode_error {
            v.fail("sup-bad-frame", format!("remote {}: undecodable bytes: {}", ri, e));
        }
        let model = model_sessions(&r.sent);
        any_ambiguous |= model.ambiguous;
        // split the sup frames into sessions at the unlinked frames
        struct Session {
            linked_seq: Option<u64>,
            closed: bool,
            got: Vec<(usize, u64)>, // (global index, frame seq)
        }
        let mut sessions: Vec<Session> = vec![];
        let mut cur = Session { linked_seq: None, closed: false, got: vec![] };
        let mut count: HashMap<usize, usize> = HashMap::new();
        let mut last_idx: Option<usize> = None;
        for f in r.frames.iter().filter(|f| f.lane == "sup") {
            match &f.kind {
                FrameKind::Linked => {
                    if cur.linked_seq.is_none() {
                        cur.linked_seq = Some(f.seq);
                    }
                }
                FrameKind::Synced => {}
                FrameKind::Unlinked(_) => {
                    cur.closed = true;
                    sessions.push(std::mem::replace(&mut cur, Session { linked_seq: None, closed: false, got: vec![] }));
                }
                FrameKind::Event(body) => {
                    let Some(g) = parse_i64(body).and_then(|x| index_of.get(&x).copied()) else {
                        v.fail(
                            "sup-invented",
                            format!("remote {}: event body {:?} is not an item that was pushed", ri, String::from_utf8_lossy(body)),
                        );
                        continue;
                    };
                    let c = count.entry(g).or_default();
                    *c += 1;
                    if *c > 1 {
                        v.fail(
                            "sup-duplicate",
                            format!("remote {}: item {} (push index {}) was delivered {} times", ri, pushed[g], g, *c),
                        );
                        continue;
                    }
                    if let Some(prev) = last_idx {
                        if g < prev {
                            v.fail(
                                "sup-reordered",
                                format!("remote {}: item {} (push index {}) delivered after item {} (push index {})", ri, pushed[g], g, pushed[prev], prev),
                            );
                        }
                    }
                    if let Some((prev, _)) = cur.got.last() {
                        if g > *prev + 1 {
                            v.fail(
                                "sup-gap",
                                format!(
                                    "remote {}: inside one link session item {} (push index {}) was followed by item {} (push index {}): {} items in between were dropped",
                                    ri, pushed[*prev], prev, pushed[g], g, g - prev - 1
                                ),
                            );
                        }
                    }
                    last_idx = Some(last_idx.map(|p| p.max(g)).unwrap_or(g));
                    cur.got.push((g, f.seq));
                }
            }
        }
        if cur.linked_seq.is_some() || !cur.got.is_empty() {
            sessions.push(cur);
        }
        relinked |= sessions.len() >= 2;

        // obligations
        for (si, s) in sessions.iter().enumerate() {
            let Some(l) = s.linked_seq else { continue };
            for (pi, (_, b, e)) in runs.iter().enumerate() {
                // classes: the remote got part of a burst that began before it had read linked
                if *b < l && s.got.iter().any(|(g, _)| prog_of[*g] == pi) {
                    mid_burst_link = true;
                }
                let _ = e;
            }
            if model.ambiguous {
                continue;
            }
            let Some(end_q) = model.end_q.get(si).copied() else { continue };
            // the frames and the request sequence must tell the same story
            if r.dropped_at.is_some() {
                if !s.closed {
                    continue; // the remote went away during this session: nothing more is owed
                }
                if end_q.is_none() {
                    continue;
                }
            } else if s.closed != end_q.is_some() {
                continue;
            }
            // A remote that stays linked is owed every item pushed after it read `linked`. A remote
            // that asks to unlink is owed nothing that is still on its way from the agent to the
            // runtime when the unlink is processed (it is no longer "linked at that time" from the
            // runtime's point of view): what it did receive of the items pushed after it read
            // `linked` must be a prefix of them (if a later item reached it, it was linked when
            // every earlier one was dispatched).
            let t = end_q.unwrap_or(u64::MAX);
            let have: std::collections::HashSet<usize> = s.got.iter().map(|(g, _)| *g).collect();
            let last_got = s.got.iter().map(|(g, _)| *g).max();
            let mut missing = vec![];
            for (g, val) in pushed.iter().enumerate() {
                let (_, b, e) = runs[prog_of[g]];
                let owed = if end_q.is_none() { true } else { last_got.map(|m| g < m).unwrap_or(false) };
                if b > l && owed && !have.contains(&g) {
                    missing.push(*val);
                }
                if end_q.is_some() && b > l && b < t && !have.contains(&g) {
                    // pushed before the remote asked to unlink, still on its way when it was unlinked
                    unlink_mid_burst = true;
                }
                let _ = e;
            }
            if !missing.is_empty() {
                v.fail(
                    "sup-lost",
                    format!(
                        "remote {} session {}: read `linked` at {} and {} ; items pushed after that and never delivered ({}): {:?}",
                        ri,
                        si,
                        l,
                        match end_q { Some(q) => format!("asked to unlink at {}", q), None => "stayed linked".to_string() },
                        missing.len(),
                        &missing[..missing.len().min(20)]
                    ),
                );
            }

            // non-trivial: the remote read nothing from the start of a burst until the system went
            // idle after it, and more of the burst than its channel holds was still undelivered
            for (pi, (_, b, e)) in runs.iter().enumerate() {
                if !(*b > l && *e < t) {
                    continue;
                }
                let Some(idle_after) = obs.idle.iter().copied().find(|i| *i > *e) else { continue };
                let stalled = !r.reads.iter().any(|x| *x > *b && *x < idle_after);
                let late_bytes: usize = s
                    .got
                    .iter()
                    .filter(|(g, seq)| prog_of[*g] == pi && *seq > idle_after)
                    .map(|(g, _)| 32 + "/node".len() + "sup".len() + pushed[*g].to_string().len())
                    .sum();
                if stalled && late_bytes > r.out_cap {
                    nontrivial = true;
                }
            }
        }
    }
    if nontrivial {
        v.nontrivial();
    }
    v.class_if(nontrivial, "burst>cap-with-stalled-remote");
    v.class_if(mid_burst_link, "linked-mid-burst");
    v.class_if(unlink_mid_burst, "unlinked-with-items-in-flight");
    v.class_if(any_ambiguous, "sync-ambiguous-remote");
    v.class_if(relinked, "relinked");
    v.class_if(obs.remotes.len() >= 2, "remotes>=2");
    v.class_if(obs.remotes.iter().any(|r| r.dropped_at.is_some()), "remote-dropped");
    v.class_if(pushed.len() >= 100, "pushed>=100");
    v.class_if(pushed.is_empty(), "nothing-pushed");
    v.class_if(
        case.ops.iter().any(|o| matches!(o, SOp::Burst { setv, .. } if *setv > 0))
            && obs.remotes.iter().any(|r| r.frames.iter().any(|f| f.lane == "v0" && matches!(f.kind, FrameKind::Event(_)))),
        "value-lane-shares-writer",
    );
    v
}
