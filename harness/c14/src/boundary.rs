//! Sub-check `agent-commands-boundary`: the same laws as `agent-commands` at the end of the u16
//! commander id space. One agent instance creates (and keeps) 65 530..65 540 commanders for distinct
//! targets `/many/<n>` `in` (ids are never recycled), in two or three chunks, and sends distinguishable
//! commands through the first, the ones around number 65 535 and a few random ones, before and after
//! the boundary is crossed. On the real code the registration that would need an id beyond the last
//! usable one fails with `CommanderIdOverflow`; the failure is recorded and (unless `propagate`) the
//! handler goes on, so only commanders that were accepted are ever used. Oracle: every command that
//! was sent through an accepted commander is forwarded exactly once to ITS target, in order per target
//! (an overwritable one may only be superseded by a later command to the same target in the same
//! program); nothing arrives at a target it was not sent to.

use crate::cagent::{make_cmd_agent, many_node, BigStep, CEv, CShared, BIG_BASE};
use proptest::prelude::*;
use serde::{Deserialize, Serialize};
use std::collections::{BTreeMap, HashMap};
use std::sync::atomic::AtomicU64;
use std::sync::Arc;
use vcommon::Verdict;
use vsim::links::{CmdFrameKind, LinkServer};
use vsim::{arb_small_cap, block_on_paused, Req, Sim, SimParams};

#[derive(Clone, Debug, PartialEq, Eq, Serialize, Deserialize)]
pub enum XStep {
    /// Create commanders up to (excluding) target number `upto` (no-op when already there).
    Create { upto: u32 },
    /// Send through commander `sel`: 0 first, 1..=5 numbers 65533..=65537, 6 the last created,
    /// 7 number `r` (any).
    Send { sel: u8, r: u32, queued: bool },
    /// End the current program; the harness delivers everything before the next one starts.
    Flush,
}

#[derive(Clone, Debug, Serialize, Deserialize)]
pub struct XCase {
    pub seed: u64,
    pub budget: usize,
    pub command_msg_buffer: usize,
    /// Capacity of the target channels.
    pub cap: usize,
    /// A failed registration fails the handler (the agent then stops with a user code error).
    pub propagate: bool,
    pub steps: Vec<XStep>,
}

fn arb_send() -> impl Strategy<Value = XStep> {
    (
        prop_oneof![2 => Just(0u8), 8 => 1u8..=5, 2 => Just(6u8), 2 => Just(7u8)],
        0u32..65_545,
        any::<bool>(),
    )
        .prop_map(|(sel, r, queued)| XStep::Send { sel, r, queued })
}

pub fn arb_case() -> impl Strategy<Value = XCase> {
    (
        any::<u64>(),
        prop_oneof![Just(8usize), Just(64)],
        prop_oneof![Just(512usize), Just(4096)],
        arb_small_cap(),
        prop_oneof![5 => Just(false), 1 => Just(true)],
        // first chunk, total
        prop_oneof![Just(65_530u32), Just(65_534), Just(65_535), Just(65_536), Just(65_538)],
        65_530u32..=65_540,
        proptest::collection::vec(arb_send(), 1..6),
        proptest::collection::vec(arb_send(), 2..10),
        0u32..3,
        proptest::collection::vec(arb_send(), 1..8),
    )
        .prop_map(
            |(seed, budget, command_msg_buffer, cap, propagate, first, total, s1, s2, extra, s3)| {
                let mut steps = vec![XStep::Create { upto: first.min(total) }];
                steps.extend(s1);
                steps.push(XStep::Flush);
                steps.push(XStep::Create { upto: total });
                steps.extend(s2);
                if extra > 0 {
                    steps.push(XStep::Flush);
                    steps.push(XStep::Create { upto: total + extra });
                    steps.extend(s3);
                }
                XCase {
                    seed,
                    budget,
                    command_msg_buffer,
                    cap,
                    propagate,
                    steps,
                }
            },
        )
}

fn programs_of(case: &XCase) -> Vec<Vec<BigStep>> {
    let mut programs = vec![];
    let mut cur = vec![];
    let mut created = 0u32;
    let mut n = 0i64;
    for st in &case.steps {
        match st {
            XStep::Create { upto } => {
                if *upto > created {
                    cur.push(BigStep::Create {
                        from: created,
                        to: *upto,
                        propagate: case.propagate,
                    });
                    created = *upto;
                }
            }
            XStep::Send { sel, r, queued } => {
                let idx = match sel {
                    0 => 0,
                    1..=5 => 65_532 + *sel as u32,
                    6 => created.saturating_sub(1),
                    _ => *r,
                };
                n += 1;
                cur.push(BigStep::Send {
                    idx,
                    v: n,
                    queued: *queued,
                });
            }
            XStep::Flush => {
                if !cur.is_empty() {
                    programs.push(std::mem::take(&mut cur));
                }
            }
        }
    }
    if !cur.is_empty() {
        programs.push(cur);
    }
    programs
}

struct Obs {
    agent_id: uuid::Uuid,
    trace: Vec<(u64, CEv)>,
    /// (key, frames)
    chans: Vec<(String, Vec<vsim::links::CmdFrame>, Option<String>, usize)>,
    result: Option<Result<(), String>>,
}

fn settle_all(sim: &mut Sim, server: &mut LinkServer, cap: usize) {
    let mut stagnant = 0u32;
    loop {
        let mut moved = 0usize;
        moved += server.accept(&mut sim.link_rx);
        while server.answer_next(cap).is_some() {
            moved += 1;
        }
        for r in sim.remotes.iter_mut() {
            moved += r.pump(usize::MAX);
        }
        let polls = sim.poll(10_000);
        for r in sim.remotes.iter_mut() {
            moved += r.read(usize::MAX);
        }
        moved += server.drain_all();
        if moved == 0 && polls == 0 && (sim.is_done() || !sim.is_woken()) {
            break;
        }
        if moved == 0 {
            stagnant += 1;
            if stagnant > 20_000 {
                panic!("settle_all: nothing has moved for 20000 rounds (livelock)");
            }
        } else {
            stagnant = 0;
        }
    }
}

fn execute(case: &XCase) -> Obs {
    let params = SimParams {
        seed: case.seed,
        budget: case.budget,
        command_msg_buffer: case.command_msg_buffer,
        inactive_timeout_ms: 3_600_000,
        prune_remote_delay_ms: 3_600_000,
        ..SimParams::default()
    };
    block_on_paused(case.seed, async {
        let clock = Arc::new(AtomicU64::new(1));
        let programs = programs_of(case);
        let nprogs = programs.len();
        let shared = CShared::new_big(clock.clone(), programs);
        let agent = make_cmd_agent(shared.clone());
        let mut sim = Sim::start(&agent, &params, clock.clone(), None);
        sim.run_until_idle();
        let mut server = LinkServer::new(clock.clone());
        sim.attach(4096, 4096);
        for k in 0..nprogs {
            let body = (BIG_BASE as usize + k).to_string().into_bytes();
            sim.remotes[0].send("ctl", Req::Command(body));
            settle_all(&mut sim, &mut server, case.cap);
        }
        Obs {
            agent_id: sim.agent_id,
            trace: shared.trace(),
            chans: server
                .channels
                .iter()
                .map(|c| (c.key.clone(), c.frames.clone(), c.decode_error.clone(), c.partial_bytes()))
                .collect(),
            result: sim.result.clone(),
        }
    })
}

pub fn check(case: &XCase) -> Verdict {
    let obs = execute(case);
    let mut v = Verdict::new();
    let failed = matches!(obs.result, Some(Err(_)));
    let reg_failed = obs.trace.iter().filter(|(_, e)| matches!(e, CEv::RegFailed { .. })).count();
    if failed && !(case.propagate && reg_failed > 0) {
        v.fail("agent-failed@boundary", format!("the agent task ended with an error: {:?}", obs.result));
    }
    if std::env::var("VERIF_DUMP").is_ok() {
        eprintln!("result {:?} reg_failed {} trace {:?}", obs.result, reg_failed,
            obs.trace.iter().filter(|(_, e)| !matches!(e, CEv::RegFailed { .. })).collect::<Vec<_>>());
        for (k, f, _, _) in &obs.chans {
            eprintln!("chan {} {:?}", k, f.iter().map(|f| (f.node.as_str(), match &f.kind { CmdFrameKind::Command(b) => String::from_utf8_lossy(b).to_string(), o => format!("{:?}", o) })).collect::<Vec<_>>());
        }
    }
    // sent, per target number, in send order: (value, overwritable, program)
    let mut sent: BTreeMap<u32, Vec<(i64, bool, i32)>> = BTreeMap::new();
    let mut cur_prog = -1;
    for (_, ev) in &obs.trace {
        match ev {
            CEv::ProgBegin { idx } => cur_prog = *idx,
            CEv::BigSent { idx, v: val, ow } => sent.entry(*idx).or_default().push((*val, *ow, cur_prog)),
            _ => {}
        }
    }
    // received per target number
    let mut received: BTreeMap<u32, Vec<i64>> = BTreeMap::new();
    for (key, frames, derr, partial) in &obs.chans {
        if derr.is_some() || *partial > 0 {
            v.fail("sent-cmd-bad-frame@boundary", format!("channel {}: decode error {:?}, {} bytes of an incomplete frame", key, derr, partial));
        }
        for f in frames {
            let idx = f.node.strip_prefix("/many/").and_then(|s| s.parse::<u32>().ok());
            let (Some(idx), CmdFrameKind::Command(body)) = (idx, &f.kind) else {
                v.fail("sent-cmd-bad-frame@boundary", format!("channel {}: unexpected frame {:?}", key, f));
                continue;
            };
            if f.origin != obs.agent_id || f.lane != "in" || *key != format!("local:{}|in", many_node(idx)) {
                v.fail("sent-cmd-misrouted@boundary", format!("channel {} carried {:?}", key, f));
                continue;
            }
            match std::str::from_utf8(body).ok().and_then(|s| s.trim().parse::<i64>().ok()) {
                Some(val) => received.entry(idx).or_default().push(val),
                None => v.fail("sent-cmd-invented@boundary", format!("target {}: body {:?}", idx, String::from_utf8_lossy(body))),
            }
        }
    }
    let mut targets: Vec<u32> = sent.keys().chain(received.keys()).copied().collect();
    targets.sort();
    targets.dedup();
    let empty_s = vec![];
    let empty_r = vec![];
    for t in &targets {
        let s = sent.get(t).unwrap_or(&empty_s);
        let r = received.get(t).unwrap_or(&empty_r);
        let index_of: HashMap<i64, usize> = s.iter().enumerate().map(|(i, c)| (c.0, i)).collect();
        let mut count = vec![0usize; s.len()];
        let mut firsts = vec![];
        let summary = format!("target /many/{}: sent {:?}; received {:?}", t, s, r);
        for val in r {
            match index_of.get(val) {
                None => v.fail("sent-cmd-invented@boundary", format!("received {} which was never sent to this target. {}", val, summary)),
                Some(i) => {
                    count[*i] += 1;
                    if count[*i] == 1 {
                        firsts.push(*i);
                    }
                }
            }
        }
        if let Some(i) = count.iter().position(|c| *c > 1) {
            v.fail("sent-cmd-duplicated@boundary", format!("{} forwarded {} times. {}", s[i].0, count[i], summary));
        }
        if firsts.windows(2).any(|w| w[1] < w[0]) {
            v.fail("sent-cmd-reordered@boundary", summary.clone());
        }
        // when the handler failed (propagate) the agent stopped: nothing is owed any more
        if failed {
            continue;
        }
        for (i, (val, ow, prog)) in s.iter().enumerate() {
            if count[i] > 0 {
                continue;
            }
            if !*ow {
                v.fail("sent-cmd-lost:not-overwritable@boundary", format!("{} never forwarded. {}", val, summary));
            } else if i + 1 == s.len() {
                v.fail("sent-cmd-lost:nothing-later@boundary", format!("{} never forwarded. {}", val, summary));
            } else if s[i + 1].2 != *prog {
                // the harness delivers everything between programs
                v.fail("sent-cmd-lost:not-superseded@boundary", format!("{} never forwarded. {}", val, summary));
            }
        }
    }
    let attempted: u32 = programs_of(case)
        .iter()
        .flatten()
        .filter_map(|s| if let BigStep::Create { to, .. } = s { Some(*to) } else { None })
        .max()
        .unwrap_or(0);
    let nsent: usize = sent.values().map(|s| s.len()).sum();
    let near = sent.keys().any(|t| *t >= 65_530);
    if attempted >= 65_536 && nsent >= 2 && near {
        v.nontrivial();
    }
    v.class_if(attempted >= 65_536, "commanders>=65536");
    v.class_if(attempted >= 65_537, "commanders>=65537");
    v.class_if(reg_failed > 0, "registration-refused");
    v.class_if(case.propagate && reg_failed > 0, "handler-failed-on-refused-registration");
    v.class_if(near, "sent-through-commander>=65530");
    v.class_if(sent.keys().any(|t| *t >= 65_535), "sent-through-commander>=65535");
    v
}
